"""Program families for the ZPT machine (DESIGN 3.3).

Each generator returns a list of abstract programs (harness.prog format) with
per-call outcome domains (`dom`): TLC explores every combination of outcomes
of the calls that are actually evaluated.
"""
from __future__ import annotations

import itertools
import random

from .prog import *   # noqa

KINDS = ["define", "cond", "repeat", "case", "content", "replace", "omit", "attrs"]


def doms(tier, kind):
    q = tier == "quick"
    if kind == "define":
        return [S("a"), NONE] if q else [S("a"), NONE, I(0), SEQ([S("a")])]
    if kind == "cond":
        return [B(True), I(0)] if q else [B(True), I(0), S(""), SEQ([]), OBJ("falsy"), S("a"), NONE, OBJ("plain")]
    if kind == "repeat":
        return [SEQ([S("a"), S("b")]), SEQ([]), NONE] if q else \
            [SEQ([S("a"), S("b")]), SEQ([]), NONE, SEQ([S("a"), S("b")], once=True), SEQ([I(7)]),
             DICT([("a", I(0)), ("b", I(7))])]
    if kind == "switch":
        return [I(7)]
    if kind == "case":
        return [I(7), I(0), DEFAULT]
    if kind in ("content", "replace"):
        return [NONE, DEFAULT, S("h")] if q else \
            [NONE, DEFAULT, S("a"), S("h"), S(""), I(0), I(7), B(False), BY("h"), OBJ("plain"), OBJ("html"),
             SEQ([S("a")])]
    if kind == "omit":
        return [B(True), B(False)] if q else [B(True), B(False), I(0), S("a"), NONE, SEQ([])]
    if kind == "attrs":
        return [NONE, DEFAULT, S("h")] if q else [NONE, DEFAULT, S("a"), S("h"), S(""), I(0), B(False), BY("h"), OBJ("html")]
    raise KeyError(kind)


class Alloc:
    """allocator of scripted calls; `focus` (thorough tier): only the statement kind in focus gets its
    full value set, the others their representative (quick) set, so that the product stays explorable"""

    def __init__(self, tier, focus=None):
        self.k = 0
        self.dom = {}
        self.tier = tier
        self.focus = focus

    def call(self, kind, dom=None):
        self.k += 1
        tier = self.tier
        if self.focus is not None and kind != self.focus:
            tier = "quick"
        self.dom[self.k] = list(dom if dom is not None else doms(tier, kind))
        return call(self.k)


def element(al, kinds, xname="x", yname="y", sattr=("class",), structure=False, tag="el"):
    kw = {}
    if "define" in kinds:
        kw["define"] = [(False, xname, al.call("define"))]
    if "cond" in kinds:
        kw["cond"] = al.call("cond")
    if "repeat" in kinds:
        kw["rep"] = (False, yname, al.call("repeat"))
    if "case" in kinds:
        kw["cs"] = al.call("case")
    if "switch" in kinds:
        kw["sw"] = al.call("switch")
    if "content" in kinds:
        kw["sub"] = ("content", structure, al.call("content"))
    if "replace" in kinds:
        kw["sub"] = ("replace", structure, al.call("replace"))
    if "omit" in kinds:
        kw["omit"] = al.call("omit")
    if "omit!" in kinds:
        kw["omit"] = True
    if "attrs" in kinds:
        kw["dattr"] = [("class", al.call("attrs")), ("id", al.call("attrs", [S("b")]))]
    return Open(tag=tag, sattr=list(sattr) if tag == "el" else [], **kw)


def probe(names=("x", "y")):
    """text with variable probes that never fail"""
    parts = ["t"]
    for n in names:
        parts.append(pipe(var(n), const(S("u0"))))
    return Text(*parts)


def c01_f1(tier, tag="el"):
    """one element carrying every subset of the eight statements, one child; tag="ns": the element is one of the
    template language's own namespace (<tal:block ...>), whose tag is never rendered (no tal:attributes there)"""
    progs = []
    for r in range(0, len(KINDS) + 1):
        for sub in itertools.combinations(KINDS, r):
            if "content" in sub and "replace" in sub:
                continue
            if tag == "ns" and "attrs" in sub:
                continue
            foci = [None] if tier == "quick" else (list(sub) or [None])
            for focus in foci:
                al = Alloc(tier, focus)
                items = [Text("pre\n  ")]
                if "case" in sub:
                    items.append(Open(sw=al.call("switch"), name="section"))
                    items.append(Text("\n  "))
                # the static attribute that tal:attributes may keep (`default`) is written with character entities
                items.append(element(al, sub, sattr=(("class", {"v": "R&amp;D 1 &lt; 2"}),) if "attrs" in sub else ("class",), tag=tag))
                items.append(probe())
                items.append(CLOSE)
                if "case" in sub:
                    items.append(CLOSE)
                items.append(Text("post"))
                items.append(probe())
                progs.append(program(items, al.dom, fam="C01.F1%s:" % ("" if tag == "el" else tag) + "+".join(sub) + (" focus=" + focus if focus else "")))
    return progs


def in_context(p, how):
    """the program's items placed inside a context that the machine models: the body of a macro, a slot filler, a named
    block of a translated element, a tal:on-error element, a repeated element, an element of the template namespace.
    Features are tested in plain surroundings mostly; this moves a whole program into the surroundings"""
    items = list(p["items"])
    libs = None
    main = None
    cfg = dict(p.get("cfg") or {})
    if how == "macro":
        lib = [Open(dm="ctx", name="div", sattr=[])] + items + [CLOSE]
        mainitems = [Text("B"), Open(um=("ctx", 1, False), name="section", sattr=[]), Text("ign"), CLOSE, Text("A")]
        main = len(mainitems)
        libs = [{"from": main + 1, "to": main + len(lib)}]
        items = mainitems + lib
    elif how == "filler":
        lib = [Open(dm="ctx", name="div", sattr=[]), Text("M["), Open(ds="s", name="span", sattr=[]), Text("dflt"), CLOSE, Text("]"), CLOSE]
        mainitems = [Text("B"), Open(um=("ctx", 1, False), name="section", sattr=[]), Text("ign"), Open(fs="s", name="b", sattr=[])] + items + \
            [CLOSE, CLOSE, Text("A")]
        main = len(mainitems)
        libs = [{"from": main + 1, "to": main + len(lib)}]
        items = mainitems + lib
    elif how == "name":
        items = [Text("B"), Open(name="p", tr="", sattr=[]), Text("Dear "), Open(name="b", nm="who", sattr=[])] + items + [CLOSE, Text(" bye"), CLOSE, Text("A")]
        cfg["_translate_variant"] = "rewrite"
    elif how == "onerror":
        items = [Text("B"), Open(name="div", oe=(False, const(S("c"))), sattr=[])] + items + [CLOSE, Text("A")]
    elif how == "repeat":
        items = [Text("B\n "), Open(name="div", rep=(False, "z", const(SEQ([I(0), I(7)]))), sattr=[])] + items + [CLOSE, Text("A")]
    elif how == "ns":
        items = [Text("B"), Open(tag="ns")] + items + [CLOSE, Text("A")]
    q = program(items, p["dom"], init=p.get("init"), cfg=cfg, fam=p["fam"] + " @" + how, bools=p.get("bools", ()), main=main, libs=libs or ())
    return q


CONTEXTS = ["macro", "filler", "name", "onerror", "repeat", "ns"]


def in_contexts(progs, per, rnd):
    """`per` sampled programs in each context (inside a named block the white space between repetitions travels through
    the translation mapping, where the harness cannot leave it open: programs with tal:repeat stay out of that context)"""
    out = []
    for how in CONTEXTS:
        pool = progs
        if how == "name":
            pool = [p for p in progs if not any(it["k"] == "open" and it["rep"]["m"] != "no" for it in p["items"])]
        out += [in_context(p, how) for p in rnd.sample(pool, min(per, len(pool)))]
    return out
OUTER = ["define", "cond", "repeat", "omit", "attrs", "content", "switch"]


def c01_f2(tier, rnd=None):
    """two-level nests and sibling pairs with <= 2 statements per element,
    one representative value per behaviour class"""
    progs = []
    small = "quick"
    outs = [c for r in (1, 2) for c in itertools.combinations(OUTER, r)]
    ins = [c for r in (1, 2) for c in itertools.combinations(KINDS, r) if not ("content" in c and "replace" in c)]
    if tier == "quick" and rnd is not None:
        outs = rnd.sample(outs, 12)
        ins = rnd.sample(ins, 14)
    for o in outs:
        for i in ins:
            if "case" in i and "switch" not in o:
                continue
            al = Alloc(small)
            items = [Text("pre\n "), element(al, o, xname="x", yname="y"), Text("\n   "),
                     element(al, i, xname="y" if "repeat" not in o else "x", yname="x" if "repeat" not in o else "y",
                             sattr=()), probe(), CLOSE, probe(), CLOSE, Text("post"), probe()]
            progs.append(program(items, al.dom, fam="C01.F2n:%s/%s" % ("+".join(o), "+".join(i))))
    # siblings: does the first leave anything behind for the second?
    sib = [c for r in (1, 2) for c in itertools.combinations(["define", "cond", "repeat", "content", "replace", "omit", "attrs"], r)
           if not ("content" in c and "replace" in c)]
    if tier == "quick" and rnd is not None:
        sib = rnd.sample(sib, 10)
    for a in sib:
        for b in sib:
            al = Alloc(small)
            items = [Text("pre\n "), element(al, a), probe(), CLOSE, Text("\n "),
                     element(al, b, sattr=()), probe(), CLOSE, Text("post"), probe()]
            progs.append(program(items, al.dom, fam="C01.F2s:%s|%s" % ("+".join(a), "+".join(b))))
    return progs


def random_program(rnd, tier, depth=3, max_items=14, kinds=KINDS, names=("x", "y"), onerror=False, raising=False,
                   width=3):
    """F3/F4: random nested program"""
    al = Alloc("quick")
    items = [Text("pre\n ")]
    budget = [max_items]

    def gen(d, switch_open):
        n = rnd.randint(1, width)
        for _ in range(n):
            if budget[0] <= 0:
                return
            if d >= depth or rnd.random() < 0.3:
                items.append(probe(names))
                budget[0] -= 1
                continue
            ks = [k for k in kinds if rnd.random() < 0.3]
            if "content" in ks and "replace" in ks:
                ks.remove(rnd.choice(["content", "replace"]))
            if "case" in ks and not switch_open:
                ks.remove("case")
            sw = rnd.random() < 0.25
            if sw and "case" not in ks:
                ks.append("switch")
            el = element(al, ks, xname=rnd.choice(names), yname=rnd.choice(names),
                         sattr=("class",) if rnd.random() < 0.5 else (),
                         tag="ns" if (rnd.random() < 0.15 and "attrs" not in ks) else "el")
            if onerror and rnd.random() < 0.35:
                el["oe"] = {"m": "yes", "s": False, "e": const(S("a")) if rnd.random() < 0.7 else al.call("content", [S("h"), NONE])}
            items.append(el)
            budget[0] -= 1
            if rnd.random() < 0.7:
                items.append(Text("\n  "))
            gen(d + 1, sw or (switch_open and "switch" not in ks))
            items.append(CLOSE)
    gen(0, False)
    items.append(Text("post"))
    items.append(probe(names))
    if raising:
        # let some calls raise
        for k in list(al.dom):
            if rnd.random() < 0.3:
                al.dom[k] = al.dom[k] + [EXC(rnd.choice(["KeyError", "ZeroDivisionError", "ValueError"]))]
    return program(items, al.dom, fam="rand")


# ------------------------------------------------------------------ C05
def c01_extras(tier, rnd):
    """F5: the `attrs` builtin (static attributes of the innermost element) and <?python ?> code blocks
    (assignments land in the variable scope and are not restored at the end of the element)"""
    progs = []
    q = tier == "quick"
    vals = [S("a"), NONE] if q else [S("a"), NONE, I(7), SEQ([S("a")])]
    exc = [EXC("ZeroDivisionError"), EXC("KeyError")]
    # attrs
    for where in ("content", "text", "define", "cond", "attr", "nested", "missing", "missing-pipe", "repeat", "fallback", "count"):
        for outer_attrs in ((), ("title",)):
            al = Alloc("quick")
            items = [Text("pre\n "), Open(sattr=list(outer_attrs) + ["lang"], name="section"), Text("\n  ")]
            if where == "content":
                items += [Open(sattr=["class", "title"], sub=("content", False, attrsx("title"))), Text("old"), CLOSE]
            elif where == "text":
                items += [Open(sattr=["class"]), Text("t", attrsx("class"), "u"), CLOSE, Text("w", attrsx("lang"))]
            elif where == "define":
                items += [Open(sattr=["class"], define=[(False, "x", attrsx("class")), (True, "y", attrsx("class"))]), probe(), CLOSE, probe()]
            elif where == "cond":
                items += [Open(sattr=["class"], cond=attrsx("class"), omit=al.call("omit")), Text("body"), CLOSE]
            elif where == "attr":
                items += [Open(sattr=["class", "id"], dattr=[("title", attrsx("class")), ("id", attrsx("id"))]), Text("body"), CLOSE]
            elif where == "nested":
                items += [Open(sattr=["class"]), Text("a", attrsx("class")), Open(sattr=["id"], tag="el"), Text("b", pipe(attrsx("class"), const(S("none")))),
                          CLOSE, Text("c", attrsx("class")), CLOSE]
            elif where == "missing":
                items += [Open(sattr=["class"], oe=(False, const(S("a")))), Text("t", attrsx("nope")), CLOSE]
            elif where == "missing-pipe":
                items += [Open(sattr=["class"]), Text("t", pipe(attrsx("nope"), attrsx("class"))), CLOSE]
            elif where == "repeat":
                items += [Open(sattr=["class"], rep=(False, "x", al.call("repeat"))), Text("t", attrsx("class"), var("x")), CLOSE]
            elif where == "count":
                # how many there are: the element's own statements and namespace declarations are not among them
                items += [Open(sattr=["class", "id"], define=[(False, "x", attrslen())], sub=("content", False, attrslen())), Text("old"), CLOSE,
                          Open(sattr=[], cond=al.call("cond", [B(True)])), Text("n", attrslen()), CLOSE, Text("o", attrslen())]
            elif where == "fallback":
                # the on-error expression is evaluated outside the element's own definitions
                items += [Open(sattr=["class", "lang"], oe=(False, attrsx("lang"))), Text("t", al.call("content", [S("a"), EXC("ZeroDivisionError")])), CLOSE]
            items += [Text("\n "), CLOSE, Text("post")]
            progs.append(program(items, al.dom, fam="C01.F5:attrs-%s%s" % (where, "+outer" if outer_attrs else "")))
    # code blocks
    for where in ("top", "in-element", "in-define", "in-repeat", "raises", "raises-on-error", "reads", "global-then-code", "in-cond"):
        al = Alloc("quick")
        items = [Text("pre\n ")]
        if where == "top":
            items += [Code("x", al.call("define", vals)), probe(), Open(), probe(), CLOSE]
        elif where == "in-element":
            items += [Open(), Code("x", al.call("define", vals)), probe(), CLOSE, probe()]
        elif where == "in-define":
            items += [Open(define=[(False, "x", al.call("define", vals))]), probe(), Code("x", al.call("define", [S("b"), NONE])), probe(), CLOSE, probe()]
        elif where == "in-repeat":
            items += [Open(rep=(False, "y", al.call("repeat"))), Code("x", var("y")), probe(), CLOSE, probe()]
        elif where == "raises":
            items += [Open(), Text("a"), Code("x", al.call("define", vals + exc)), probe(), CLOSE, probe()]
        elif where == "raises-on-error":
            items += [Open(oe=(False, const(S("a")))), Text("a"), Code("x", al.call("define", vals + exc)), probe(), CLOSE, probe()]
        elif where == "reads":
            items += [Open(define=[(False, "y", al.call("define", vals))]), Code("x", var("y")), probe(), CLOSE, probe()]
        elif where == "global-then-code":
            items += [Open(define=[(True, "x", al.call("define", vals))]), probe(), CLOSE, Code("x", al.call("define", [S("b")])), probe()]
        elif where == "in-cond":
            items += [Open(cond=al.call("cond")), Code("x", al.call("define", vals)), probe(), CLOSE, probe()]
        items += [Text("post")]
        progs.append(program(items, al.dom, fam="C01.F5:code-%s" % where))
    # assignment expressions written as interpolations: ${(x := E)} inserts the value and binds the template variable, like
    # a code block; what a local definition of the same name saved is put back when ITS element ends
    for where in ("top", "in-element", "in-define", "in-repeat", "raises-on-error", "reads", "global-then", "in-cond", "unreached", "twice"):
        for bound in (False, True):
            al = Alloc("quick")
            w = lambda e: Text("w", asg("x", e), ";")     # noqa: E731
            items = [Text("pre\n "), probe()]
            if where == "top":
                items += [w(al.call("define", vals)), probe(), Open(), probe(), CLOSE]
            elif where == "in-element":
                items += [Open(), w(al.call("define", vals)), probe(), CLOSE, probe()]
            elif where == "in-define":
                items += [Open(define=[(False, "x", al.call("define", vals))]), probe(), w(al.call("define", [S("b"), NONE])), probe(), CLOSE, probe()]
            elif where == "in-repeat":
                items += [Open(rep=(False, "x", al.call("repeat"))), probe(), w(al.call("define", [S("b")])), probe(), CLOSE, probe()]
            elif where == "raises-on-error":
                items += [Open(oe=(False, const(S("a")))), Text("a"), w(al.call("define", vals + exc)), probe(), CLOSE, probe()]
            elif where == "reads":
                items += [Open(define=[(False, "y", al.call("define", vals))]), w(var("y")), probe(), CLOSE, probe()]
            elif where == "global-then":
                items += [Open(define=[(True, "x", al.call("define", vals))]), probe(), CLOSE, w(al.call("define", [S("b")])), probe()]
            elif where == "in-cond":
                items += [Open(cond=al.call("cond")), w(al.call("define", vals)), probe(), CLOSE, probe()]
            elif where == "unreached":
                items += [Open(cond=const(B(False))), w(al.call("define", vals)), CLOSE, probe(),
                          Open(define=[(False, "x", al.call("define", [S("b")]))]), probe(), CLOSE, probe()]
            elif where == "twice":
                items += [w(al.call("define", [S("a")])), probe(), Open(), w(al.call("define", [S("b")])), probe(), CLOSE, probe()]
            items += [Text("post")]
            progs.append(program(items, al.dom, init={"x": S("c")} if bound else {}, fam="C01.F5:asg-%s:%s" % (where, bound)))
    return progs


def c05_chains(tier, rnd):
    """all nestings <= 3 of define-local / define-global / repeat elements over a
    name pool that contains a plain name, a Python builtin and a generated-code
    helper name, x each name initially bound or not; snapshots of the variable
    environment before / inside / after every element"""
    pool = ["x", "len", "get"] if tier == "quick" else ["x", "len", "get", "re", "translate"]
    kinds = ["L", "G", "R"]
    etypes = [(k, n) for k in kinds for n in pool]
    chains = [(a,) for a in etypes] + [(a, b) for a in etypes for b in etypes]
    c3 = [(a, b, c) for a in etypes for b in etypes for c in etypes]
    if tier == "quick":
        # (the 27 chains over one plain name are always there: global / local / repeat re-binding one name)
        same = [ch for ch in c3 if all(n == "x" for _, n in ch)]
        c3 = same + rnd.sample([ch for ch in c3 if ch not in same], 230)
    chains += c3
    progs = []
    for ch in chains:
        used = sorted({n for _, n in ch})
        inits = list(itertools.product([False, True], repeat=len(used)))
        if tier == "quick" and len(ch) == 3:
            inits = [rnd.choice(inits)]
        for ini in inits:
            al = Alloc(tier)
            sn = [0]

            def snp():
                sn[0] += 1
                return Text("s", snap(sn[0]))
            items = [snp()]
            for d, (k, n) in enumerate(ch):
                if k == "L":
                    items.append(Open(define=[(False, n, al.call("define", [S("a") if d % 2 == 0 else S("b")] + ([NONE] if d == 0 else [])))], sattr=[]))
                elif k == "G":
                    # (every global definition of a chain has a value of its own: which one is visible after a
                    # local scope between them ended is the point)
                    items.append(Open(define=[(True, n, al.call("define", [S(["c", "p", "u"][d])]))], sattr=[]))
                else:
                    items.append(Open(rep=(False, n, al.call("repeat", [SEQ([S("a"), S("b")]), SEQ([])])), sattr=[]))
                items.append(snp())
            for d in range(len(ch)):
                items.append(CLOSE)
                items.append(snp())
            # an outer binding may hold any value, None included
            noneval = (len(progs) % 3 == 0)
            init = {n: (NONE if noneval else S("u0")) for n, b in zip(used, ini) if b}
            progs.append(program(items, al.dom, init=init,
                                 fam="C05.chain:" + "/".join(k + ":" + n for k, n in ch) + " init=" + ",".join(sorted(init))
                                 + (" (None)" if noneval else "")))
    return progs, pool


def c05_sametext(tier, rnd):
    """nested elements whose definitions are written with the very same text (`x e(1)` on the element and on a
    descendant, as tal:define or tal:repeat): what is saved and restored belongs to the element, not to the text"""
    progs = []
    for name in ("x", "len"):
        for depth in (2, 3):
            for kinds in itertools.product("LRG", repeat=depth):
                if kinds.count("G") > 1 or (tier == "quick" and depth == 3 and rnd.random() < 0.5):
                    continue
                for bound in (False, True):
                    al = Alloc(tier)
                    cl = al.call("define", [S("a"), S("b")])
                    cr = al.call("repeat", [SEQ([S("a"), S("b")]), SEQ([S("c")])])
                    # (a global gets values of its own: a local that is the very object the global holds is the
                    # subject of a recorded finding)
                    cg = al.call("define", [S("p"), S("u")])
                    sn = [0]

                    def snp():
                        sn[0] += 1
                        return Text("s", snap(sn[0]))
                    items = [snp()]
                    for k in kinds:
                        if k == "R":
                            items.append(Open(rep=(False, name, cr), sattr=[]))
                        else:
                            items.append(Open(define=[(k == "G", name, cg if k == "G" else cl)], sattr=[]))
                        items.append(snp())
                    for k in kinds:
                        items += [CLOSE, snp()]
                    progs.append(program(items, al.dom, init=({name: S("u0")} if bound else {}),
                                         fam="C05.sametext:%s:%s:%s" % (name, "".join(kinds), bound)))
    return progs, ["x", "len"]


def c05_multiname(tier, rnd):
    """definitions of several names at once -- tal:define="(x, y) expr", local and global: every name gets ITS item, here,
    after a same-named local ended, and (for globals) after a macro or a slot filler returned"""
    progs = []
    pr = lambda: Text("p", pipe(var("x"), const(S("u0"))), ",", pipe(var("y"), const(S("u0"))), ";")   # noqa: E731
    vals = [SEQ([S("a"), S("b")]), SEQ([S("a")]), NONE] if tier == "quick" else [SEQ([S("a"), S("b")]), SEQ([S("a")]), SEQ([S("a"), S("b"), S("c")]), NONE, S("h"), I(7)]
    for g in (False, True):
        for bound in (False, True):
            init = {"x": S("c"), "y": S("p")} if bound else {}
            al = Alloc(tier)
            items = [pr(), Open(define=[(g, ("x", "y"), al.call("define", vals))], sattr=[]), pr(), CLOSE, pr()]
            progs.append(program(items, al.dom, init=init, fam="C05.multi:%s:%s" % ("G" if g else "L", bound)))
            # the global definition inside an element that binds the same names locally: visible again when the local ends
            al = Alloc(tier)
            items = [pr(), Open(define=[(False, "x", const(S("c"))), (False, "y", const(S("p")))], sattr=[]), pr(),
                     Open(define=[(g, ("x", "y"), al.call("define", vals[:1]))], sattr=[]), pr(), CLOSE, pr(), CLOSE, pr()]
            progs.append(program(items, al.dom, init=init, fam="C05.multi-under-local:%s:%s" % ("G" if g else "L", bound)))
    base = list(progs)
    for p in base:
        if ":G:" in p["fam"]:
            for how in ("macro", "filler"):
                progs.append(in_context(p, how))
    return progs


def c05_siblings(tier, rnd):
    """a defining element followed by a sibling that reads the name in an
    expression (text probe): shadowing a builtin or helper name is local"""
    # (AttributeError, LookupError: classes that the generated code of `|` and exists: names)
    pool = ["x", "len", "str", "id", "AttributeError", "LookupError"]
    progs = []
    for n in pool:
        for k in ("L", "G", "R"):
            al = Alloc(tier)
            if k == "R":
                el = Open(rep=(False, n, al.call("repeat", [SEQ([S("a")]), SEQ([])])), sattr=[])
            else:
                el = Open(define=[(k == "G", n, al.call("define", [S("a")]))], sattr=[])
            items = [Text("0", pipe(var(n), const(S("u0")))), el, Text("1", pipe(var(n), const(S("u0"))), pipe(var("nope"), const(S("u0"))),
                                                                          exists(var("nope")), exists(attr(var(n), "nosuch"))), CLOSE,
                     Text("2", pipe(var(n), const(S("u0")))),
                     Open(cond=var(n) if n != "x" else pipe(var(n), const(B(True))), sattr=[]), Text("3"), CLOSE]
            progs.append(program(items, al.dom, fam="C05.sib:%s:%s" % (k, n)))
    # one define statement with several parts of mixed scope: `global` holds for its own part only
    pr = lambda: Text("p", pipe(var("x"), const(S("u0"))), pipe(var("len"), const(S("u0"))), pipe(var("id"), const(S("u0"))))   # noqa: E731
    for scopes in ((True, False), (False, True), (True, False, True), (False, True, False), (True, True, False)):
        for pre_bound in (False, True):
            al = Alloc(tier)
            names = ["x", "len", "id"][:len(scopes)]
            parts = [(g, n, al.call("define", [S("a"), NONE] if tier != "quick" else [S("a")])) for g, n in zip(scopes, names)]
            items = [pr()]
            if pre_bound:
                items += [Open(define=[(False, n, const(S("b"))) for n in names], sattr=[]), pr()]
            items += [Open(define=parts, sattr=[]), pr(), CLOSE, pr()]
            if pre_bound:
                items += [CLOSE, pr()]
            progs.append(program(items, al.dom, fam="C05.mixed:%s:%s" % ("".join("G" if g else "L" for g in scopes), pre_bound)))
    return progs, pool + ["nope"]


# ------------------------------------------------------------------ C13 / C12
FEATURES = ["plain", "omit!", "omitx", "repeat", "define", "ns", "tr", "nm", "content"]


def _oe_level(al, oe, feat, depth, fb):
    kw = {}
    tag = "el"
    if feat == "omit!":
        kw["omit"] = True
    elif feat == "omitx":
        kw["omit"] = al.call("omit", [B(False), B(True)])
    elif feat == "repeat":
        kw["rep"] = (False, "y", al.call("repeat", [SEQ([S("a"), S("b")])]))
    elif feat == "define":
        kw["define"] = [(False, "x", al.call("define", [S("b"), EXC("KeyError")]))]
    elif feat == "ns":
        tag = "ns"
    elif feat == "tr":
        kw["tr"] = ""               # the element's content is a translation block
    elif feat == "nm":
        kw["tr"] = ""
        kw["_named_child"] = True   # (marker, handled by the caller)
    if oe:
        if fb == "const":
            kw["oe"] = (False, const(S("c")))
        elif fb == "call":
            kw["oe"] = (False, al.call("content", [S("h"), NONE, EXC("ValueError")]))
        elif fb == "struct":
            kw["oe"] = (True, al.call("content", [S("h")]))
        elif fb == "err":
            kw["oe"] = (False, strx(errf("type"), litp(), errf("lineno"), litp(), errf("offset")))
    kw.pop("_named_child", None)
    return Open(tag=tag, sattr=["class"] if tag == "el" and depth % 2 == 0 else [], **kw)


def c13_chains(tier, rnd, excs=("ZeroDivisionError",)):
    """on-error on any subset of a chain of nested elements (depth <= 3) with
    omit-tag / repeat / define / tal: elements between, x raising points
    before and after the inner element on every level"""
    progs = []
    levels = [(oe, f) for oe in (0, 1) for f in FEATURES if f != "content"]
    chains = [(a,) for a in levels] + [(a, b) for a in levels for b in levels]
    c3 = [(a, b, c) for a in levels for b in levels for c in levels]
    if tier == "quick":
        chains = [ch for ch in chains if any(oe for oe, _ in ch)]
        chains = chains[:12] + rnd.sample(chains[12:], 60)
        c3 = rnd.sample([ch for ch in c3 if sum(oe for oe, _ in ch) >= 1], 60)
    else:
        c3 = [ch for ch in c3 if sum(oe for oe, _ in ch) >= 1]
    fbs = ["const", "call", "struct", "err"]
    for n, ch in enumerate(chains + c3):
        al = Alloc(tier)
        rdom = [S("a")] + [EXC(c) for c in excs]
        items = [Text("pre")]
        for d, (oe, feat) in enumerate(ch):
            items.append(_oe_level(al, oe, feat, d, fbs[(n + d) % len(fbs)]))
            items.append(Text("b%d" % d, al.call("content", rdom)))
        for d in reversed(range(len(ch))):
            items.append(Text("a%d" % d, al.call("content", rdom)))
            items.append(CLOSE)
            items.append(Text("x%d" % d, pipe(var("x"), const(S("u0"))), pipe(var("y"), const(S("u0")))))
        progs.append(program(items, al.dom, fam="C13.chain:" + "/".join("%s%s" % ("E" if oe else "-", f) for oe, f in ch)))
    return progs


def c13_modes(tier, rnd):
    """tal:on-error together with tal:content / tal:replace on one element, each with its own text / structure mode:
    the fallback is written in the mode of the on-error statement, the content in that of its own"""
    progs = []
    for stmt in ("content", "replace"):
        for cs in (False, True):
            for os_ in (False, True):
                for excs in (("ZeroDivisionError",), ("KeyError", "RecursionError")):
                    al = Alloc(tier)
                    el = Open(sub=(stmt, cs, al.call("content", [S("h")] + [EXC(c) for c in excs])),
                              oe=(os_, al.call("content", [S("h"), S("h2")])), sattr=["class"])
                    items = [Text("pre"), el, Text("k"), CLOSE, Text("post")]
                    progs.append(program(items, al.dom, fam="C13.mode:%s:%s/%s" % (stmt, "S" if cs else "T", "S" if os_ else "T")))
    return progs


def c13_metal(tier, rnd):
    """tal:on-error on METAL elements: on a define-macro element it is part of the macro (used from another template or
    rendered in place), on a fill-slot element it guards the filler; a failure inside the macro / the filler is
    replaced by that element's fallback and nothing else"""
    progs = []
    d = [S("a"), EXC("ZeroDivisionError")]
    for where in ("macro", "filler", "inplace", "macro+caller", "filler+macro"):
        for fb in ("const", "err"):
            al = Alloc(tier)
            fbe = const(S("a")) if fb == "const" else errf("type")
            oe = (False, fbe)
            lib = [Open(dm="m1", name="div", sattr=["class"], oe=oe if where in ("macro", "macro+caller", "filler+macro") else None),
                   Text("M", al.call("content", d)), Open(ds="s", name="i", sattr=[]), Text("D", al.call("content", d)), CLOSE,
                   Text("n", al.call("content", d)), CLOSE]
            fill = [Open(fs="s", name="b", sattr=["id"], oe=oe if where in ("filler", "filler+macro") else None),
                    Text("F", al.call("content", d)), CLOSE]
            use = [Open(um=("m1", 1, False), name="section", sattr=[]), Text("ign")] + fill + [CLOSE]
            if where == "macro+caller":
                use = [Open(name="p", oe=(False, const(S("b"))), sattr=[])] + use + [CLOSE]
            if where == "inplace":
                main = [Text("pre", al.call("content", d)),
                        Open(dm="m2", name="div", sattr=["class"], oe=oe), Text("I", al.call("content", d)), CLOSE, Text("post", al.call("content", d))]
            else:
                main = [Text("pre", al.call("content", d))] + use + [Text("post", al.call("content", d))]
            items = main + lib
            progs.append(program(items, dict(al.dom), main=len(main), libs=[{"from": len(main) + 1, "to": len(items)}],
                                 fam="C13.metal:%s:%s" % (where, fb)))
    # a macro (or a filler) defines a global and then fails; the caller's tal:on-error recovers: the definition is there
    for where in ("macro", "filler"):
        al = Alloc(tier)
        gdef = [(True, "x", al.call("define", [S("b")]))]
        lib = [Open(dm="m1", name="div", sattr=[], define=gdef if where == "macro" else ()),
               Text("M"), Open(ds="s", name="i", sattr=[]), Text("D"), CLOSE, Text("n", al.call("content", d)), CLOSE]
        fill = [Open(fs="s", name="b", sattr=[], define=gdef if where == "filler" else ()), Text("F"), CLOSE]
        main = [Text("pre", pipe(var("x"), const(S("u0")))), Open(name="p", oe=(False, const(S("a"))), sattr=[]),
                Open(um=("m1", 1, False), name="section", sattr=[]), Text("ign")] + fill + [CLOSE, CLOSE,
                Text("post", pipe(var("x"), const(S("u0"))))]
        items = main + lib
        progs.append(program(items, dict(al.dom), main=len(main), libs=[{"from": len(main) + 1, "to": len(items)}],
                             fam="C13.metal:global-then-fail:%s" % where))
    return progs


# ------------------------------------------------------------------ C12
EXC12 = ["KeyError", "ValueError", "ZeroDivisionError", "Custom2", "CustomStr", "RecursionError",
         "KeyboardInterrupt", "SystemExit", "Exception", "ExceptionGroup", "OSError"]


def c12_raising(tier, rnd):
    """F1-style programs (multi-line, with a text interpolation) in which every
    evaluation point may raise exception class c, for every c"""
    progs = []
    subsets = [s for r in range(1, len(KINDS) + 1) for s in itertools.combinations(KINDS, r)
               if not ("content" in s and "replace" in s)]
    if tier == "quick":
        subsets = rnd.sample(subsets, 40)
    for n, sub in enumerate(subsets):
        classes = EXC12 if tier != "quick" else [EXC12[n % len(EXC12)], EXC12[(n + 3) % len(EXC12)]]
        for c in classes:
            al = Alloc("quick")
            # (every other program holds characters in front that str.splitlines() would break at: only LF / CR end a line)
            items = [Text("pre\x0b\x0c\u2028 \x85\u2029\x1c\n  " if n % 2 else "pre\n  ", al.call("content", [S("a")]), "\n")]
            if "case" in sub:
                items.append(Open(sw=al.call("switch"), name="section"))
                items.append(Text("\n   "))
            el = element(al, sub)
            # every third program: the statement expressions contain characters that are written as entities
            # in an attribute value (1 < 2, 1 & 3)
            ent = (n % 3 == 2)
            # every third program: expressions that span two lines or contain runs of blanks
            ws = (n % 3 == 1)
            if ent or ws:
                w = ("ltcond" if n % 2 else "ampand") if ent else ("nlparen" if n % 2 else "dsp")
                for d in el["def"]:
                    d["e"] = wrap(w, d["e"])
                for key in ("cond", "cs"):
                    if el[key]["x"] != "none":
                        el[key] = wrap(w, el[key])
                for key in ("rep", "sub", "omit"):
                    if el[key]["e"]["x"] != "none":
                        el[key]["e"] = wrap(w, el[key]["e"])
                for d in el["dattr"]:
                    d["e"] = wrap(w, d["e"])
            items.append(el)
            items.append(Text("t\n", al.call("content", [S("a")]), "é ", al.call("content", [S("a")])))
            items.append(CLOSE)
            if "case" in sub:
                items.append(CLOSE)
            items.append(Text("post", al.call("content", [S("a")])))
            for k in al.dom:
                al.dom[k] = al.dom[k] + [EXC(c)]
            progs.append(program(items, al.dom, fam="C12:%s:%s%s" % (c, "+".join(sub), ":entities" if ent else (":whitespace" if ws else ""))))
    # the same expression text -- with a prefix that parses its own remainder (not:, string:, exists:, a prefixed
    # alternative) -- at several places of one template; any occurrence may be the one that fails, and the report names
    # the place of THAT occurrence
    for c in (EXC12 if tier != "quick" else EXC12[:2]):
        for kind in ("not", "string", "pipe", "structure"):
            al = Alloc("quick")
            call = al.call("content", [S("a"), EXC(c)])
            e = {"not": not_(call), "string": strx(litp(), call, litp()), "pipe": pipe(var("y"), wrap("pyprefix", call)),
                 "structure": call}[kind]
            st = kind == "structure"
            items = [Text("pre\n  "), Open(sub=("content", st, e), sattr=["class"]), Text("old"), CLOSE, Text("\n\n   "),
                     Open(name="p", cond=e if kind == "not" else NOE, sattr=[]), Text("k\n ", e), CLOSE, Text("\n"),
                     Open(name="ul", sub=("content", st, e), dattr=[("title", e)], sattr=[]), Text("old"), CLOSE, Text("post", e)]
            progs.append(program(items, al.dom, fam="C12:%s:same-text:%s" % (c, kind)))
    return progs


# ------------------------------------------------------------------ C04 / C19
CAUGHT = ["AttributeError", "NameError", "LookupError", "TypeError", "ValueError", "KeyError", "UnicodeError", "IndexError", "SubLookup",
          "UnboundLocalError"]
NOTCAUGHT = ["ZeroDivisionError", "RuntimeError"]
WRAPS = ["lambda", "lamarg", "listcomp", "genexp", "cond", "dictitem", "setcomp", "paren", "compx", "genx", "lamdef", "nestlam", "lamkw", "nlstr", "nlcomment", "walrusw"]


def shapes(al, tier, excs, ok=None):
    """expression shapes over fresh scripted calls"""
    ok = ok or [S("a")]
    d = ok + [EXC(c) for c in excs]

    def c():
        return al.call("content", d)
    out = [
        ("call", lambda: c()),
        ("pipe2", lambda: pipe(c(), c())),
        ("pipe3", lambda: pipe(c(), c(), c())),
        ("pipe4", lambda: pipe(c(), c(), c(), c())),
        ("not", lambda: not_(c())),
        ("not-pipe", lambda: not_(pipe(c(), c()))),
        ("exists", lambda: exists(c())),
        ("exists-pipe", lambda: exists(pipe(c(), c()))),
        ("not-exists", lambda: not_(exists(c()))),
        ("exists-not", lambda: exists(not_(c()))),
        ("str", lambda: strx(litp(), c(), litp(), c())),
        ("str-pipe", lambda: strx(litp(), pipe(c(), c()))),
        ("pipe-not", lambda: pipe(c(), not_(c()))),
        # literals with an escaped quote or an escaped pipe character among the alternatives
        ("pipe-litq", lambda: pipe(c(), const(S("q")))),
        ("pipe-litq-mid", lambda: pipe(c(), const(S("q")), c())),
        ("pipe-litq-first", lambda: pipe(const(S("qq")), c())),
        ("pipe-litpipe", lambda: pipe(c(), const(S("pp")), c())),
        ("pipe-var-litq", lambda: pipe(var("nope"), const(S("q")))),
        # import: (no alternatives of its own; its failure is no lookup-type exception) and the explicit python: prefix
        ("imp", lambda: imp(True)),
        ("imp-bad", lambda: imp(False)),
        ("imp-exists", lambda: exists(imp(True))),
        ("imp-exists-bad", lambda: exists(imp(False))),
        ("imp-not", lambda: not_(imp(True))),
        ("imp-pipe-2nd", lambda: pipe(c(), imp(True))),
        ("imp-pipe-last-bad", lambda: pipe(c(), c(), imp(False))),
        ("imp-str", lambda: strx(litp(), imp(True), litp(), c())),
        ("pyprefix-pipe", lambda: pipe(wrap("pyprefix", c()), wrap("pyprefix2", c()))),
        ("not-pyprefix", lambda: not_(wrap("pyprefix", c()))),
        ("str-pyprefix", lambda: strx(litp(), wrap("pyprefix", c()))),
        ("pipe-var", lambda: pipe(var("nope"), c())),
        ("var-builtin", lambda: pipe(var("len"), c())),
        ("attr", lambda: attr(al.call("content", [DICT([("a", S("b"))]), DICT([("z", S("b"))]), OBJ("attr"), NONE,
                                                    SEQ([S("a")])]), "a")),
        ("dict-method", lambda: {"x": "skeys", "e": al.call("content", [DICT([("a", S("a")), ("keys", S("b"))]), DICT([("items", I(7))]),
                                                                     DICT([]), NONE, SEQ([S("a")])])}),
        ("dict-method-pipe", lambda: pipe({"x": "skeys", "e": al.call("content", [DICT([("keys", S("b"))]), NONE])}, c())),
        ("attr-pipe", lambda: pipe(attr(al.call("content", [DICT([("z", S("b"))]), OBJ("attr"), SEQ([S("a")])]), "a"), c())),
    ]
    for w in WRAPS:
        out.append(("wrap-" + w, (lambda w=w: wrap(w, c()))))
        out.append(("wrapvar-" + w, (lambda w=w: pipe(wrap(w, var("x")), c()))))
    return out


SITES = ["define", "cond", "repeat", "switch", "case", "content", "replace", "omit", "attrs", "text", "onerror"]


def host(site, e, al):
    """a small program with expression e at the given site"""
    pre = Text("pre\n ", pipe(var("x"), const(S("u0"))), pipe(var("y"), const(S("u0"))))
    post = Text("post", pipe(var("x"), const(S("u0"))), pipe(var("y"), const(S("u0"))))
    kid = Text("k")
    if site == "define":
        el = Open(define=[(False, "x", e)], sattr=["class"])
        kid = Text("k", pipe(var("x"), const(S("u0"))))
    elif site == "cond":
        el = Open(cond=e)
    elif site == "repeat":
        el = Open(rep=(False, "x", e))
        kid = Text("k", pipe(var("x"), const(S("u0"))))
    elif site == "switch":
        return [pre, Open(sw=e), Open(cs=al.call("case", [S("a"), S("b"), DEFAULT])), kid, CLOSE, CLOSE, post]
    elif site == "case":
        return [pre, Open(sw=al.call("switch", [S("a")])), Open(cs=e), kid, CLOSE, Open(cs=DFLT), Text("d"), CLOSE, CLOSE, post]
    elif site == "content":
        el = Open(sub=("content", False, e))
    elif site == "replace":
        el = Open(sub=("replace", False, e))
    elif site == "omit":
        el = Open(omit=e)
    elif site == "attrs":
        el = Open(sattr=["class"], dattr=[("class", e), ("id", al.call("attrs", [S("b")]))])
    elif site == "text":
        if e["x"] == "str":
            # ${string:...${..}..} followed by another ${..} in the same text is read as ONE string expression (longest
            # candidate that compiles): the second interpolation stands in a text node of its own
            return [pre, Open(), Text("k", e), Open(tag="ns"), Text("m", al.call("content", [S("b")])), CLOSE, CLOSE, post]
        return [pre, Open(), Text("k", e, "m", al.call("content", [S("b")])), CLOSE, post]
    elif site == "onerror":
        return [pre, Open(oe=(False, e)), Text("k", al.call("content", [S("b"), EXC("ZeroDivisionError")])), CLOSE, post]
    return [pre, el, kid, CLOSE, post]


def c04_family(tier, rnd):
    progs = []
    excs = ["KeyError", "TypeError", "ZeroDivisionError"] if tier == "quick" else CAUGHT + NOTCAUGHT
    names = [n for n, _ in shapes(Alloc(tier), tier, excs)]
    for sname in names:
        sites = SITES if tier != "quick" else rnd.sample(SITES, 4)
        if sname.startswith("pipe4") and tier != "quick":
            ex = ["KeyError", "ZeroDivisionError", "ValueError"]
        else:
            ex = excs
        for site in sites:
            if tier == "quick":
                # every program draws its own two recoverable classes (and one that is not), so that the family as a
                # whole covers every class the alternatives recover from
                ex = rnd.sample(CAUGHT, 2) + [rnd.choice(NOTCAUGHT)]
            al = Alloc(tier)
            okv = [SEQ([S("a"), S("b")])] if site == "repeat" else [S("a")]
            mk = dict(shapes(al, tier, ex, ok=okv))[sname]
            al.k = 0
            al.dom = {}
            e = mk()
            if site == "repeat" and sname.split("-")[0] in ("not", "exists", "str", "imp"):
                continue     # these never yield an iterable
            items = host(site, e, al)
            # (wrapper forms bind names of their own -- x, y, len: the template's variables of these names are bound, and
            # read before and after the element)
            progs.append(program(items, al.dom, init={"x": S("c"), "y": S("p")} if sname.startswith("wrap") else {},
                                 fam="C04:%s@%s" % (sname, site)))
    # a switch with several cases: the cases after the matching one are not evaluated (each case expression a call)
    # (a case belongs to the nearest enclosing switch, however deep it stands: directly inside, inside a plain wrapper
    # element, inside a template-namespace block with a condition of its own)
    for ncases in (2, 3):
        for nest in ("child", "wrapped", "block"):
            al = Alloc(tier)
            items = [Text("pre"), Open(sw=al.call("switch", [S("a"), S("b")]))]
            for c in range(ncases):
                case = [Open(cs=al.call("case", [S("a"), S("b"), S("c"), EXC("ZeroDivisionError")]), sattr=[]), Text("c%d" % c), CLOSE]
                if nest == "wrapped" and c > 0:
                    case = [Open(name="tbody", sattr=[])] + case + [CLOSE]
                elif nest == "block" and c > 0:
                    case = [Open(tag="ns", cond=al.call("cond", [B(True), B(False)]))] + case + [CLOSE]
                items += case
            items += [Open(cs=DFLT, sattr=[]), Text("d"), CLOSE, CLOSE, Text("post")]
            progs.append(program(items, al.dom, fam="C04:cases:%d:%s" % (ncases, nest)))
    # an assignment expression that is never reached (its element is not rendered) binds nothing: the name it mentions is
    # the template variable in every other expression -- bound by render(), by a later tal:define, by a tal:repeat, or
    # unbound (a lookup error that `|` absorbs).  (A REACHED assignment expression binds the template variable: modelled
    # for whole interpolations -- C01 F5 asg-*; inside statement expressions reached ones use a name of their own: `walrusw`.)
    for bound in (False, True):
        for site in ("text", "content", "attr", "define"):     # (define: on a child -- a definition precedes its element's condition)
            al = Alloc(tier)
            w = wrap("walrusx", al.call("content", [S("a")]))
            dead = {"text": [Open(cond=const(B(False)), sattr=[]), Text("dead", w), CLOSE],
                    "content": [Open(cond=const(B(False)), sub=("content", False, w), sattr=[]), Text("old"), CLOSE],
                    "attr": [Open(cond=const(B(False)), dattr=[("title", w)], sattr=[]), Text("k"), CLOSE],
                    "define": [Open(cond=const(B(False)), sattr=[]), Open(define=[(False, "y", w)], sattr=[]), Text("k"), CLOSE, CLOSE]}[site]
            items = [Text("pre", *_P(("x",)))] + dead + [Text("mid", *_P(("x",))),
                     Open(define=[(False, "x", al.call("define", [S("b")]))], sattr=[]), Text("in", *_P(("x",))), CLOSE,
                     Open(rep=(False, "x", al.call("repeat", [SEQ([S("a"), S("b")])])), sattr=[]), Text("r", *_P(("x",))), CLOSE,
                     Text("post", *_P(("x",)))]
            progs.append(program(items, al.dom, init={"x": S("c")} if bound else {}, fam="C04:walrus-unreached@%s:%s" % (site, bound)))
    # the same expression text several times in one string: every occurrence is an evaluation of its own
    vals = [S("a"), S("b")] if tier == "quick" else [S("a"), S("b"), NONE, EXC("KeyError")]
    for where in ("text", "string-content", "string-attr", "pipe-text", "two-elements"):
        al = Alloc(tier)
        c = al.call("content", vals)
        pre = Text("pre\n ")
        if where == "text":
            items = [pre, Open(), Text("a", c, "b", c, "c", c), CLOSE]
        elif where == "string-content":
            items = [pre, Open(sub=("content", False, strx(litp(), c, litp(), c)))] + [Text("old"), CLOSE]
        elif where == "string-attr":
            items = [pre, Open(sattr=["class"], dattr=[("title", strx(litp(), c, litp(), c, litp()))]), Text("k"), CLOSE]
        elif where == "pipe-text":
            n = var("nope")
            items = [pre, Open(), Text("a", pipe(n, c), "b", pipe(n, c)), CLOSE]
        else:
            items = [pre, Open(sub=("content", False, c)), Text("old"), CLOSE, Open(sub=("content", False, c)), Text("old"), CLOSE, Text("t", c)]
        progs.append(program(items + [Text("post")], al.dom, fam="C04:same-text-twice@%s" % where))
    return progs


def c19_valid(tier, rnd):
    """valid programs: strict and non-strict must render identically"""
    progs = c01_f1("quick")
    if tier == "quick":
        progs = rnd.sample(progs, 50)
    return progs


def c19_bad(tier, rnd):
    """invalid expressions planted at reachable and unreachable sites"""
    progs = []
    n = 0

    def P(items, al, fam):
        progs.append(program(items, al.dom, fam="C19:" + fam))
    from .concretize import BAD_EXPRS
    kbads = list(range(4)) + (rnd.sample(range(4, len(BAD_EXPRS)), 3) if tier == "quick" else list(range(4, len(BAD_EXPRS))))
    for kbad in kbads:
        b = bad(kbad)
        # a named attribute that a later dictionary of the statement provides is not evaluated
        al = Alloc(tier)
        P([Text("pre"), Open(sattr=["class"], dattr=[("title", b), ("", al.call("attrs", [DICT([("title", S("a"))]), DICT([]), DICT([("id", S("b"))])]))]),
           Text("k"), CLOSE, Text("post")], al, "attr-provided-by-later-dict")
        for site in SITES:
            al = Alloc(tier)
            P(host(site, b, al), al, "reach:%s" % site)
        # under a false condition / empty repeat / unselected case / after a content that is not default
        al = Alloc(tier)
        P([Text("pre"), Open(cond=al.call("cond", [B(False), B(True)])), Text("k", b), CLOSE, Text("post")], al, "under-cond")
        al = Alloc(tier)
        P([Text("pre"), Open(rep=(False, "x", al.call("repeat", [SEQ([]), SEQ([S("a")]), NONE]))), Text("k", b), CLOSE, Text("post")], al, "under-repeat")
        al = Alloc(tier)
        P([Text("pre"), Open(sw=al.call("switch", [S("a")])), Open(cs=al.call("case", [S("a"), S("b")])), Text("k"), CLOSE,
           Open(cs=b), Text("n"), CLOSE, CLOSE, Text("post")], al, "later-case")
        al = Alloc(tier)
        P([Text("pre"), Open(sub=("content", False, al.call("content", [S("a"), DEFAULT]))), Text("k", b), CLOSE, Text("post")], al, "under-content")
        al = Alloc(tier)
        P([Text("pre"), Open(sub=("replace", False, al.call("content", [S("a"), DEFAULT])), dattr=[("id", b)]), Text("k"), CLOSE, Text("post")], al, "attr-under-replace")
        al = Alloc(tier)
        P([Text("pre"), Open(oe=(False, b)), Text("k", al.call("content", [S("a"), EXC("KeyError")])), CLOSE, Text("post")], al, "in-fallback")
        al = Alloc(tier)
        P([Text("pre"), Open(sub=("content", False, pipe(al.call("content", [S("a"), EXC("KeyError"), EXC("ZeroDivisionError")]), b))),
           Text("k"), CLOSE, Text("post")], al, "later-pipe-alternative")
        # after a literal alternative (which can never fail) the invalid one is still a compile error in strict mode
        al = Alloc(tier)
        P([Text("pre"), Open(sub=("content", False, pipe(const(S("a")), b))), Text("k"), CLOSE, Text("post")], al, "after-literal-alternative")
        al = Alloc(tier)
        P([Text("pre"), Open(dattr=[("title", pipe(var("nope"), const(I(7)), b))]), Text("k"), CLOSE, Text("post")], al, "after-name-and-literal")
        al = Alloc(tier)
        P([Text("pre"), Open(cond=b), Text("k", bad(kbad + 1)), CLOSE, Text("post")], al, "two-plants")
        # the same invalid text at two sites: an unreached one first, then a reached one (same location?)
        al = Alloc(tier)
        P([Text("pre\n"), Open(cond=al.call("cond", [B(False), B(True)])), Text("k", b), CLOSE, Text("\n  mid\n"),
           Open(rep=(False, "x", al.call("repeat", [SEQ([]), SEQ([S("a")])]))), Text("r", b), CLOSE, Text("\n post ", b)], al, "same-text-twice")
    return progs


def c19_bad_metal(tier, rnd):
    """invalid expressions planted in METAL parts that are compiled but never rendered"""
    from .concretize import BAD_EXPRS
    progs = []
    kbads = list(range(4)) + (rnd.sample(range(4, len(BAD_EXPRS)), 2) if tier == "quick" else list(range(4, len(BAD_EXPRS))))
    for kbad in kbads:
        b = bad(kbad)
        # METAL: parts that are compiled but never rendered -- a filler that a later filler of the same slot replaces, the
        # default content of a slot that is filled, a filler for a slot the macro does not define, a macro nobody uses
        for kind in ("shadowed-filler", "filled-slot-default", "unknown-slot-filler", "unused-macro"):
            al = Alloc(tier)
            slot_default = [Text("D", b)] if kind == "filled-slot-default" else [Text("D")]
            lib = [Open(dm="m1", name="div", sattr=[]), Text("M["), Open(ds="a", name="span", sattr=[])] + slot_default + [CLOSE, Text("]"), CLOSE]
            if kind == "unused-macro":
                lib += [Text("\n"), Open(dm="m2", name="p", sattr=[]), Text("N", b), CLOSE]
            fills = []
            if kind == "shadowed-filler":
                fills += mk_fill("a", "a1", body=[Text("k", b)])
            if kind == "unknown-slot-filler":
                fills += mk_fill("z", "z1", body=[Text("k", b)])
            fills += mk_fill("a", "a2")
            main = [Text("pre"), Open(um=("m1", 1, False), name="section", sattr=[]), Text("ign")] + fills + [CLOSE, Text("post")]
            progs.append(program(main + lib, al.dom, main=len(main), libs=[{"from": len(main) + 1, "to": len(main) + len(lib)}],
                                 fam="C19:metal:" + kind))
    return progs


# ------------------------------------------------------------------ C07
def c07_family(tier, rnd):
    quick = tier == "quick"
    statics = [
        [],
        ["class"],
        [("class", {"q": "'", "v": 'say "hi"'}), ("ID", {"v": "i1", "sp": "  ", "eq": " = "})],
        ["checked", "class", ("title", {"q": '"', "v": "it's"})],
        [("title", {"v": "R&amp;D 1 &lt; 2 &#39;q&#39;"}), ("class", {"q": "'", "v": "a&amp;b"})],
        # written without quotes: once the value is computed the attribute is quoted
        [("class", {"q": "", "v": "plain"}), ("id", {"q": "", "v": "i2", "sp": "\n  "}), ("title", {"v": "50% off"})],
        # values that are namespace URIs of the template language (ordinary attributes all the same)
        [("title", {"v": "http://xml.zope.org/namespaces/tal"}), ("class", {"v": "http://xml.zope.org/namespaces/metal"}), ("id", {"v": "http://xml.zope.org/namespaces/i18n"})],
    ]
    named = ["class", "CLASS", "id", "checked", "title"]
    ndom = [NONE, DEFAULT, S(""), B(False), S("h")] if quick else \
        [NONE, DEFAULT, S(""), I(0), B(False), B(True), S("a"), S("h"), BY("h"), OBJ("html")]
    ddom = [DICT([]), DICT([("class", S("b"))]), DICT([("id", S("c")), ("checked", B(True))]),
            DICT([("class", NONE), ("title", S("h")), ("checked", I(0))]),
            DICT([("CLASS", S("b")), ("Checked", B(False)), ("ID", S("h"))])]
    kinds = named + ["{}"]
    # (lists of distinct kinds hold at most one dictionary; statements with two dictionaries are added below)
    lists = [(a,) for a in kinds] + [(a, b) for a in kinds for b in kinds if a != b]
    l3 = [(a, b, c) for a in kinds for b in kinds for c in kinds if len({a, b, c}) == 3]
    if quick:
        lists = lists[:6] + rnd.sample(lists[6:], 18)
        l3 = rnd.sample(l3, 10)
    lists += l3
    # two dictionaries in one statement (each key at most once in the start tag, later sources override earlier ones)
    d2 = [("{}", "{}")] + [t for n in ("class", "id", "title") for t in (("{}", n, "{}"), (n, "{}", "{}"), ("{}", "{}", n))]
    lists += d2 if not quick else [d2[0]] + rnd.sample(d2[1:], 4)
    twins = True
    configs = [("html", None, ["checked"]), ("none", set(), []), ("explicit", {"class", "id"}, ["class", "id"])]
    progs = []
    for st in statics:
        for lst in lists:
            for cname, cfgset, bools in (configs if not quick else [configs[len(progs) % 3]]):
                al = Alloc(tier)
                dattr = []
                for n in lst:
                    if n == "{}":
                        dattr.append(("", al.call("attrs", ddom)))
                    else:
                        dattr.append((n, al.call("attrs", ndom)))
                items = [Text("pre"), Open(sattr=st, dattr=dattr, bools=bools), Text("k"), CLOSE, Text("post")]
                cfg = {} if cfgset is None else {"boolean_attributes": sorted(cfgset)}
                progs.append(program(items, al.dom, cfg=cfg, bools=bools,
                                     fam="C07:%s:[%s]:%s" % (",".join(s if isinstance(s, str) else s[0] for s in st), ";".join(lst), cname)))
    # two elements of one template that write the same static attribute text: what is computed for one (a dictionary that
    # provides the name, a named entry) says nothing about the other
    for order in (0, 1):
        for second in ("dict", "named", "plain"):
            al = Alloc(tier)
            st = ["class", "title"]
            plain = [Open(sattr=st), Text("a"), CLOSE]
            if second == "dict":
                other = [Open(sattr=st, dattr=[("", al.call("attrs", [DICT([("class", S("b"))]), DICT([("class", NONE)]), DICT([])]))]), Text("b"), CLOSE]
            elif second == "named":
                other = [Open(sattr=st, dattr=[("class", al.call("attrs", [S("b"), NONE, DEFAULT]))]), Text("b"), CLOSE]
            else:
                other = [Open(sattr=st, cond=al.call("cond", [B(True), B(False)])), Text("b"), CLOSE]
            items = [Text("pre")] + (plain + other if order == 0 else other + plain) + [Open(sattr=st), Text("c"), CLOSE, Text("post")]
            progs.append(program(items, al.dom, fam="C07:twins:%s:%d" % (second, order)))
    return progs


# ------------------------------------------------------------------ C08
REPF = ["index", "number", "length", "start", "end", "even", "odd", "parity", "letter", "Letter", "roman", "Roman"]


def _repbody(name, fields=REPF):
    parts = ["["]
    for f in fields:
        parts.append(repv(name, f))
        parts.append(",")
    parts.append(pipe(var(name), const(S("u0"))))
    parts.append("]")
    return Text(*parts)


def c08_family(tier, rnd):
    quick = tier == "quick"
    progs = []
    # (a) every length / every position, all twelve variables
    lens = list(range(0, 41)) if quick else list(range(0, 120))
    al = Alloc(tier)
    items = [Text("pre\n  "), Open(rep=(False, "x", al.call("repeat", [RANGE(n) for n in lens]))), _repbody("x"), CLOSE, Text("\npost")]
    progs.append(program(items, al.dom, fam="C08:lengths"))
    # boundaries of letter / roman
    # (TLC's cost is quadratic in the length -- every state carries the output so far: 45 s at 728, some ten
    # minutes at 4000 with the short body)
    big = [26, 27, 53] if quick else [26, 27, 52, 53, 676, 677, 702, 703, 728, 3999, 4001]
    for n in big:
        al = Alloc(tier)
        items = [Text("pre\n"), Open(tag="ns", rep=(False, "x", al.call("repeat", [RANGE(n)]))),
                 _repbody("x", ["index", "letter", "Letter", "roman", "Roman", "end"] if n < 1000 else ["roman", "Roman"]),
                 CLOSE, Text("post")]
        progs.append(program(items, al.dom, fam="C08:big%d" % n))
    # (b) iterable kinds
    kinds = [SEQ([S("a"), S("b"), S("c")]), SEQ([S("a"), S("b")], once=True), SEQ([]), SEQ([], once=True), NONE,
             DICT([("a", I(0)), ("b", I(7))]), DICT([]), S("h"), S(""), S("a"), RANGE(3), BY("h"), I(7), OBJ("plain"), B(True)]
    al = Alloc(tier)
    items = [Text("pre\n  "), Open(rep=(False, "x", al.call("repeat", kinds))), _repbody("x", ["index", "length", "end"]), CLOSE,
             Text("post", pipe(var("x"), const(S("u0"))))]
    progs.append(program(items, al.dom, fam="C08:kinds"))
    # (b') the same sequence in other Python carriers (tuple, UserList, a sized container whose iterator is a
    # generator, an iterable without length, the old __getitem__ protocol, deque): every variable at every position,
    # alone and as outer / inner loop
    # (... and iterables whose truth value says nothing about their items: false, length 0 before iteration, not defined)
    for car in ("tuple", "userlist", "bag", "nolen", "oldseq", "deque", "falsy", "lazylen", "nobool"):
        al = Alloc(tier)
        items = [Text("pre\n  "), Open(rep=(False, "x", al.call("repeat", [SEQ([S("a"), S("b"), S("c")]), SEQ([S("a")]), SEQ([])]))),
                 _repbody("x"), CLOSE, Text("post", pipe(var("x"), const(S("u0"))))]
        progs.append(program(items, al.dom, cfg={"_carrier": car}, fam="C08:carrier:%s" % car))
        al = Alloc(tier)
        items = [Text("pre\n "), Open(rep=(False, "x", al.call("repeat", [SEQ([S("a"), S("b")])]))),
                 _repbody("x", ["index", "end"]), Text("\n  "),
                 Open(rep=(False, "y", al.call("repeat", [SEQ([S("b"), S("c")]), SEQ([])])), sattr=[]), _repbody("y", ["number", "length", "letter"]),
                 CLOSE, Text("o"), _repbody("x", ["index", "number", "Roman", "odd", "start", "end"]), CLOSE, Text("post")]
        progs.append(program(items, al.dom, cfg={"_carrier": car}, fam="C08:carrier-nest:%s" % car))
    # (b'') the repeat expression reads the variable it is about to bind ("descend one level": tal:repeat="x x"),
    # also nested and with global scope: the expression sees the outer value, the body the item
    tree = SEQ([SEQ([S("a"), S("b")]), SEQ([S("c")]), SEQ([])])
    for glob_ in (False, True):
        for depth in (1, 2):
            al = Alloc(tier)
            items = [Text("pre\n "), Open(rep=(glob_, "x", var("x"))), Text("[", repv("x", "number"), "/", repv("x", "length"), "]")]
            if depth == 2:
                items += [Text("\n  "), Open(rep=(False, "x", var("x")), sattr=[]), _repbody("x", ["index", "end", "letter"]), CLOSE,
                          Text("o", repv("x", "number"))]
            items += [CLOSE, Text("post")]
            progs.append(program(items, al.dom, init={"x": tree}, fam="C08:selfref:%s:%d" % (glob_, depth)))
    al = Alloc(tier)
    items = [Text("pre\n "), Open(rep=(False, ("x", "y"), var("x"))), Text("[", pipe(var("x"), const(S("u0"))), ",", pipe(var("y"), const(S("u0"))), "]"),
             CLOSE, Text("post")]
    progs.append(program(items, al.dom, init={"x": SEQ([SEQ([S("a"), S("b")]), SEQ([S("c"), S("p")])])}, fam="C08:selfref:unpack"))
    # (b3) a loop whose body uses a macro that loops over the same name (nesting that exists at run time only): the outer
    # loop's repeat variables are what they were when the macro has returned
    for inner in ([SEQ([S("a"), S("b"), S("c")])], [SEQ([])], [SEQ([S("a")]), SEQ([S("a"), S("b"), S("c")])]):
        al = Alloc(tier)
        main = [Text("pre\n "), Open(rep=(False, "x", al.call("repeat", [RANGE(2)]))), _repbody("x", ["index", "number"]),
                Open(um=("m1", 1, False), name="section", sattr=[]), Text("ign"), CLOSE,
                Text("o"), _repbody("x", ["index", "number", "letter", "length", "end"]), CLOSE, Text("post")]
        lib = [Open(dm="m1", name="ul", sattr=[]), Text("\n "), Open(rep=(False, "x", al.call("repeat", inner)), name="li", sattr=[]),
               _repbody("x", ["number", "length"]), CLOSE, CLOSE]
        progs.append(program(main + lib, al.dom, main=len(main), libs=[{"from": len(main) + 1, "to": len(main) + len(lib)}],
                             fam="C08:macro-loop:%d" % len(inner[0]["vs"])))
    # (c) nesting with reused and distinct names; outer variables read after the inner loop
    names = ["x", "y"]
    for n1 in names:
        for n2 in names:
            for n3 in (None, "x", "y"):
                if quick and n3 is not None and rnd.random() < 0.5:
                    continue
                al = Alloc(tier)
                items = [Text("pre\n "), Open(rep=(False, n1, al.call("repeat", [RANGE(2), RANGE(0), RANGE(3)]))),
                         _repbody(n1, ["index", "end"]), Text("\n  "),
                         Open(rep=(False, n2, al.call("repeat", [RANGE(2), RANGE(0)])), sattr=[]), _repbody(n2, ["number", "length"])]
                if n3:
                    items += [Text("\n   "), Open(tag="ns", rep=(False, n3, al.call("repeat", [RANGE(2), SEQ([S("a")])]))),
                              _repbody(n3, ["letter", "start"]), CLOSE, Text("i"), _repbody(n2, ["number", "end", "parity"])]
                items += [CLOSE, Text("o"), _repbody(n1, ["index", "number", "Roman", "odd"]), CLOSE,
                          Text("post", pipe(var("x"), const(S("u0"))), pipe(var("y"), const(S("u0"))))]
                progs.append(program(items, al.dom, fam="C08:nest:%s/%s/%s" % (n1, n2, n3)))
    # (d) tuple unpacking
    pairs = [SEQ([SEQ([S("a"), I(7)]), SEQ([S("b"), I(0)])]), SEQ([SEQ([S("a"), I(7)]), SEQ([S("b")])]),
             SEQ([SEQ([S("a"), I(7), I(0)])]), SEQ([I(7)]), SEQ([]), DICT([("a", I(0))])]
    al = Alloc(tier)
    items = [Text("pre\n  "), Open(rep=(False, ("x", "y"), al.call("repeat", pairs))),
             Text("[", pipe(var("x"), const(S("u0"))), ",", pipe(var("y"), const(S("u0"))), "]"), CLOSE,
             Text("post", pipe(var("x"), const(S("u0"))), pipe(var("y"), const(S("u0"))))]
    progs.append(program(items, al.dom, init={"y": S("c")}, fam="C08:unpack"))
    # (e0) the repeated element stands on the FIRST line of the template (an indented fragment): its indentation counts
    for lead in ("", "    ", "\t", "  \t "):
        for tag in ("el", "ns"):
            al = Alloc(tier)
            items = ([Text(lead)] if lead else []) + [Open(tag=tag, rep=(False, "x", al.call("repeat", [RANGE(3), RANGE(1), RANGE(0)])), sattr=[]),
                                                    Text("k", var("x")), CLOSE, Text("\npost")]
            progs.append(program(items, al.dom, fam="C08:firstline:%r:%s" % (lead, tag)))
    # (e) placements of the repeated element relative to the preceding text
    for tail in ["\n", "\n  ", "\n\t", "\n \t ", "x\n    ", "\n  text", "text", "\n\n  "]:
        for tag in ("el", "ns"):
            al = Alloc(tier)
            items = [Text("pre" + tail), Open(tag=tag, rep=(False, "x", al.call("repeat", [RANGE(3), RANGE(1), RANGE(0)])), sattr=[]),
                     Text("k", var("x")), CLOSE, Text("\npost")]
            progs.append(program(items, al.dom, fam="C08:place:%r:%s" % (tail, tag)))
    for tag in ("el", "ns"):
        al = Alloc(tier)
        items = [Open(name="ul", sattr=[]), Text("\n  ", pipe(var("y"), const(S("a"))), "\n      "),
                 Open(tag=tag, rep=(False, "x", al.call("repeat", [RANGE(3), RANGE(1)])), sattr=[]), Text("k", var("x")), CLOSE, Text("\n"), CLOSE]
        progs.append(program(items, al.dom, fam="C08:place:after-interpolation:%s" % tag))
    # first child without preceding text, and directly after another element
    al = Alloc(tier)
    items = [Open(sattr=[]), Open(rep=(False, "x", al.call("repeat", [RANGE(2)])), sattr=[]), Text("k"), CLOSE,
             Open(rep=(False, "x", al.call("repeat", [RANGE(2)])), sattr=[]), Text("m"), CLOSE, CLOSE]
    progs.append(program(items, al.dom, fam="C08:place:nopre"))
    return progs


# ------------------------------------------------------------------ C09 (METAL)
def _P(names=("x", "g")):
    parts = []
    for n in names:
        parts.append(pipe(var(n), const(S("u0"))))
        parts.append(",")
    return parts


def mk_macro(al, name, slots, tag="div", local_def=False, global_def=False, rep=False, inner_use=None, ext=None, fills=()):
    """items of a macro-defining element: slots = list of slot names (repeats allowed)"""
    kw = {}
    defs = []
    if local_def:
        defs.append((False, "x", al.call("define", [S("b")])))
    if global_def:
        defs.append((True, "g", al.call("define", [S("c")])))
    if rep:
        kw["rep"] = (False, "y", al.call("repeat", [SEQ([S("a"), S("b")])]))
    items = [Open(dm=name, name=tag, sattr=["class"], define=defs, um=ext, **kw)]
    if ext is None:
        items.append(Text("M%s[" % name, *_P()))
        for n, s in enumerate(slots):
            items.append(Open(ds=s, name="span", sattr=[]))
            items.append(Text("D%s%d" % (s, n), *_P()))
            items.append(CLOSE)
            items.append(Text("|"))
        if inner_use:
            items += inner_use
        items.append(Text("]"))
    else:
        items.append(Text("ignored"))
        for f in fills:
            items += f
    items.append(CLOSE)
    return items


def mk_fill(slot, label, body=None, tag="b", dslot=None):
    items = [Open(fs=slot, name=tag, sattr=[]), Text("F%s[" % label, *_P())]
    if body:
        items += body
    if dslot:
        items += [Open(ds=dslot, name="i", sattr=[]), Text("D" + dslot), CLOSE]
    items += [Text("]"), CLOSE]
    return items


def mk_use(name, lib, fills=(), ext=False, tag="section"):
    items = [Open(um=(name, lib, ext), name=tag, sattr=[]), Text("ignored-content")]
    for f in fills:
        items += f
    items.append(CLOSE)
    return items


def c09_family(tier, rnd):
    quick = tier == "quick"
    progs = []

    def build(main_items, lib_items, al, fam, lib2_items=None, init=None):
        items = list(main_items)
        main = len(items)
        libs = []
        if lib_items is not None:
            libs.append({"from": len(items) + 1, "to": len(items) + len(lib_items)})
            items += lib_items
        if lib2_items is not None:
            libs.append({"from": len(items) + 1, "to": len(items) + len(lib2_items)})
            items += lib2_items
        progs.append(program(items, al.dom, init=init or {}, main=main, libs=libs, fam="C09:" + fam))
    slotsets = [[], ["a"], ["a", "b"], ["a", "a"], ["a", "b", "a"]]
    fillsets = [[], ["a"], ["b"], ["a", "b"], ["z"], ["a", "z"]]
    if quick:
        combos = [(s, f) for s in slotsets for f in fillsets]
        combos = rnd.sample(combos, 14)
    else:
        combos = [(s, f) for s in slotsets for f in fillsets]
    # P1: one macro in another template / in the same template, callers filling subsets of slots + unknown
    for sl, fl in combos:
        for same in (False, True):
            al = Alloc(tier)
            m = mk_macro(al, "m1", sl)
            use = mk_use("m1", 0 if same else 1, [mk_fill(s, s + "1") for s in fl])
            main = [Text("pre\n ", *_P())] + use + [Text("post", *_P())]
            if same:
                build(main + [Text("\n")] + m, None, al, "P1same:%s:%s" % ("".join(sl), "".join(fl)))
            else:
                build(main, [Text("lib\n")] + m + [Text("\n")], al, "P1:%s:%s" % ("".join(sl), "".join(fl)))
    # P2: use inside repeat / define; macro reads the caller's variables; macro locals / globals
    for ld, gd, rp in itertools.product([False, True], repeat=3):
        al = Alloc(tier)
        m = mk_macro(al, "m1", ["a"], local_def=ld, global_def=gd, rep=rp)
        use = mk_use("m1", 1, [mk_fill("a", "a1")])
        main = [Text("pre", *_P()), Open(name="ul", rep=(False, "x", al.call("repeat", [SEQ([S("a"), S("b")])])), sattr=[]),
                Text("\n  ")] + use + [Text("r", *_P()), CLOSE, Text("post", *_P())]
        build(main, m, al, "P2:%s%s%s" % (int(ld), int(gd), int(rp)))
    # P2g: the macro re-defines a global that exists already (defined by the caller, or by an earlier use)
    for twice in (False, True):
        al = Alloc(tier)
        m = mk_macro(al, "m1", ["a"], global_def=True)
        use = mk_use("m1", 1, [mk_fill("a", "a1")])
        main = [Text("pre"), Open(name="span", define=[(True, "g", al.call("define", [S("a")]))], sattr=[]), Text("d", *_P()), CLOSE] + use + \
            [Text("mid", *_P())] + (mk_use("m1", 1, [], tag="article") if twice else []) + [Text("post", *_P())]
        build(main, m, al, "P2g:%s" % twice)
    # P2h: a caller's local (define / repeat variable) that shadows an earlier global keeps its value across a macro call;
    # what the macro (or a filler) defines globally during the call is published
    for shadow in ("define", "repeat"):
        for macro_global in (False, True):
            al = Alloc(tier)
            m = mk_macro(al, "m1", ["a"], global_def=macro_global)
            use = mk_use("m1", 1, [mk_fill("a", "a1")])
            kw = {"define": [(False, "x", al.call("define", [S("b")]))]} if shadow == "define" else \
                {"rep": (False, "x", al.call("repeat", [SEQ([S("b"), S("c")])]))}
            main = [Text("pre"), Open(name="span", define=[(True, "x", al.call("define", [S("a")]))], sattr=[]), Text("d", *_P()), CLOSE,
                    Open(name="ul", sattr=[], **kw), Text("l", *_P())] + use + [Text("r", *_P()), CLOSE, Text("post", *_P())]
            build(main, m, al, "P2h:%s:%s" % (shadow, macro_global))
    # P2i: every global definition of a name is made by macros of ANOTHER template (the calling template defines the name
    # only locally): set by one macro, hidden by a local define / repeat variable of the caller, re-defined by a second
    # macro inside that element -- after the element the second definition is the visible one
    # (not: re-defined once per item of a loop -- the second time with the very value the global holds already, which is the
    # recorded identity finding of C05)
    for shadow in ("define", "repeat"):
        for redefine in (True, False):
            if shadow == "repeat" and redefine:
                continue
            al = Alloc(tier)
            m0 = [Open(dm="m0", name="div", define=[(True, "g", al.call("define", [S("a")]))], sattr=[]), Text("M0", *_P()), CLOSE]
            m1 = [Open(dm="m1", name="p", define=[(True, "g", al.call("define", [S("c")]))] if redefine else [], sattr=[]), Text("M1", *_P()), CLOSE]
            kw = {"define": [(False, "g", al.call("define", [S("b")]))]} if shadow == "define" else \
                {"rep": (False, "g", al.call("repeat", [SEQ([S("b"), S("p")])]))}
            main = [Text("pre", *_P())] + mk_use("m0", 1, [], tag="article") + [Text("d", *_P()),
                    Open(name="ul", sattr=[], **kw), Text("l", *_P())] + mk_use("m1", 1, []) + [Text("r", *_P()), CLOSE, Text("post", *_P())]
            build(main, m0 + [Text("\n")] + m1, al, "P2i:%s:%s" % (shadow, redefine))
    # P2f: a global defined inside a filler is visible in the rest of the macro and afterwards in the caller
    al = Alloc(tier)
    m = [Open(dm="m1", name="div", sattr=[]), Text("M", *_P()), Open(ds="a", name="i", sattr=[]), Text("Da"), CLOSE, Text("n", *_P()), CLOSE]
    fill = [Open(fs="a", name="b", define=[(True, "g", al.call("define", [S("a")]))], sattr=[]), Text("F", *_P()), CLOSE]
    main = [Text("pre", *_P()), Open(um=("m1", 1, False), name="section", sattr=[]), Text("ign")] + fill + [CLOSE, Text("post", *_P())]
    build(main, m, al, "P2f")
    # P3: a filler that uses another macro; fillers naming slots of the inner macro only
    for outer_fill in (["a"], ["a", "c"], ["c"]):
        al = Alloc(tier)
        m1 = mk_macro(al, "m1", ["a"])
        m2 = mk_macro(al, "m2", ["c"], tag="p")
        inner = mk_use("m2", 1, [mk_fill("c", "c2")], tag="article")
        fills = []
        for s in outer_fill:
            fills.append(mk_fill(s, s + "1", body=inner if s == "a" else None))
        main = [Text("pre")] + mk_use("m1", 1, fills) + [Text("post")]
        build(main, m1 + [Text("\n")] + m2, al, "P3:" + "".join(outer_fill))
    # P4: macro body that itself uses another macro: a filler for a slot the used macro lacks must not reach it
    for fl in ([], ["c"], ["a", "c"]):
        al = Alloc(tier)
        m2 = mk_macro(al, "m2", ["c"], tag="p")
        m1 = mk_macro(al, "m1", ["a"], inner_use=mk_use("m2", 1, [], tag="article"))
        main = [Text("pre")] + mk_use("m1", 1, [mk_fill(s, s + "1") for s in fl]) + [Text("post")]
        build(main, m1 + [Text("\n")] + m2, al, "P4:" + "".join(fl))
    # P5: sibling uses: a filler left over by the first use must not appear in the second
    for f1, f2 in ((["c"], []), (["a", "c"], []), (["c"], ["c"]), ([], [])):
        al = Alloc(tier)
        m1 = mk_macro(al, "m1", ["a"])
        m2 = mk_macro(al, "m2", ["c"], tag="p")
        main = ([Text("pre")] + mk_use("m1", 1, [mk_fill(s, s + "1") for s in f1]) + [Text("mid")]
                + mk_use("m2", 1, [mk_fill(s, s + "2") for s in f2], tag="article") + [Text("post")])
        build(main, m1 + [Text("\n")] + m2, al, "P5:%s/%s" % ("".join(f1), "".join(f2)))
    # P6: extend-macro chains
    for fl in ([], ["a"], ["c"], ["a", "c"], ["b"]):
        al = Alloc(tier)
        base = mk_macro(al, "m1", ["a", "b"])
        ext = mk_macro(al, "m2", [], tag="p", ext=("m1", 1, True), fills=[mk_fill("a", "aE", dslot="c")])
        main = [Text("pre")] + mk_use("m2", 1, [mk_fill(s, s + "U") for s in fl]) + [Text("post")]
        build(main, base + [Text("\n")] + ext, al, "P6:" + "".join(fl))
    # P7: a whole template used as macro
    for fl in ([], ["a"]):
        al = Alloc(tier)
        lib2 = [Text("T2[", *_P()), Open(ds="a", name="span", sattr=[]), Text("Da"), CLOSE, Text("]")]
        main = [Text("pre")] + [Open(um=(None, 1, False), name="section", sattr=[]), Text("ign")] + \
            sum([mk_fill(s, s + "1") for s in fl], []) + [CLOSE, Text("post")]
        build(main, lib2, al, "P7:" + "".join(fl), init={"x": S("a")})
    # P9: an assignment made inside the macro (code block) does not reach the caller; one made inside a filler does
    # not reach the macro or the caller either (both run on a copy of the scope)
    for where in ("macro", "filler", "both"):
        for bound in (False, True):
            al = Alloc(tier)
            m = [Open(dm="m1", name="div", sattr=[]), Text("M", *_P())] + \
                ([Code("x", al.call("define", [S("a")]))] if where in ("macro", "both") else []) + \
                [Text("m", *_P()), Open(ds="a", name="i", sattr=[]), Text("Da"), CLOSE, Text("n", *_P()), CLOSE]
            fill = [Open(fs="a", name="b", sattr=[])] + ([Code("x", al.call("define", [S("b")]))] if where in ("filler", "both") else []) + \
                [Text("F", *_P()), CLOSE]
            main = [Text("pre", *_P())] + [Open(um=("m1", 1, False), name="section", sattr=[]), Text("ign")] + fill + [CLOSE] + [Text("post", *_P())]
            build(main, m, al, "P9:%s:%s" % (where, bound), init={"x": S("c")} if bound else None)
    # P10: the use-macro expression is evaluated at every use: one expression text (T1.macros[x]) naming different
    # macros as the variable changes -- in a loop, under two definitions, inside a filler that re-defines the name
    def two_macros(al):
        return mk_macro(al, "a", ["s"]) + [Text("\n")] + mk_macro(al, "b", ["s", "s"], tag="p")
    al = Alloc(tier)
    main = [Text("pre"), Open(name="ul", sattr=[]), Open(um=(("var", "x"), 1, False), name="li", rep=(False, "x", al.call("repeat", [SEQ([S("a"), S("b")]),
            SEQ([S("b"), S("a"), S("b")])])), sattr=[]), Text("ign")] + mk_fill("s", "s1") + [CLOSE, CLOSE, Text("post")]
    build(main, two_macros(al), al, "P10:loop")
    al = Alloc(tier)
    main = [Text("pre")]
    for v in ("a", "b", "a"):
        main += [Open(name="div", define=[(False, "x", const(S(v)))], sattr=[]), Open(um=(("var", "x"), 1, False), name="section", sattr=[]), Text("ign")] + \
            mk_fill("s", "s" + v) + [CLOSE, CLOSE]
    build(main + [Text("post")], two_macros(al), al, "P10:defines")
    al = Alloc(tier)
    inner = [Open(name="em", define=[(False, "x", const(S("b")))], sattr=[]), Open(um=(("var", "x"), 1, False), name="article", sattr=[]), Text("ign"), CLOSE, CLOSE]
    main = [Text("pre"), Open(name="div", define=[(False, "x", const(S("a")))], sattr=[]), Open(um=(("var", "x"), 1, False), name="section", sattr=[]),
            Text("ign")] + mk_fill("s", "s1", body=inner) + [CLOSE, CLOSE, Text("post")]
    build(main, two_macros(al), al, "P10:in-filler")
    # P11: a filled slot rendered several times in one macro call (inside the macro's loop; two regions of one name with
    # a definition between them): every region runs the filler in the scope of ITS place
    yprobe = [Text("y=", pipe(var("y"), const(S("u0"))), ";")]
    for filled in (True, False):
        al = Alloc(tier)
        m = [Open(dm="m1", name="ul", sattr=[]), Text("M["), Open(name="li", rep=(False, "y", al.call("repeat", [SEQ([S("a"), S("b"), S("c")]), SEQ([])])), sattr=[]),
             Open(ds="s", name="span", sattr=[]), Text("D", *_P(("y",))), CLOSE, CLOSE, Text("]"), CLOSE]
        main = [Text("pre")] + mk_use("m1", 1, [mk_fill("s", "s1", body=yprobe)] if filled else []) + [Text("post", *_P(("y",)))]
        build(main, m, al, "P11:loop:%s" % filled)
        al = Alloc(tier)
        m = [Open(dm="m1", name="div", sattr=[]), Text("M["), Open(ds="s", name="span", sattr=[]), Text("D1", *_P(("y",))), CLOSE,
             Open(name="p", define=[(False, "y", al.call("define", [S("b")]))], sattr=[]), Open(ds="s", name="span", sattr=[]), Text("D2", *_P(("y",))), CLOSE, CLOSE,
             Open(name="p", define=[(False, "y", const(S("c")))], sattr=[]), Open(ds="s", name="span", sattr=[]), Text("D3"), CLOSE, CLOSE, Text("]"), CLOSE]
        main = [Text("pre")] + mk_use("m1", 1, [mk_fill("s", "s1", body=yprobe)] if filled else []) + [Text("post")]
        build(main, m, al, "P11:regions:%s" % filled, init={"y": S("a")})
    # P12: statements on the define-slot element itself belong to the slot's default: a filler replaces the element
    # as a whole (its local and global definitions are not made, its condition / repeat not evaluated)
    for kind in ("define", "global", "repeat", "cond"):
        for filled in (True, False):
            al = Alloc(tier)
            kw = {"define": [(False, "x", al.call("define", [S("b")]))]} if kind == "define" else \
                {"define": [(True, "g", al.call("define", [S("c")]))]} if kind == "global" else \
                {"rep": (False, "x", al.call("repeat", [SEQ([S("b"), S("c")])]))} if kind == "repeat" else \
                {"cond": al.call("cond", [B(False), B(True)])}
            m = [Open(dm="m1", name="div", sattr=[]), Text("M[", *_P()), Open(ds="s", name="span", sattr=[], **kw), Text("D", *_P()), CLOSE, Text("|", *_P()), Text("]"), CLOSE]
            main = [Text("pre", *_P())] + mk_use("m1", 1, [mk_fill("s", "s1")] if filled else []) + [Text("post", *_P())]
            build(main, m, al, "P12:%s:%s" % (kind, filled), init={"x": S("a")})
    # P13: a filled slot inside an element of the macro that binds a name locally while a global of that name exists
    # (defined by the macro itself earlier, or by the caller before the use): after the filler returned the local is
    # still what the name means inside that element
    for who in ("macro", "caller"):
        for filled in (True, False):
            al = Alloc(tier)
            gdef = [Open(name="span", define=[(True, "g", al.call("define", [S("c")]))], sattr=[]), Text("G", *_P()), CLOSE]
            m = [Open(dm="m1", name="div", sattr=[]), Text("M[", *_P())] + (gdef if who == "macro" else []) + \
                [Open(name="p", define=[(False, "g", al.call("define", [S("b")]))], sattr=[]), Text("L", *_P()),
                 Open(ds="s", name="i", sattr=[]), Text("D", *_P()), CLOSE, Text("after-slot", *_P()), CLOSE, Text("after-local", *_P()), Text("]"), CLOSE]
            main = [Text("pre", *_P())] + (gdef if who == "caller" else []) + mk_use("m1", 1, [mk_fill("s", "s1")] if filled else []) + [Text("post", *_P())]
            build(main, m, al, "P13:%s:%s" % (who, filled))
    # P8: macroname is bound to the name used, inside the macro only (machine oracle only)
    al = Alloc(tier)
    m = [Open(dm="m1", name="div", sattr=[]), Text("M[", var("macroname"), "]"), CLOSE]
    main = [Text("pre", pipe(var("macroname"), const(S("u0"))))] + mk_use("m1", 1, []) + [Text("post", pipe(var("macroname"), const(S("u0"))))]
    build(main, m, al, "P8:macroname")
    return progs


def c12_metal(tier, rnd):
    """raising points inside macro bodies, fillers and nested uses: the message lists the
    failing expression and the enclosing use-macro call sites"""
    progs = []
    for c in (["KeyError"] if tier == "quick" else ["KeyError", "Custom2", "KeyboardInterrupt"]):
        for nested in (False, True):
            al = Alloc(tier)
            d = [S("a"), EXC(c)]
            m2 = [Open(dm="m2", name="p", sattr=[]), Text("N[", al.call("content", d), "]"), CLOSE]
            inner = mk_use("m2", 1, [], tag="article") if nested else []
            m1 = [Open(dm="m1", name="div", sattr=[]), Text("A\n ", al.call("content", d), "\n"), Open(ds="s", name="i", sattr=[]),
                  Text("d", al.call("content", d)), CLOSE] + inner + [Text("z", al.call("content", d)), CLOSE]
            for fl, oe in ((False, False), (True, False), (False, True)):
                fill = [Open(fs="s", name="b", sattr=[]), Text("F\n  ", al.call("content", d)), CLOSE] if fl else []
                use = [Open(um=("m1", 1, False), name="section", sattr=[]), Text("ign")] + fill + [CLOSE]
                if oe:
                    # a failure inside the macro is caught by the caller's on-error; a later failure (after the element, or
                    # in a second use of the macro) is reported with its own records only
                    use = [Open(name="p", oe=(False, const(S("a"))), sattr=[])] + use + [CLOSE, Text("\n ")] + \
                        mk_use("m1", 1, [], tag="article")
                main = [Text("pre\n ", al.call("content", d))] + use + [Text("post", al.call("content", d))]
                items = list(main)
                lib = m1 + [Text("\n")] + m2
                progs.append(program(items + lib, dict(al.dom), main=len(items), libs=[{"from": len(items) + 1, "to": len(items) + len(lib)}],
                                     fam="C12metal:%s:%s:%s:%s" % (c, nested, fl, oe)))
        # a macro rendered in place (its define-macro element stands in the flow): a failure inside it is reported with its
        # own expression only -- not with whatever the surrounding template evaluated before the element
        al = Alloc(tier)
        d = [S("a"), EXC(c)]
        items = [Text("pre\n ", al.call("content", d), "\n"), Open(name="div", define=[(False, "x", al.call("define", [S("b")]))], sattr=[]),
                 Open(dm="m1", name="p", sattr=[]), Text("M\n  ", al.call("content", d), "\n"),
                 Open(dm="m2", name="i", sattr=[]), Text("N", al.call("content", d)), CLOSE, Text("z", al.call("content", d)), CLOSE,
                 Text("after", al.call("content", d)), CLOSE]
        progs.append(program(items, dict(al.dom), fam="C12metal:%s:inplace" % c))
    return progs


def with_implicit(prog, names, variant="identity"):
    """the program under the option implicit_i18n_attributes=names: every attribute of one of these names (compared in
    lower case) is translated as if a clause of i18n:attributes named it, without an explicit id"""
    import copy
    q = copy.deepcopy(prog)
    for it in q["items"]:
        if it.get("k") != "open":
            continue
        have = {a["key"] for a in it["ia"]}
        for a in list(it["sattr"]) + [d for d in it["dattr"] if not d["d"] and not d["b"]]:
            if a["key"] in names and a["key"] not in have:
                it["ia"].append({"n": a["n"], "key": a["key"], "id": "", "implicit": True})
                have.add(a["key"])
    q["cfg"] = dict(q.get("cfg") or {}, implicit_i18n_attributes=sorted(names), _translate_variant=variant)
    q["fam"] = q.get("fam", "") + " +implicit(" + ",".join(sorted(names)) + ")"
    return q


# ------------------------------------------------------------------ C10 (I18N)
def c10_family(tier, rnd):
    quick = tier == "quick"
    progs = []

    def add(items, al, fam, variant, main=None, libs=()):
        progs.append(program(items, al.dom, cfg={"_translate_variant": variant}, fam="C10:" + fam, main=main, libs=libs))
    variants = ["identity", "rewrite"]
    vals = [S("a"), S("h")]
    # T1/T5: translate with / without explicit id over different contents
    contents = {
        "text": lambda al: [Text("Hello  \n   world")],
        "interp": lambda al: [Text("Hi ", al.call("content", vals), "  !")],
        "elem": lambda al: [Text(" a "), Open(name="b", sattr=[]), Text("bold"), CLOSE, Text(" z ")],
        "ws": lambda al: [Text("  \n  ")],
        "none": lambda al: [],
    }
    for cname, mk in contents.items():
        for tid in ("", "msg-id"):
            for v in variants:
                al = Alloc(tier)
                items = [Text("pre")] + [Open(name="p", tr=tid, sattr=["class"])] + mk(al) + [CLOSE, Text("post")]
                add(items, al, "T1:%s:%s:%s" % (cname, tid or "-", v), v)
    # T2: named children under condition / repeat / omit-tag
    kinds = ["plain", "cond", "repeat", "omit", "content"]
    combos = [(a,) for a in kinds] + [(a, b) for a in kinds for b in kinds] + [("plain", "cond", "repeat")]
    if quick:
        combos = combos[:5] + rnd.sample(combos[5:], 8)
    for combo in combos:
        for tid in ("", "mid"):
            al = Alloc(tier)
            items = [Text("pre"), Open(name="p", tr=tid, sattr=[]), Text("You have\n  ")]
            for n, k in enumerate(combo):
                nm = "n%d" % n
                kw = {}
                if k == "cond":
                    kw["cond"] = al.call("cond", [B(True), B(False)])
                elif k == "repeat":
                    kw["rep"] = (False, "x", al.call("repeat", [SEQ([S("a"), S("b")]), SEQ([])]))
                elif k == "omit":
                    kw["omit"] = True
                elif k == "content":
                    kw["sub"] = ("content", False, al.call("content", vals))
                items += [Open(name="b", nm=nm, sattr=["class"] if n == 0 else [], **kw), Text("N%d" % n), CLOSE, Text(" and\n ")]
            items += [Text("end."), CLOSE, Text("post")]
            add(items, al, "T2:%s:%s" % ("+".join(combo), tid or "-"), "rewrite" if len(progs) % 2 else "identity")
    # T2s: the named child sits inside a (non-named) element that may be skipped or repeated
    for wrapper in ("cond", "repeat"):
        for tid in ("", "mid"):
            al = Alloc(tier)
            kw = {"cond": al.call("cond", [B(True), B(False)])} if wrapper == "cond" else {"rep": (False, "x", al.call("repeat", [SEQ([S("a"), S("b")]), SEQ([])]))}
            items = [Text("pre"), Open(name="ul", rep=(False, "y", al.call("repeat", [SEQ([S("a"), S("b")])])), sattr=[]),
                     Open(name="p", tr=tid, sattr=[]), Text("Hello"), Open(name="em", sattr=[], **kw), Text(", "),
                     Open(name="b", nm="who", sattr=[]), Text("N", var("y")), CLOSE, CLOSE, Text("!"), CLOSE, CLOSE, Text("post")]
            add(items, al, "T2s:%s:%s" % (wrapper, tid or "-"), "rewrite")
    # T3: nested translations
    for inner_named in (False, True):
        for v in variants:
            al = Alloc(tier)
            items = [Text("pre"), Open(name="div", tr="", sattr=[]), Text("Outer "),
                     Open(name="span", tr="", nm="inner" if inner_named else "", sattr=[]), Text("Inner  text "),
                     Open(name="i", nm="deep", sattr=[]), Text("D"), CLOSE, CLOSE, Text(" tail"), CLOSE, Text("post")]
            add(items, al, "T3:%s:%s" % (inner_named, v), v)
    # T4: domain / context / target on ancestors
    sets = [{}, {"d": "d1"}, {"c": "c1"}, {"t": "fr"}, {"d": "d2", "c": "c2", "t": "de"}]
    pairs = [(a, b) for a in sets for b in sets]
    if quick:
        pairs = rnd.sample(pairs, 8)
    for a, b in pairs:
        al = Alloc(tier)
        items = [Open(name="div", i18n=a or None, sattr=[]), Open(name="p", tr="", sattr=[]), Text("one"), CLOSE,
                 Open(name="section", i18n=b or None, sattr=[]), Open(name="p", tr="two-id", sattr=[]), Text("two"), CLOSE, CLOSE,
                 Open(name="p", tr="", sattr=[]), Text("three"), CLOSE, CLOSE, Open(name="p", tr="", sattr=[]), Text("four"), CLOSE]
        add(items, al, "T4:%s/%s" % (sorted(a.items()), sorted(b.items())), "identity")
    # T4m: a macro body starts from its caller's settings; a filler keeps those of the place where it was written
    for a, b in ([({"d": "caller"}, {"d": "lib"}), ({"d": "caller", "c": "cc"}, {}), ({}, {"d": "lib", "t": "fr"})] if quick else pairs[:12]):
        al = Alloc(tier)
        main = [Open(name="div", i18n=a or None, sattr=[]), Open(um=("m1", 1, False), name="section", sattr=[]), Text("ign"),
                Open(fs="s", name="b", sattr=[]), Open(name="i", tr="", sattr=[]), Text("in filler"), CLOSE, CLOSE, CLOSE, CLOSE]
        lib = [Open(name="div", i18n=b or None, sattr=[]), Open(dm="m1", name="div", sattr=[]), Open(name="p", tr="", sattr=[]), Text("in macro"), CLOSE,
               Open(name="em", i18n={"d": "inner"}, sattr=[]), Open(ds="s", name="u", sattr=[]), Text("default"), CLOSE, CLOSE, CLOSE, CLOSE]
        add(main + lib, al, "T4m:%s/%s" % (sorted(a.items()), sorted(b.items())), "identity", main=len(main),
            libs=[{"from": len(main) + 1, "to": len(main) + len(lib)}])
    # T6: message objects inserted as content / replacement / attribute / interpolation are offered to the translation
    # function with the settings of the place where the insertion is written -- also inside macro bodies and fillers
    M = [OBJ("msg")]

    def sites(al, n=4):
        groups = [[Text("t", al.call("content", M), "u")],
                  [Open(name="i", sub=("content", False, al.call("content", M)), sattr=[]), Text("old"), CLOSE],
                  [Open(name="b", sub=("replace", False, al.call("replace", M)), sattr=[]), Text("old"), CLOSE],
                  [Open(name="u", dattr=[("title", al.call("attrs", M))], sattr=["class"]), Text("k"), CLOSE],
                  # i18n:attributes: a static and a computed attribute offered with the settings of the place
                  [Open(name="img", sattr=["class", "title"], ia=[("title", "")]), CLOSE],
                  [Open(name="img", sattr=["alt"], dattr=[("alt", al.call("attrs", [S("a")]))], ia=[("alt", "alt-id")]), CLOSE]]
        return sum(groups[:n] + (groups[4:] if n >= 4 else []), [])
    for a, b in [({"d": "outer"}, {"d": "inner"}), ({"d": "outer", "c": "oc", "t": "fr"}, {"c": "ic"}), ({}, {"d": "inner", "t": "de"})]:
        al = Alloc(tier)
        items = [Open(name="div", i18n=a or None, sattr=[])] + sites(al) + [Open(name="section", i18n=b or None, sattr=[])] + sites(al) + \
            [CLOSE] + sites(al, 1) + [CLOSE] + sites(al, 1)
        add(items, al, "T6:%s/%s" % (sorted(a.items()), sorted(b.items())), "identity")
    for a, b, f in [({"d": "caller"}, {"d": "lib"}, {"d": "fill", "c": "fc"}), ({"d": "caller", "c": "cc"}, {}, {}),
                    ({}, {"d": "lib", "t": "fr"}, {"t": "de"}), ({"d": "caller"}, {"d": "lib"}, {})]:
        al = Alloc(tier)
        main = [Open(name="div", i18n=a or None, sattr=[]), Open(um=("m1", 1, False), name="section", sattr=[]), Text("ign"),
                Open(fs="s", name="b", i18n=f or None, sattr=[])] + sites(al) + [CLOSE, CLOSE] + sites(al, 1) + [CLOSE]
        lib = [Open(name="div", i18n=b or None, sattr=[]), Open(dm="m1", name="div", sattr=[])] + sites(al, 2) + \
            [Open(name="em", i18n={"d": "slotdom", "t": "it"}, sattr=[]), Open(ds="s", name="u", sattr=[]), Text("default"), CLOSE, CLOSE] + sites(al, 1) + [CLOSE, CLOSE]
        add(main + lib, al, "T6m:%s/%s/%s" % (sorted(a.items()), sorted(b.items()), sorted(f.items())), "identity", main=len(main),
            libs=[{"from": len(main) + 1, "to": len(main) + len(lib)}])
    # T7: translations across the macro / filler boundary: a slot inside a translated element (or inside a named child)
    # of the macro -- the filler's output is part of that message; a named child written inside a filler whose
    # translation was opened in the caller around the use-macro
    for variant in ("slot-in-translate", "slot-in-name", "name-in-filler"):
        for v in variants:
            al = Alloc(tier)
            if variant == "name-in-filler":
                main = [Open(name="div", tr="", sattr=[]), Text("Dear "), Open(um=("m1", 1, False), name="section", sattr=[]), Text("ign"),
                        Open(fs="s", name="b", sattr=[]), Text("F "), Open(name="i", nm="who", sattr=[]), Text("N", al.call("content", vals)), CLOSE,
                        CLOSE, CLOSE, Text(" bye"), CLOSE]
                lib = [Open(dm="m1", name="em", sattr=[]), Text("M["), Open(ds="s", name="u", sattr=[]), Text("default"), CLOSE, Text("]"), CLOSE]
            else:
                main = [Text("pre"), Open(um=("m1", 1, False), name="section", sattr=[]), Text("ign"),
                        Open(fs="s", name="b", sattr=[]), Text("F", al.call("content", vals)), CLOSE, CLOSE, Text("post")]
                if variant == "slot-in-translate":
                    lib = [Open(dm="m1", name="div", sattr=[]), Open(name="p", tr="", sattr=[]), Text("Hi "),
                           Open(ds="s", name="u", sattr=[]), Text("default"), CLOSE, Text(" !"), CLOSE, CLOSE]
                else:
                    lib = [Open(dm="m1", name="div", sattr=[]), Open(name="p", tr="", sattr=[]), Text("Hi "),
                           Open(name="span", nm="n", sattr=[]), Open(ds="s", name="u", sattr=[]), Text("default"), CLOSE, CLOSE,
                           Text(" !"), CLOSE, CLOSE]
            add(main + lib, al, "T7:%s:%s" % (variant, v), v, main=len(main), libs=[{"from": len(main) + 1, "to": len(main) + len(lib)}])
    # T9: the target language is an expression evaluated inside the element's own definitions: tal:repeat / tal:define
    # and i18n:target on one element, the target read from the variable the same element binds
    for how in ("repeat", "define", "repeat-outer"):
        for bound in (False, True):
            al = Alloc(tier)
            kw = {}
            if how == "define":
                kw["define"] = [(False, "x", al.call("define", [S("a"), S("b")]))]
            else:
                kw["rep"] = (False, "x", al.call("repeat", [SEQ([S("a"), S("b")]), SEQ([S("c")])]))
            inner = [Open(name="i", tr="", sattr=[]), Text("item"), CLOSE, Text("m", al.call("content", M))]
            if how == "repeat-outer":
                items = [Open(name="ul", sattr=[], **kw), Open(name="li", i18n={"tv": "x"}, sattr=[])] + inner + [CLOSE, CLOSE]
            else:
                items = [Open(name="li", i18n={"tv": "x"}, sattr=[], **kw)] + inner + [CLOSE]
            items += [Open(name="b", tr="", sattr=[]), Text("after"), CLOSE]
            progs.append(program(items, al.dom, cfg={"_translate_variant": "identity"}, init=({"x": S("p")} if bound else {}),
                                 fam="C10:T9:%s:%s" % (how, bound)))
    # T10: i18n:attributes -- static and computed attributes, with and without explicit ids, several clauses, values
    # that drop the attribute / fall back to the static text / are empty / need escaping; under settings of ancestors
    avals = [S("a"), S("h"), S(""), NONE, DEFAULT, I(7)] if not quick else [S("a"), S("h"), S(""), NONE, DEFAULT]
    for ids in (("", ""), ("t-id", ""), ("", "a-id"), ("t-id", "a-id")):
        for v in variants:
            for st in (["title", "alt", "class"], [("title", {"v": "R&amp;D $$5 it's", "q": '"'}), ("alt", {"q": "'", "v": ""}), "class"],
                       [("title", {"q": "", "v": "plain"}), "class"]):
                al = Alloc(tier)
                names = [s0 if isinstance(s0, str) else s0[0] for s0 in st]
                items = [Open(name="div", i18n={"d": "dom", "t": "fr"}, sattr=[]),
                         Open(name="img", sattr=st, ia=[("title", ids[0])] + ([("alt", ids[1])] if "alt" in names else [])), CLOSE,
                         Open(name="img", sattr=st, dattr=[("title", al.call("attrs", avals))], ia=[("title", ids[0])]), CLOSE,
                         Open(name="img", sattr=["class"], dattr=[("alt", al.call("attrs", avals)), ("id", al.call("attrs", [S("b")]))],
                              ia=[("alt", ids[1])], i18n={"c": "ctx"}), CLOSE,
                         CLOSE, Open(name="img", sattr=["title"], ia=[("title", ids[0])]), CLOSE]
                add(items, al, "T10:%s:%s:%s" % ("/".join(ids), v, ",".join(names)), v)
    # T11: tal:content on an element marked i18n:translate="": the value is offered as the message id; with `default` the
    # element's own content is the message (named children and all)
    cvals = [S("a"), S("h"), S(""), NONE, DEFAULT, I(7), OBJ("msg")] if not quick else [S("h"), NONE, DEFAULT, OBJ("msg")]
    # (text mode only: with the `structure:` spelling the value is converted before it is offered and what the function
    # returns is escaped again -- not modelled)
    for structure in (False,):
        for v in variants:
            al = Alloc(tier)
            items = [Text("pre"), Open(name="div", i18n={"d": "dom"}, sattr=[]),
                     Open(name="p", tr="", sub=("content", structure, al.call("content", cvals)), sattr=["class"]),
                     Text("Hello  \n "), Open(name="b", nm="who", sattr=[]), Text("N", al.call("content", vals)), CLOSE, Text(" !"), CLOSE,
                     Open(name="i", tr="", sub=("content", structure, al.call("content", cvals)), sattr=[]), CLOSE,
                     CLOSE, Text("post")]
            add(items, al, "T11:%s:%s" % (structure, v), v)
    # T12: tal:replace and tal:on-error on an element marked i18n:translate (with and without explicit id): the inserted value
    # is the message id, or the default of the explicit id; `default` renders (and translates) the element itself; the
    # fallback's start tag carries the translated static attributes
    rvals = [S("a"), S("h"), NONE, DEFAULT, I(7)] if not quick else [S("h"), NONE, DEFAULT, I(7)]
    for tid in ("", "msg-id"):
        for v in variants:
            al = Alloc(tier)
            items = [Text("pre"), Open(name="div", i18n={"d": "dom", "c": "ctx"}, sattr=[]),
                     Open(name="p", tr=tid, sub=("replace", False, al.call("replace", rvals + ([OBJ("msg")] if not tid else []))), sattr=["class"]),
                     Text("Hello  \n "), Open(name="b", nm="who", sattr=[]), Text("N"), CLOSE, Text(" !"), CLOSE,
                     Open(name="section", oe=(False, al.call("onerror", [S("a"), S("h"), NONE] + ([OBJ("msg")] if not tid else []))), tr=tid,
                          sattr=["class", "title"], ia=[("title", "")], i18n={"t": "fr"}),
                     Text("Body ", al.call("content", [S("a"), EXC("ZeroDivisionError")])), CLOSE,
                     CLOSE, Text("post")]
            add(items, al, "T12:%s:%s" % (tid or "-", v), v)
    # T8: the translation settings of a subtree that failed under tal:on-error end with it
    for sets in ({"d": "inner"}, {"c": "ic", "t": "fr"}, {"d": "inner", "c": "ic", "t": "de"}):
        for outer in ({}, {"d": "outer"}):
            al = Alloc(tier)
            items = [Open(name="div", i18n=outer or None, sattr=[]),
                     Open(name="p", oe=(False, const(S("a"))), sattr=[]),
                     Open(name="span", i18n=sets, sattr=[]), Open(name="i", tr="", sattr=[]), Text("inside"), CLOSE,
                     Text("t", al.call("content", [S("a"), EXC("ZeroDivisionError")])), CLOSE, CLOSE,
                     Open(name="b", tr="", sattr=[]), Text("after"), CLOSE, Text("m", al.call("content", M))] + sites(al) + [CLOSE]
            add(items, al, "T8:%s/%s" % (sorted(sets.items()), sorted(outer.items())), "identity")
    return progs
