"""Verification harness for malthe/chameleon (see /verif/DESIGN.md)."""
import os

# where the chameleon under test is imported from (the registered checks use /repo's working tree)
REPO_SRC = os.environ.get("VERIF_REPO_SRC", "/repo/src")
REPO_ROOT = os.path.dirname(REPO_SRC)
