"""Sharded  TLC -> replay  pipeline for families of the ZPT machine.

A family is a list of abstract programs.  The family is split into shards;
each shard (one OS process) writes its own MC module with its programs as a
literal constant, runs TLC (one worker, invariants + terminal-state dump),
concretises every program in `perms` attribute permutations, replays every
dumped behaviour on the real chameleon and returns counts plus the first few
mismatches.  16 shards keep the 16 cores busy.
"""
from __future__ import annotations

import json
import concurrent.futures
import multiprocessing
import os
import shutil
import tempfile
import time
import traceback

from . import prog as P
from .tla import lit, run_tlc, VERIF

BUILD = os.path.join(VERIF, "build")

MC_TEMPLATE = """---- MODULE %(mod)s ----
EXTENDS %(base)s, Json
MCProgs == %(progs)s
MCNames == %(names)s
MCDev == %(dev)s
%(traces)s
Emit == Done => PrintT(ToJson([pid |-> pid.id, log |-> log, out |-> out, res |-> res, exc |-> exc%(extra)s]))
%(defs)s
====
"""

CFG_TEMPLATE = """SPECIFICATION %(spec)s
CONSTANTS
 Progs <- MCProgs
 Names <- MCNames
 Dev <- MCDev
%(invs)s
%(props)s
"""


# option sets that leave the rendering of a valid program as it is (they concern data- spelled statements, the moment an
# invalid expression is reported, byte-string values, what is kept for debugging, names nobody uses, comments): every
# program is replayed once more under one of them
NEUTRAL_OPTIONS = [
    {"enable_data_attributes": True},
    {"strict": False},
    {"encoding": "utf-8", "keep_source": True, "keep_body": True},
    {"extra_builtins": {"zz_unused": 1, "zz_more": str}, "enable_comment_interpolation": False},
    {"enable_data_attributes": True, "strict": False, "encoding": "latin-1", "extra_builtins": {"zz_unused": 1}},
]


def workdir(tag):
    os.makedirs(BUILD, exist_ok=True)
    return tempfile.mkdtemp(prefix=tag + "_", dir=BUILD)


def write_mc(wd, mod, progs, names, dev, invariants, properties, base="ZPT", emit=True, extra="", defs="", spec="Spec",
             traces=None):
    tprogs = [P.to_tla(p, names) for p in progs]
    with open(os.path.join(wd, mod + ".tla"), "w") as f:
        f.write(MC_TEMPLATE % dict(mod=mod, base=base, progs=lit(tprogs), names=lit(set(names)),
                                   dev=lit(set(dev)), extra=extra, defs=defs,
                                   traces=("MCTraces == " + lit(traces)) if traces is not None else ""))
    invs = list(invariants) + (["Emit"] if emit else [])
    with open(os.path.join(wd, mod + ".cfg"), "w") as f:
        f.write(CFG_TEMPLATE % dict(spec=spec, invs="\n".join("INVARIANT " + i for i in invs),
                                    props="\n".join("PROPERTY " + p for p in properties))
                + (" \nCONSTANT Traces <- MCTraces\n" if traces is not None else ""))


def _shard(job):
    (wd, sid, progs, names, dev, invariants, properties, perms, options, timeout, max_report,
     replay, base, extra_env, simulate, collect) = job
    from .replay import Replayer
    out = dict(sid=sid, states=0, distinct=0, behaviours=0, replays=0, programs=len(progs), mismatches=[],
               tlc_violation=None, tlc_error=None, samples=[], compiled=0, wall_tlc=0.0, wall_replay=0.0,
               nontrivial=0)
    try:
        mod = "MC_%d" % sid
        write_mc(wd, mod, progs, names, dev, invariants, properties, base=base)
        r = run_tlc(mod, mod + ".cfg", wd, workers=1, timeout=timeout, env_extra=extra_env,
                    simulate=("num=%d" % simulate[0]) if simulate else None,
                    depth=simulate[1] if simulate else None,
                    seed=(simulate[2] + sid) if simulate else None)
        if simulate:
            seen = set()
            uniq = []
            for rec in r.records:
                key = json.dumps([rec["pid"], rec["log"]], sort_keys=True)
                if key not in seen:
                    seen.add(key)
                    uniq.append(rec)
            r.records = uniq
        out["states"], out["distinct"], out["wall_tlc"] = r.states, r.distinct, r.wall
        if r.timed_out:
            out["tlc_error"] = "TLC timed out after %ss" % timeout
            return out
        if r.violation:
            out["tlc_violation"] = r.violation
            out["tlc_tail"] = r.stdout[-6000:]
            return out
        if r.error:
            out["tlc_error"] = r.error + "\n" + r.stdout[-3000:]
            return out
        by = {}
        for rec in r.records:
            by.setdefault(rec["pid"], []).append(rec)
        out["behaviours"] = len(r.records)
        out["nontrivial"] = sum(1 for rec in r.records if len(rec["log"]) > 0)
        if collect:
            out["records"] = by
        if not replay:
            out["samples"] = r.records[:1]
            return out
        t0 = time.time()
        for pid, recs in sorted(by.items()):
            p = progs[pid - 1]
            for perm in perms:
                rp = Replayer(p, names, perm, options=p.get("cfg") or options)
                out["compiled"] += 1
                for rec in recs:
                    ok, why = rp.run(rec)
                    out["replays"] += 1
                    if not ok and why.startswith("KNOWN["):
                        tag = why[6:why.index("]")]
                        out.setdefault("known", {}).setdefault(tag, dict(n=0, source=rp.c.source, why=why))["n"] += 1
                    elif not ok and len(out["mismatches"]) < max_report:
                        out["mismatches"].append(dict(fam=p.get("fam"), source=rp.c.source, perm=perm, why=why,
                                                      log=rec["log"], res=rec["res"], exc=rec.get("exc"),
                                                      prog=p))
                    elif not ok:
                        out["mismatches"].append(None)
            # once more under an option set that must not matter
            base_opts = dict(p.get("cfg") or options or {})
            neutral = dict(NEUTRAL_OPTIONS[(pid + sid) % len(NEUTRAL_OPTIONS)])
            neutral.update(base_opts)
            rp = Replayer(p, names, perms[0], options=neutral)
            out["compiled"] += 1
            for rec in recs:
                ok, why = rp.run(rec)
                out["replays"] += 1
                if not ok and why.startswith("KNOWN["):
                    tag = why[6:why.index("]")]
                    out.setdefault("known", {}).setdefault(tag, dict(n=0, source=rp.c.source, why=why))["n"] += 1
                elif not ok and len(out["mismatches"]) < max_report:
                    out["mismatches"].append(dict(fam=p.get("fam"), source=rp.c.source, perm=perms[0],
                                                  why="(options %s) %s" % (sorted(k for k in neutral if k not in base_opts), why),
                                                  log=rec["log"], res=rec["res"], exc=rec.get("exc"), prog=p))
                elif not ok:
                    out["mismatches"].append(None)
                if not out["samples"] and recs:
                    out["samples"].append(dict(source=rp.c.source, script=[(e.get("k"), e.get("r")) for e in recs[-1]["log"] if e["ev"] == "call"],
                                               result=recs[-1]["res"]))
        out["wall_replay"] = time.time() - t0
    except Exception:
        out["tlc_error"] = "machinery failure in shard: " + traceback.format_exc()
    return out


def run_family(tag, progs, names, dev=(), invariants=(), properties=(), perms=(0,), options=None,
               nshards=16, timeout=900, max_report=3, replay=True, base="ZPT", extra_env=None, simulate=None, collect=False):
    """returns aggregated dict; never raises for a property violation"""
    wd = workdir(tag)
    try:
        nshards = max(1, min(nshards, len(progs)))
        shards = [[] for _ in range(nshards)]
        for n, p in enumerate(progs):
            shards[n % nshards].append(p)
        jobs = [(wd, sid, sh, names, dev, invariants, properties, perms, options, timeout, max_report,
                 replay, base, extra_env, simulate, collect)
                for sid, sh in enumerate(shards)]
        ctx = multiprocessing.get_context("fork")
        # an executor, not multiprocessing.Pool: when a worker dies (killed by the kernel, say) Pool.map waits for
        # ever; the executor raises BrokenProcessPool and the family is reported as a machinery failure
        res = []
        with concurrent.futures.ProcessPoolExecutor(min(16, nshards), mp_context=ctx) as pool:
            futs = [pool.submit(_shard, j) for j in jobs]
            for sid, fu in enumerate(futs):
                try:
                    res.append(fu.result())
                except Exception as e:   # noqa
                    res.append(dict(sid=sid, states=0, distinct=0, behaviours=0, replays=0, programs=len(shards[sid]),
                                    mismatches=[], tlc_violation=None, samples=[], compiled=0, wall_tlc=0.0,
                                    wall_replay=0.0, nontrivial=0,
                                    tlc_error="machinery failure: shard %d worker died (%s: %s)" % (sid, type(e).__name__, e)))
    finally:
        shutil.rmtree(wd, ignore_errors=True)
    agg = dict(tag=tag, programs=len(progs), states=0, distinct=0, behaviours=0, replays=0, compiled=0,
               mismatches=[], n_mismatch=0, tlc_violation=None, tlc_error=None, samples=[], nontrivial=0,
               wall_tlc=0.0, wall_replay=0.0)
    for r in res:
        for k in ("states", "distinct", "behaviours", "replays", "compiled", "nontrivial"):
            agg[k] += r[k]
        agg["wall_tlc"] = max(agg["wall_tlc"], r["wall_tlc"])
        agg["wall_replay"] = max(agg["wall_replay"], r["wall_replay"])
        agg["n_mismatch"] += len(r["mismatches"])
        agg["mismatches"] += [m for m in r["mismatches"] if m]
        if r["tlc_violation"] and not agg["tlc_violation"]:
            agg["tlc_violation"] = r["tlc_violation"]
            agg["tlc_tail"] = r.get("tlc_tail")
        if r["tlc_error"] and not agg["tlc_error"]:
            agg["tlc_error"] = r["tlc_error"]
        if r["samples"] and len(agg["samples"]) < 3:
            agg["samples"] += r["samples"][:1]
        for tag, info in r.get("known", {}).items():
            k = agg.setdefault("known", {}).setdefault(tag, dict(n=0, source=info["source"], why=info["why"]))
            k["n"] += info["n"]
    if collect:
        # records keyed by the index of the program in `progs`
        recs = {}
        for r in res:
            for pid, lst in r.get("records", {}).items():
                recs[r["sid"] + (pid - 1) * nshards] = lst
        agg["records"] = recs
    return agg
