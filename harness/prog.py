"""Abstract programs (the `Progs` constant of specs/ZPT.tla) as Python data.

The constructors fill every field so that the TLA+ side can access any field
of an item without testing for its presence.
"""
from __future__ import annotations

import copy

# ---------------------------------------------------------------- values
UNDEF = {"t": "undef"}
NONE = {"t": "none"}
DEFAULT = {"t": "default"}


def B(b):
    return {"t": "bool", "b": bool(b)}


def I(n):
    return {"t": "int", "n": n}


def S(s):
    """s is a *tag* for a string class: "" (empty), "a" (harmless),
    "h" (hostile: every markup character and both quotes), "b", ..."""
    return {"t": "str", "s": s}


def BY(s):
    return {"t": "bytes", "s": s}


def SEQ(vs, once=False):
    return {"t": "seq", "vs": list(vs), "once": once}


def DICT(kvs):
    return {"t": "dict", "kvs": [{"k": k, "lk": k.lower(), "v": v} for k, v in kvs]}


def OBJ(kind):
    return {"t": "obj", "kind": kind}


def EXC(c):
    return {"t": "exc", "c": c}


# ---------------------------------------------------------------- expressions
NOE = {"x": "none"}


def call(k):
    return {"x": "call", "k": k}


def var(n):
    return {"x": "var", "n": n}


def const(v):
    return {"x": "const", "v": v}


def pipe(*es):
    return {"x": "pipe", "es": list(es)}


def not_(e):
    return {"x": "not", "e": e}


def exists(e):
    return {"x": "exists", "e": e}


def imp(ok=True):
    """import: expression -- a dotted name that can be imported (the value is string.digits) or cannot"""
    return {"x": "imp", "ok": ok, "v": S("dg")}


def strx(*ps):
    return {"x": "str", "ps": list(ps)}


def litp():
    return {"x": "lit"}


def snap(k):
    return {"x": "snap", "k": k}


def bad(k):
    return {"x": "bad", "k": k}


def asg(n, e):
    """(n := e): an assignment expression (modelled where it is a whole ${...} interpolation in text)"""
    return {"x": "asg", "n": n, "e": e}


def attrslen():
    """len(attrs): the number of static attributes of the innermost element"""
    return {"x": "attrslen"}


def attrsx(n):
    """attrs['n']: static attribute of the innermost element"""
    return {"x": "attrs", "n": n}


def Code(n, e):
    """<?python n = e ?>"""
    return {"k": "code", "n": n, "e": e}


def repv(n, f):
    return {"x": "rep", "n": n, "f": f}


# ---------------------------------------------------------------- items
def _plain(v):
    """value of a static attribute as `attrs` reports it; only plain values are used through `attrs`"""
    return v if all(ch.isalnum() or ch == " " for ch in v) else "lexical"


def Open(tag="el", define=(), sw=NOE, cs=NOE, cond=NOE, rep=None, sub=None, omit=None,
         sattr=(), dattr=(), oe=None, name=None, bools=(), dm="", um=None, ds="", fs="", i18n=None, tr=None, nm="", ia=()):
    """define: list of (global?, name, expr); rep: (global?, name, expr);
    sub: (mode, structure?, expr); omit: True | expr; sattr: list of names;
    dattr: list of (name, expr); oe: (structure?, expr)"""
    it = {
        "k": "open", "tag": tag,
        # a definition binds one name, or several ("(a, b) expr": the value is unpacked)
        "def": [{"g": bool(g), "n": n if isinstance(n, str) else n[0], "ns": [n] if isinstance(n, str) else list(n), "e": e} for g, n, e in define],
        "sw": sw, "cs": cs, "cond": cond,
        "rep": {"m": "yes", "g": bool(rep[0]), "n": rep[1] if isinstance(rep[1], str) else rep[1][0],
                "ns": [rep[1]] if isinstance(rep[1], str) else list(rep[1]), "e": rep[2]} if rep
        else {"m": "no", "g": False, "n": "", "ns": [], "e": NOE},
        "sub": {"m": sub[0], "s": bool(sub[1]), "e": sub[2]} if sub else {"m": "none", "s": False, "e": NOE},
        "omit": ({"m": "yes", "e": NOE} if omit is True else {"m": "expr", "e": omit}) if omit is not None else {"m": "no", "e": NOE},
        "sattr": [({"n": n, "key": n.lower(), "val": S("v%d" % j)} if isinstance(n, str) else
                   {"n": n[0], "key": n[0].lower(), "lex": n[1], "val": S(_plain(n[1].get("v", "v%d" % j)))})
                  for j, n in enumerate(sattr, 1)],
        "dattr": [{"n": n, "key": n.lower(), "e": e, "d": n == "", "b": n.lower() in bools} for n, e in dattr],
        "oe": {"m": "yes", "s": bool(oe[0]), "e": oe[1]} if oe else {"m": "no", "s": False, "e": NOE},
    }
    # METAL: dm define-macro name; um = (macro name or None for a whole template, library index, extend?);
    # ds define-slot name; fs fill-slot name
    it["dm"] = dm
    it["ds"] = ds
    it["fs"] = fs
    if um:
        # um[0]: macro name, None (whole template) or ("var", name): the macro named by the value of that variable
        mvar = um[0][1] if isinstance(um[0], tuple) else ""
        it["um"] = {"m": "yes", "mname": "" if mvar else (um[0] or ""), "mvar": mvar, "whole": um[0] is None, "lib": um[1],
                    "ext": bool(um[2]) if len(um) > 2 else False, "fills": []}
    else:
        it["um"] = {"m": "no", "mname": "", "mvar": "", "whole": False, "lib": 0, "ext": False, "fills": []}
    it["mslots"] = []
    # I18N: domain / context / target settings of the element
    it["i18n"] = dict({"m": "no", "d": "", "c": "", "t": "", "tv": ""}, **(i18n or {}))   # tv: the target is read from this variable
    if i18n:
        it["i18n"]["m"] = "yes"
    # i18n:translate (tr: None | "" | explicit id), i18n:name (nm), i18n:attributes (ia: [(name, id or "")])
    it["tr"] = {"m": "yes", "id": tr} if tr is not None else {"m": "no", "id": ""}
    it["nm"] = nm
    it["ia"] = [{"n": n, "key": n.lower(), "id": i} for n, i in ia]
    if name:
        it["name"] = name
    return it


CLOSE = {"k": "close"}


def Text(*parts):
    """parts: "lit" placeholders (any str) or expressions"""
    ps = []
    for p in parts:
        if isinstance(p, str):
            ps.append({"x": "lit", "s": p})
        else:
            ps.append(p)
    return {"k": "text", "parts": ps}


def program(items, dom, init=None, names=(), cfg=None, fam="", bools=(), main=None, libs=()):
    """main: number of items of the entry template; libs: [{"from": i, "to": j}] ranges of library templates"""
    d = {"items": list(items), "dom": dom, "init": init or {}, "cfg": cfg or {}, "fam": fam, "bools": list(bools)}
    if main is not None:
        d["main"] = main
        d["libs"] = list(libs)
    return d


# ---------------------------------------------------------------- emission
def _strip_for_tla(o):
    """Drop harness-only fields (literal text, concrete names) and normalise."""
    if isinstance(o, dict):
        if o.get("x") == "lit":
            return {"x": "lit"}
        return {k: _strip_for_tla(v) for k, v in o.items() if k not in ("name", "cfg", "fam", "bools", "lex", "xattrs", "selfclose", "main", "libs", "implicit")}
    if isinstance(o, (list, tuple)):
        return [_strip_for_tla(x) for x in o]
    return o


def metal_static(p):
    """static METAL structure: fillers of every use-macro element, slot names
    that each macro function (define-macro element or whole template) defines"""
    items = p["items"]
    libs = p.get("libs", [])
    main = p.get("main", len(items))
    stack = []          # (index, item)
    slots = set()
    tslots = {}
    for it in items:
        if it["k"] == "open":
            it["um"]["fills"] = []
            it["mslots"] = []

    def template_of(i):
        if i <= main:
            return 0
        for n, lb in enumerate(libs, 1):
            if lb["from"] <= i <= lb["to"]:
                return n
        return 0
    for idx, it in enumerate(items, 1):
        if it["k"] == "open":
            if it["fs"]:
                slots.add(it["fs"])
                for j, anc in reversed(stack):
                    if anc["um"]["m"] == "yes":
                        anc["um"]["fills"].append({"s": it["fs"], "i": idx})
                        break
            if it["ds"]:
                slots.add(it["ds"])
                owner = None
                # the define-slot wrapper of an element is outside its own define-macro
                for j, anc in reversed(stack):
                    if anc["dm"]:
                        owner = anc
                        break
                if owner is not None:
                    if it["ds"] not in owner["mslots"]:
                        owner["mslots"].append(it["ds"])
                else:
                    tslots.setdefault(template_of(idx), set()).add(it["ds"])
            stack.append((idx, it))
        elif it["k"] == "close":
            stack.pop()
    # names of the i18n:name blocks written inside each translated element (nearest enclosing translation)
    tstack = []
    for it in items:
        if it["k"] == "open":
            it["tnames"] = []
            if it.get("nm"):
                for anc in reversed(tstack):
                    if anc is not None:
                        if it["nm"] not in anc["tnames"]:
                            anc["tnames"].append(it["nm"])
                        break
            tstack.append(it if (it.get("tr", {}).get("m") == "yes" and it["sub"]["m"] == "none") else None)
        elif it["k"] == "close":
            tstack.pop()
    return slots, tslots


def to_tla(p, names):
    """Program record for the Progs constant."""
    from .tla import TLASet
    slots, tslots = metal_static(p)
    q = _strip_for_tla(p)
    nk = max([0] + list(p["dom"].keys()))
    dom = [TLASet(_freeze(v) for v in p["dom"].get(k, [])) for k in range(1, nk + 1)]
    init = {n: p["init"].get(n, UNDEF) for n in names}
    from .tla import TLASet as _S
    for it in q["items"]:
        if it["k"] == "open":
            it["mslots"] = _S(it["mslots"])
    libs = p.get("libs", [])
    return {"items": q["items"], "dom": dom, "init": init, "bools": _S(p.get("bools", ())),
            "main": p.get("main", len(p["items"])), "slots": _S(slots), "libs": libs,
            "tslots": [_S(tslots.get(n, ())) for n in range(1, len(libs) + 1)]}


class _Frozen(dict):
    def __hash__(self):
        return hash(repr(self))


def _freeze(v):
    if isinstance(v, dict):
        return _Frozen({k: _freeze(x) for k, x in v.items()})
    if isinstance(v, list):
        return tuple(_freeze(x) for x in v)
    return v


def errf(f):
    return {"x": "err", "f": f}


DFLT = {"x": "dflt"}


def wrap(w, e):
    return {"x": "wrap", "w": w, "e": e}


def attr(e, a):
    return {"x": "attr", "e": e, "a": a}


def RANGE(n):
    return {"t": "range", "n": n}
