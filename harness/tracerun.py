"""C->S for the render machine: executions of the real code with RANDOM outcomes of the scripted calls are
recorded as traces and validated by TLC against specs/ZPTTrace.tla (the machine restricted to the recorded
call events).  Used for programs that are too large for exhaustive outcome enumeration."""
from __future__ import annotations

import json
import multiprocessing
import os
import random
import shutil
import time
import traceback

from . import concretize as C
from . import prog as P
from .pipeline import workdir, write_mc
from .tla import run_tlc


def _record(p, names, seed, options=None):
    """one real execution with random outcomes: returns the trace [(k, outcome)]"""
    from .replay import Replayer
    rnd = random.Random(seed)
    rp = Replayer(p, names, 0, options=options)
    if rp.t is None:
        return None, "template does not compile: %s" % rp.compile_error
    trace = []
    vf = rp.vf

    def e(k, *a):
        o = rnd.choice(p["dom"][k])
        trace.append({"k": k, "r": o})
        if o["t"] == "exc":
            raise C.make_exc(o["c"])
        return vf.make(o)
    kw = {"e": e, "snap": lambda k, ec: None, "T0": rp.t}
    for n, lt in enumerate(rp.libs, 1):
        kw["T%d" % n] = lt
    for n, v in p.get("init", {}).items():
        if v["t"] != "undef":
            kw[n] = vf.make(v)
    try:
        rp.t.render(**kw)
    except BaseException:
        pass
    return trace, None


def _shard(job):
    wd, sid, progs, names, dev, invariants, seed, timeout, runs = job
    from .replay import Replayer
    out = dict(sid=sid, states=0, distinct=0, traces=0, accepted=0, mismatches=[], tlc_error=None, tlc_violation=None,
               events=0, sample=None)
    try:
        copies, traces = [], []
        for n, p in enumerate(progs):
            for r in range(runs):
                tr, err = _record(p, names, seed * 1000003 + sid * 7919 + n * 31 + r)
                if tr is None:
                    out["mismatches"].append(dict(why=err, source=C.concretize(p, 0).source, fam=p.get("fam")))
                    continue
                copies.append(p)
                traces.append(tr)
        if not copies:
            return out
        # negative control (shard 0): a trace with two call events swapped must be rejected
        control = None
        if sid == 0:
            for n, tr in enumerate(traces):
                idx = next((i for i in range(len(tr) - 1) if tr[i]["k"] != tr[i + 1]["k"]), None)
                if idx is not None:
                    bad = list(tr)
                    bad[idx], bad[idx + 1] = bad[idx + 1], bad[idx]
                    copies.append(copies[n])
                    traces.append(bad)
                    control = len(copies)
                    break
        mod = "MCT_%d" % sid
        write_mc(wd, mod, copies, names, dev, invariants + ["Consumed"], [], base="ZPTTrace", spec="TSpec", traces=traces)
        r = run_tlc(mod, mod + ".cfg", wd, workers=1, timeout=timeout)
        out["states"], out["distinct"] = r.states, r.distinct
        if r.violation:
            out["tlc_violation"] = r.violation
            out["tlc_tail"] = r.stdout[-3000:]
            return out
        if not r.ok():
            out["tlc_error"] = (r.error or "") + r.stdout[-2000:]
            return out
        by = {rec["pid"]: rec for rec in r.records}
        out["traces"] = len(copies) - (1 if control else 0)
        out["events"] = sum(len(t) for t in traces)
        if control is not None:
            out["control"] = "corrupted trace rejected" if control not in by else "CORRUPTED TRACE ACCEPTED"
        for n, (p, tr) in enumerate(zip(copies, traces), 1):
            if n == control:
                continue
            rec = by.get(n)
            src = C.concretize(p, 0).source
            if rec is None:
                if len(out["mismatches"]) < 3:
                    out["mismatches"].append(dict(why="trace rejected: the machine has no behaviour whose call events are %s" % (
                        [(e["k"], e["r"].get("t"), e["r"].get("c") or e["r"].get("s")) for e in tr]), source=src, fam=p.get("fam"), prog=p))
                continue
            rp = Replayer(p, names, 0)
            ok, why = rp.run(rec)
            if ok:
                out["accepted"] += 1
            elif len(out["mismatches"]) < 3:
                out["mismatches"].append(dict(why=why, source=src, fam=p.get("fam"), prog=p, log=rec["log"], res=rec["res"], exc=rec.get("exc")))
            if out["sample"] is None:
                out["sample"] = dict(source=src, trace=[(e["k"], e["r"].get("t")) for e in tr][:20], result=rec["res"])
    except Exception:
        out["tlc_error"] = "machinery failure in trace shard: " + traceback.format_exc()
    return out


def run_traces(ctx, tag, progs, names, dev=(), invariants=(), runs=2, nshards=16, timeout=1800):
    wd = workdir(tag)
    try:
        nshards = max(1, min(nshards, len(progs)))
        shards = [progs[i::nshards] for i in range(nshards)]
        jobs = [(wd, sid, sh, names, list(dev), list(invariants), ctx.seed, timeout, runs) for sid, sh in enumerate(shards)]
        with multiprocessing.get_context("fork").Pool(min(16, nshards)) as pool:
            res = pool.map(_shard, jobs)
    finally:
        shutil.rmtree(wd, ignore_errors=True)
    tot = acc = ev = 0
    for r in res:
        ctx.states += r["distinct"]
        ctx.transitions += r["states"]
        tot += r["traces"]
        acc += r["accepted"]
        ev += r["events"]
        if r["tlc_error"]:
            ctx.fail("trace validation (%s): %s" % (tag, r["tlc_error"][-1500:]))
        if r["tlc_violation"]:
            ctx.violation("TLC: invariant %s violated while validating implementation traces (%s)" % (r["tlc_violation"], tag),
                          dict(kind="tlc", tail=r.get("tlc_tail")))
        for m in r["mismatches"]:
            ctx.violation("trace validation %s: %s\n  template: %r" % (tag, m["why"], m.get("source")), dict(kind="trace", **m))
        if r["sample"] and len(ctx.samples) < 6:
            ctx.sample({"validated_trace": r["sample"]})
        if r.get("control"):
            ctx.notes[tag + "_negative_control"] = r["control"]
            if "ACCEPTED" in r["control"]:
                ctx.fail("negative control: a corrupted implementation trace was accepted by ZPTTrace")
    ctx.traces += tot
    ctx.nontrivial += tot
    ctx.parts.append(dict(tag=tag, traces=tot, accepted=acc, events=ev, programs=len(progs)))
    return tot, acc
