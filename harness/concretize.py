"""Abstract program -> concrete template source, abstract values -> Python
objects, abstract output atoms -> expected text (the independent printer).

Nothing in here imports chameleon.
"""
from __future__ import annotations

import itertools
import random
import re

HOSTILE = "<b>&\"'"
STR_TAGS = {"": "", "a": "a", "p": "p", "b": "b", "c": "c", "h": HOSTILE, "h2": "]]>&amp;<!--", "sp": " ", "u": "é", "u0": "u",
            "q": "it's", "pp": "a|b", "qq": "'", "dg": "0123456789"}
TAGNAMES = ["div", "span", "p", "ul", "li", "em", "b", "i", "td", "tr"]


# ------------------------------------------------------------------ values
class Plain:
    def __init__(self, s="obj<&>"):
        self.s = s

    def __str__(self):
        return self.s


class Msg:
    """a message object: offered to the translation function before it is converted to text"""

    def __str__(self):
        return "msg<m>"


class Html:
    def __init__(self, s="<i>raw&amp;</i>"):
        self.s = s

    def __html__(self):
        return self.s

    def __str__(self):
        raise AssertionError("__str__ of an __html__ object must not be used")


class WithAttr:
    a = "p"

    def __getitem__(self, k):
        raise AssertionError("item lookup must not be tried when the attribute exists")


class Falsy:
    def __bool__(self):
        return False

    def __str__(self):
        return "falsy"


class ScriptedError(Exception):
    pass


class Custom2(Exception):
    """custom exception with two constructor arguments"""

    def __init__(self, a, b):
        super().__init__(a, b)
        self.a, self.b = a, b


class CustomStr(Exception):
    def __str__(self):
        return "custom-str"


class SubLookup(LookupError):
    """an application-defined lookup error (e.g. a component lookup error)"""


EXC_CLASSES = {
    "ExceptionGroup": ExceptionGroup, "OSError": OSError,
    "SubLookup": SubLookup, "UnboundLocalError": UnboundLocalError,
    "KeyError": KeyError, "NameError": NameError, "AttributeError": AttributeError,
    "LookupError": LookupError, "IndexError": IndexError, "TypeError": TypeError,
    "ValueError": ValueError, "UnicodeError": UnicodeError,
    "ZeroDivisionError": ZeroDivisionError, "RuntimeError": RuntimeError,
    "KeyboardInterrupt": KeyboardInterrupt, "SystemExit": SystemExit,
    "RecursionError": RecursionError, "Custom2": Custom2, "CustomStr": CustomStr, "ModuleNotFoundError": ModuleNotFoundError,
    "Exception": Exception,
}


class Bag:
    """a sized container whose iterator is a generator"""

    def __init__(self, items):
        self._items = list(items)

    def __len__(self):
        return len(self._items)

    def __iter__(self):
        yield from self._items


class NoLen:
    """an iterable without a length"""

    def __init__(self, items):
        self._items = list(items)

    def __iter__(self):
        return (x for x in self._items)


class OldSeq:
    """the old sequence protocol: __getitem__ and __len__ only"""

    def __init__(self, items):
        self._items = list(items)

    def __len__(self):
        return len(self._items)

    def __getitem__(self, n):
        return self._items[n]


class FalsyIter(NoLen):
    """an iterable that is false although it yields items (a lazy cursor that has not fetched anything yet)"""

    def __bool__(self):
        return False


class LazyLen(NoLen):
    """len() counts what has been fetched so far: 0 before the first iteration"""

    def __init__(self, items):
        NoLen.__init__(self, items)
        self._seen = 0

    def __len__(self):
        return self._seen

    def __iter__(self):
        for x in self._items:
            self._seen += 1
            yield x


class NoBool(NoLen):
    """an array-like object whose truth value cannot be taken"""

    def __bool__(self):
        raise ValueError("the truth value of this object is ambiguous")


def _userlist(items):
    import collections
    return collections.UserList(items)


def _deque(items):
    import collections
    return collections.deque(items)


CARRIERS = {"tuple": tuple, "userlist": _userlist, "bag": Bag, "nolen": NoLen, "oldseq": OldSeq, "deque": _deque,
            "falsy": FalsyIter, "lazylen": LazyLen, "nobool": NoBool}


def make_exc(c):
    if c == "ExceptionGroup":
        # (read-only members: message, exceptions)
        return ExceptionGroup("scripted-group", [ValueError("inner-1"), KeyError("inner-2")])
    if c == "OSError":
        return OSError(2, "scripted-os-error", "some/file")
    cls = EXC_CLASSES[c]
    if cls is Custom2:
        return Custom2("a1", 2)
    if cls is CustomStr:
        return CustomStr("x")
    return cls("scripted-" + c)


class ValueFactory:
    """abstract value -> Python object; remembers the mapping so that
    snapshots of the real environment can be mapped back."""

    def __init__(self, default_marker):
        self.default_marker = default_marker
        self.back = {}

    def make(self, v):
        t = v["t"]
        if t == "none":
            return None
        if t == "default":
            return self.default_marker
        if t == "bool":
            return v["b"]
        if t == "int":
            return v["n"]
        if t == "str":
            return STR_TAGS.get(v["s"], v["s"])
        if t == "bytes":
            return STR_TAGS[v["s"]].encode("utf-8")
        if t == "seq":
            items = [self.make(x) for x in v["vs"]]
            if v.get("once"):
                o = iter(items)
            else:
                o = items
            self.back[id(o)] = (o, v)
            return o
        if t == "dict":
            o = {kv["k"]: self.make(kv["v"])
                 for kv in v["kvs"]}
            self.back[id(o)] = (o, v)
            return o
        if t == "range":
            return range(v["n"])
        if t in ("letters", "roman"):
            return _val_text(v, self, None)
        if t == "char":
            return STR_TAGS[v["s"]][v["n"] - 1]
        if t == "byte":
            return STR_TAGS[v["s"]].encode("utf-8")[v["n"] - 1]
        if t == "builtin":
            import builtins
            return getattr(builtins, v["n"])
        if t == "obj":
            o = {"plain": Plain, "html": Html, "falsy": Falsy, "attr": WithAttr, "msg": Msg}[v["kind"]]()
            self.back[id(o)] = (o, v)
            return o
        raise ValueError(v)

    def abstract(self, o, undefined=False):
        """Python object -> abstract value (best effort, for snapshots)"""
        if undefined:
            return {"t": "undef"}
        if o is None:
            return {"t": "none"}
        if o is self.default_marker:
            return {"t": "default"}
        if id(o) in self.back and self.back[id(o)][0] is o:
            return self.back[id(o)][1]
        if isinstance(o, bool):
            return {"t": "bool", "b": o}
        if isinstance(o, int):
            return {"t": "int", "n": o}
        if isinstance(o, str):
            for k, s in STR_TAGS.items():
                if s == o:
                    return {"t": "str", "s": k}
        if isinstance(o, bytes):
            for k, s in STR_TAGS.items():
                if s.encode("utf-8") == o:
                    return {"t": "bytes", "s": k}
        if type(o).__name__ == "ErrorInfo":
            return {"t": "errinfo", "c": o.type.__name__}
        return {"t": "other", "repr": type(o).__name__}


# ------------------------------------------------------------------ expressions
def expr_text(e, ctx=None):
    x = e["x"]
    if x == "call":
        return "e(%d)" % e["k"]
    if x == "var":
        return e["n"]
    if x == "const":
        return const_text(e["v"])
    if x == "pipe":
        return " | ".join(expr_text(a) for a in e["es"])
    if x == "not":
        return "not: " + expr_text(e["e"])
    if x == "exists":
        return "exists: " + expr_text(e["e"])
    if x == "imp":
        return "import: string.digits" if e["ok"] else "import: nosuchmod.attr"
    if x == "dflt":
        return "default"
    if x == "attrs":
        return "attrs['%s']" % e["n"]
    if x == "attrslen":
        return "len(attrs)"
    if x == "asg":
        return "(%s := %s)" % (e["n"], expr_text(e["e"]))
    if x == "wrap":
        inner = expr_text(e["e"])
        return {"lambda": "(lambda: %s)()", "lamarg": "(lambda x, len=None: x)(%s)", "listcomp": "[%s for _z in (1,)][0]",
                "genexp": "list(%s for _z in (1,))[0]", "cond": "(%s if True else None)", "dictitem": "{'k': %s}['k']",
                "setcomp": "list({_z: %s for _z in (1,)}.values())[0]", "paren": "(%s)",
                "ltcond": "(%s if 1 < 2 else None)", "ampand": "(1 & 3 and %s)",
                "nlparen": "(%s\n       )", "dsp": "(%s  if  True  else  None)",
                # parameters / comprehension variables named like template variables: local to the expression
                "pyprefix": "python: %s", "pyprefix2": "python:%s",
                # line breaks that mean something: inside a string literal, at the end of a comment
                # assignment expressions: on the name x (only where never reached), on a name nothing else uses
                "walrusx": "(x := %s)", "walrusw": "(w_ := %s)",
                "nlstr": "(%s if '''x\ny''' == 'x\\ny' else None)", "nlcomment": "(%s # note\n    )",
                "compx": "[x for x in (%s,)][0]", "genx": "list(x for x in (%s,))[0]", "lamdef": "(lambda y=%s: y)()",
                "nestlam": "(lambda x: (lambda y, x=x: x)(x))(%s)", "lamkw": "(lambda *x, **y: x[0])(%s)"}[e["w"]] % inner
    if x == "attr":
        return "%s.%s" % (expr_text(e["e"]), e["a"])
    if x == "skeys":
        return "sorted(%s.keys())" % expr_text(e["e"])
    if x == "err":
        return {"type": "error.type.__name__", "lineno": "error.lineno", "offset": "error.offset",
                "value": "type(error.value).__name__"}[e["f"]]
    if x == "bad":
        return BAD_EXPRS[e["k"] % len(BAD_EXPRS)]
    if x == "rep":
        return "repeat.%s.%s" % (e["n"], e["f"])
    if x == "str":
        out = "string:"
        for n, p in enumerate(e["ps"]):
            if p["x"] == "lit":
                out += p.get("s", "s%d" % n)
            else:
                out += "${" + expr_text(p) + "}"
        return out
    raise ValueError(e)


# invalid expressions: rejected by the parser, by the tokenizer of Python (1_, 0777), or only when the parsed tree is
# compiled (repeated keyword, duplicate parameter, yield / await / async comprehension outside a function, __debug__)
BAD_EXPRS = ["][", "1 +", "(a", "a b", "[x async for x in y]", "f(a=1, a=2)", "lambda a, a: 1", "(yield)", "await x", "*a",
             "[1 for __debug__ in y]", "f(__debug__=1)", "1_", "0777", "x.1", "a ? b", "return 1"]


def const_text(v):
    t = v["t"]
    if t == "none":
        return "None"
    if t == "bool":
        return "True" if v["b"] else "False"
    if t == "int":
        return str(v["n"])
    if t == "str":
        s = STR_TAGS.get(v["s"], v["s"])
        assert re.match(r"^[A-Za-z0-9 '|]*$", s)
        # a quote inside the literal is backslash-escaped, a pipe character is written \| (the documented escape)
        return "'" + s.replace("'", "\\'").replace("|", "\\|") + "'"
    if t == "seq":
        return "[" + ", ".join(const_text(x) for x in v["vs"]) + "]"
    raise ValueError(v)


# ------------------------------------------------------------------ source builder
class Concrete:
    def __init__(self):
        self.srcs = [""]      # one source per template: entry template, then the libraries
        self.cur = 0
        self.piece = {}       # atom key -> text
        self.sites = {}       # (i, s, j) -> dict(text, offset)
        self.attrfmt = {}     # (i, static index) -> (space, name, eq, quote, value)
        self.selfclosing = set()
        self.prev_text_tail = {}   # element index -> text directly before its start tag or None

    @property
    def source(self):
        return self.srcs[0]

    def add(self, s):
        off = len(self.srcs[self.cur])
        self.srcs[self.cur] += s
        return off

    def linecol(self, off, tmpl=0):
        src = self.srcs[tmpl]
        line = src.count("\n", 0, off) + 1
        col = off - (src.rfind("\n", 0, off) + 1)
        return line, col


def _attr_escape(text):
    """expression text inside a double-quoted attribute value"""
    return text.replace("&", "&amp;").replace('"', "&quot;").replace("<", "&lt;")


def concretize(p, perm=0, style=None):
    """perm selects the permutation of the statement attributes; style
    carries lexical detail knobs (prefix spelling etc.)."""
    # perm encodes the spelling plan of the statements (C18): perm // 100
    #   0 default prefixes; 1 prefix renamed, declared on the element itself;
    #   2 prefix renamed, declared on an enclosing (dropped) tal:block;
    #   3 data-tal-* attributes (needs enable_data_attributes)
    plan = perm // 100
    rnd = random.Random(perm % 100)
    c = Concrete()
    c.plan = plan
    if plan == 2:
        c.add('<tal:block xmlns:zz="http://xml.zope.org/namespaces/tal">')
    items = p["items"]
    stack = []
    tagidx = 0
    starts = {lb["from"]: n for n, lb in enumerate(p.get("libs", []), 1)}
    for idx0, it in enumerate(items):
        i = idx0 + 1
        k = it["k"]
        if i in starts:
            if plan == 2 and c.cur == 0:
                c.add("</tal:block>")
            c.srcs.append("")
            c.cur = starts[i]
        if k == "text":
            for j0, part in enumerate(it["parts"]):
                j = j0 + 1
                if part["x"] == "lit":
                    s = part.get("s", "t%d_%d" % (i, j))
                    c.add(s)
                    c.piece[("text", i, j)] = s
                elif part["x"] == "snap":
                    c.add("${snap(%d, econtext)}" % part["k"])
                else:
                    c.add("${")
                    txt = expr_text(part)
                    off = c.add(txt)
                    c.sites[(i, "text", j)] = {"text": txt, "offset": off, "tmpl": c.cur}
                    c.add("}")
        elif k == "code":
            c.add("<?python")
            txt = " %s = %s " % (it["n"], expr_text(it["e"]))
            off = c.add(txt)
            c.sites[(i, "code", 0)] = {"text": txt, "offset": off, "tmpl": c.cur}
            c.add("?>")
        elif k == "open":
            tagidx += 1
            ns = it["tag"] == "ns"
            name = it.get("name") or ("tal:block" if ns else TAGNAMES[tagidx % len(TAGNAMES)])
            stack.append((i, name))
            # what text precedes this start tag (for the repeat separator)
            prev = items[idx0 - 1] if idx0 > 0 else None
            if prev is not None and prev["k"] == "text" and prev["parts"][-1]["x"] == "lit":
                c.prev_text_tail[i] = "".join(c.piece[("text", idx0, j + 1)] if pp["x"] == "lit" else "\0"
                                              for j, pp in enumerate(prev["parts"]))
            else:
                c.prev_text_tail[i] = None
            c.add("<" + name)
            c.piece[("stag", i)] = "<" + name
            pre = "" if ns else {0: "tal:", 1: "zz:", 2: "zz:", 3: "data-tal-"}[plan]
            decl_here = plan == 1 and not ns
            stm = []   # (kind, attribute name, [(text or (site, exprtext))...])

            def ex(site, e):
                return ("x", site, expr_text(e))

            if it["def"]:
                parts = []
                for j, d in enumerate(it["def"], 1):
                    if j > 1:
                        parts.append("; ")
                    ns = d.get("ns") or [d["n"]]
                    parts.append(("global " if d["g"] else "") + (ns[0] if len(ns) == 1 else "(" + ", ".join(ns) + ")") + " ")
                    parts.append(ex((i, "def", j), d["e"]))
                stm.append(("define", pre + "define", parts))
            if it["sw"]["x"] != "none":
                stm.append(("switch", pre + "switch", [ex((i, "sw", 0), it["sw"])]))
            if it["cs"]["x"] != "none":
                stm.append(("case", pre + "case", [ex((i, "case", 0), it["cs"])]))
            if it["cond"]["x"] != "none":
                stm.append(("condition", pre + "condition", [ex((i, "cond", 0), it["cond"])]))
            if it["rep"]["m"] != "no":
                r = it["rep"]
                nm = r["n"] if len(r["ns"]) == 1 else "(" + ", ".join(r["ns"]) + ")"
                stm.append(("repeat", pre + "repeat",
                            [("global " if r["g"] else "") + nm + " ", ex((i, "rep", 0), r["e"])]))
            if it["sub"]["m"] != "none":
                sb = it["sub"]
                stm.append((sb["m"], pre + sb["m"],
                            # the keyword and the expression-type spelling are the same opt-out (odd permutations use the latter)
                            [(("structure " if perm % 2 == 0 else "structure: ") if sb["s"] else ""), ex((i, "sub", 0), sb["e"])]))
            if it["omit"]["m"] == "yes":
                stm.append(("omit-tag", pre + "omit-tag", [""]))
            elif it["omit"]["m"] == "expr":
                stm.append(("omit-tag", pre + "omit-tag", [ex((i, "omit", 0), it["omit"]["e"])]))
            if it["dattr"]:
                parts = []
                for j, d in enumerate(it["dattr"], 1):
                    if j > 1:
                        parts.append("; ")
                    if d["n"]:
                        parts.append(d["n"] + " ")
                    parts.append(ex((i, "attr", j), d["e"]))
                stm.append(("attributes", pre + "attributes", parts))
            if it.get("dm"):
                stm.append(("define-macro", "metal:define-macro", [it["dm"]]))
            if it.get("ds"):
                stm.append(("define-slot", "metal:define-slot", [it["ds"]]))
            if it.get("fs"):
                stm.append(("fill-slot", "metal:fill-slot", [it["fs"]]))
            if it.get("um", {}).get("m") == "yes":
                u = it["um"]
                txt = ("T%d" % u["lib"]) if u["whole"] else "T%d.macros['%s']" % (u["lib"], u["mname"])
                if u.get("mvar"):
                    txt = "T%d.macros[%s]" % (u["lib"], u["mvar"])
                form = (perm + i) % 3
                if form == 1:
                    txt = "nosuchname | python: " + txt          # a prefixed alternative has a token of its own
                elif form == 2:
                    txt = "python: " + txt
                stm.append(("use-macro", "metal:extend-macro" if u["ext"] else "metal:use-macro", [("x", (i, "use", 0), txt)]))
            if it.get("tr", {}).get("m") == "yes":
                stm.append(("translate", "i18n:translate", [it["tr"]["id"]]))
            if it.get("nm"):
                stm.append(("name", "i18n:name", [it["nm"]]))
            if [a for a in it.get("ia", []) if not a.get("implicit")]:
                stm.append(("i18n-attributes", "i18n:attributes", ["; ".join((a["n"] + (" " + a["id"] if a["id"] else "")) for a in it["ia"] if not a.get("implicit"))]))
            i18 = it.get("i18n", {})
            if i18.get("m") == "yes":
                if i18.get("d"):
                    stm.append(("domain", "i18n:domain", [i18["d"]]))
                if i18.get("c"):
                    stm.append(("context", "i18n:context", [i18["c"]]))
                if i18.get("t"):
                    stm.append(("target", "i18n:target", ["'%s'" % i18["t"]]))
                elif i18.get("tv"):
                    stm.append(("target", "i18n:target", [i18["tv"]]))
            if it["oe"]["m"] != "no":
                stm.append(("on-error", pre + "on-error",
                            [("structure " if it["oe"]["s"] else ""), ex((i, "oe", 0), it["oe"]["e"])]))
            extra = it.get("xattrs", [])
            for xa in extra:
                stm.append(("x", xa[0], [xa[1]]))
            if decl_here and stm:
                stm.append(("x", "xmlns:zz", ["http://xml.zope.org/namespaces/tal"]))
            rnd.shuffle(stm)
            statics = [("s", n) for n in range(1, len(it["sattr"]) + 1)]
            # interleave statics (in order) with the statement attributes
            slots = sorted(rnd.sample(range(len(stm) + len(statics)), len(statics))) if statics else []
            order = []
            si = iter(statics)
            st_i = iter(stm)
            for pos in range(len(stm) + len(statics)):
                order.append(next(si) if pos in slots else next(st_i))
            for ent in order:
                if ent[0] == "s":
                    n = ent[1]
                    sa = it["sattr"][n - 1]
                    lex = sa.get("lex", {})
                    quote = lex.get("q", '"')
                    val = lex.get("v", "v%d" % n)
                    space = lex.get("sp", " ")
                    eq = lex.get("eq", "=")
                    txt = space + sa["n"] + eq + quote + val + quote
                    c.add(txt)
                    c.piece[("sattr", i, n)] = txt
                    c.attrfmt[(i, n)] = (space, sa["n"], eq, quote, val)
                else:
                    kind, aname, parts = ent
                    # statement attributes on lines of their own in some plans (line numbers of error sites)
                    ml = (perm % 100) % 2 == 1
                    c.add(("\n    " if ml else " ") + aname + '="')
                    for part in parts:
                        if isinstance(part, tuple):
                            _, site, txt = part
                            enc = _attr_escape(txt)
                            off = c.add(enc)
                            c.sites[site] = {"text": txt, "offset": off, "encoded": enc, "tmpl": c.cur}
                        elif ml and part == "; ":
                            # multi-line plan: one clause per line, the closing quote on a line of its own
                            c.add(";\n        ")
                        else:
                            c.add(part)
                    last = [pt for pt in parts if isinstance(pt, tuple)]
                    if ml and kind in ("define", "attributes", "content", "replace", "condition", "repeat") \
                            and last and "string:" not in last[-1][2]:
                        c.add("\n    ")
                    c.add('"')
            sc = it.get("selfclose", False)
            suffix = " />" if sc else ">"
            c.add(suffix)
            c.piece[("stagend", i)] = suffix
            if sc:
                c.selfclosing.add(i)
        elif k == "close":
            i0, name = stack.pop()
            if i0 in c.selfclosing:
                c.piece[("etag", i0)] = ""
            else:
                c.add("</" + name + ">")
                c.piece[("etag", i0)] = "</" + name + ">"
    if plan == 2 and c.cur == 0:
        c.add("</tal:block>")
    return c


# ------------------------------------------------------------------ printer
def conv(obj):
    """reference conversion of an inserted value to text (None: nothing)"""
    if obj is None:
        return None
    if isinstance(obj, bytes):
        return obj.decode("utf-8")
    if isinstance(obj, str) and type(obj) is str:
        return obj
    h = getattr(obj, "__html__", None)
    if h is not None and not isinstance(obj, (int, float)):
        return RawText(h())
    return str(obj)


class RawText(str):
    pass


def esc_text(s):
    if isinstance(s, RawText):
        return str(s)
    return s.replace("&", "&amp;").replace("<", "&lt;").replace(">", "&gt;")


def esc_attr(s, quote):
    if isinstance(s, RawText):
        return str(s)
    s = esc_text(s)
    if quote == '"':
        s = s.replace('"', "&quot;")
    elif quote == "'":
        s = s.replace("'", "&#39;")
    return s


REPEAT_SEP = object()


def roman(n):
    out = ""
    for v, r in ((1000, "M"), (900, "CM"), (500, "D"), (400, "CD"), (100, "C"), (90, "XC"),
                 (50, "L"), (40, "XL"), (10, "X"), (9, "IX"), (5, "V"), (4, "IV"), (1, "I")):
        while n >= v:
            out += r
            n -= v
    return out


ERRFIELD = None
MACROEXPR = None


TRANS = None


def norm_ws(s):
    return re.sub(r"\s+", " ", s).strip()


def interpolate(text, mapping):
    if not mapping or not isinstance(text, str):
        return text
    return re.sub(r"\$\{([A-Za-z][-A-Za-z0-9_]*)\}", lambda m: str(mapping.get(m.group(1), m.group(0))), text)


def tf_result(variant, msgid, mapping, default):
    """what the harness's translation function returns (a pure function of its arguments)"""
    if not isinstance(msgid, str):
        return msgid
    if variant == "rewrite":
        return interpolate("T[" + msgid + "]", mapping)
    if default is None:
        default = msgid
    return interpolate(default, mapping)


def expected_translate_calls(log, c, p, vf, variant):
    """the ordered translate calls the machine's log prescribes: (msgid, mapping, default, domain, context, target)"""
    calls = []
    for n, ev in enumerate(log, 1):
        if ev["ev"] == "offer":
            # a message object offered for translation before it is converted to text
            calls.append(("<msg>", None, None, ev["d"] or None, ev["c"] or None, ev["t"] or None))
            continue
        if ev["ev"] == "ctrans":
            # tal:content with i18n:translate="": the value itself is the message id (before it is converted and escaped);
            # the recording function notes text and message objects
            v = ev["v"]
            if ev.get("id"):
                # explicit id: the value (as it is, before conversion) is the default
                dflt = _val_text(v, vf, None) if v["t"] == "str" else (v["n"] if v["t"] == "int" else "<other>")
                calls.append((ev["id"], None, dflt, ev["d"] or None, ev["c"] or None, ev["t"] or None))
            elif v["t"] == "str":
                calls.append((_val_text(v, vf, None), None, None, ev["d"] or None, ev["c"] or None, ev["t"] or None))
            elif v["t"] == "obj" and v.get("kind") == "msg":
                calls.append(("<msg>", None, None, ev["d"] or None, ev["c"] or None, ev["t"] or None))
            continue
        if ev["ev"] == "atrans":
            # i18n:attributes: the attribute's text (static as written, computed converted and escaped) is the default and,
            # without an explicit id, the message id; an empty text without an explicit id is not offered
            info = _attr_trans(ev["i"], ev["st"], ev["dy"], ev["v"], c, p, vf, None, variant)
            if info["called"]:
                calls.append((info["msgid"], None, info["text"], ev["d"] or None, ev["c"] or None, ev["t"] or None))
            continue
        if ev["ev"] != "translate":
            continue
        info = _trans_info(ev, log, c, p, vf, variant)
        if info["called"]:
            calls.append((info["msgid"], info["mapping"], info["default"], ev["d"] or None, ev["c"] or None, ev["t"] or None))
    return calls


def _segtext(segs):
    return "".join(s if isinstance(s, str) else "\n" for s in segs)


def _trans_info(ev, log, c, p, vf, variant):
    body = norm_ws(_segtext(_print_atoms(ev["cap"], c, p, vf, None, log, variant)))
    mapping = {nm["n"]: _segtext(_print_atoms(nm["cap"], c, p, vf, None, log, variant)) for nm in ev["names"]} or None
    explicit = ev["id"] != ""
    msgid = ev["id"] if explicit else body
    called = explicit or body != ""
    return dict(called=called, msgid=msgid, mapping=mapping, default=body,
                result=tf_result(variant, msgid, mapping, body) if called else "")


def _attr_trans(i, st, dy, v, c, p, vf, objs, variant):
    """the translation of attribute (static index st, dynamic index dy) of item i whose value is v (default: the static text)"""
    it = p["items"][i - 1]
    key = it["dattr"][dy - 1]["key"] if dy else it["sattr"][st - 1]["key"]
    explicit = next((a["id"] for a in it["ia"] if a["key"] == key), "")
    if st:
        quote = c.attrfmt[(i, st)][3] or '"'
    else:
        quote = '"'
    if v["t"] == "default":
        text = c.attrfmt[(i, st)][4].replace("$$", "$")
    else:
        text = esc_attr(_val_text(v, vf, objs), quote)
    called = bool(explicit) or text != ""
    msgid = explicit or text
    return dict(called=called, msgid=msgid, text=text, result=tf_result(variant, msgid, None, text) if called else text)


def print_atoms(atoms, c, p, vf, objs=None, log=None, variant="identity"):
    global ERRFIELD

    def errfield(v):
        if v["f"] in ("type", "value"):
            return v["c"]
        s = v["site"]
        line, col = c.linecol(c.sites[(s["i"], s["s"], s["j"])]["offset"])
        return str(line if v["f"] == "lineno" else col)
    ERRFIELD = errfield
    global MACROEXPR
    MACROEXPR = lambda v: c.sites[(v["i"], "use", 0)]["text"].rsplit("/", 1)[-1]
    return _print_atoms(atoms, c, p, vf, objs, log, variant)


def _print_atoms(atoms, c, p, vf, objs=None, log=None, variant="identity"):
    """atoms: the machine's output stream.  Returns a list of segments:
    str (exact) or a compiled regex (free region).  `objs` maps log-derived
    python objects for values that came from calls (identity matters only
    for objects whose str() is identity-dependent)."""
    segs = []
    for a in atoms:
        k = a["a"]
        if k == "text":
            segs.append(c.piece[("text", a["i"], a["p"])])
        elif k == "stag":
            segs.append(c.piece[("stag", a["i"])])
        elif k == "stagend":
            segs.append(c.piece[("stagend", a["i"])])
        elif k == "etag":
            segs.append(c.piece[("etag", a["i"])])
        elif k == "sattr":
            segs.append(c.piece[("sattr", a["i"], a["n"])])
        elif k == "tattr":
            space, name, eq, quote, _v = c.attrfmt[(a["i"], a["n"])]
            quote = quote or '"'
            segs.append(space + name + eq + quote + _attr_trans(a["i"], a["n"], 0, {"t": "default"}, c, p, vf, objs, variant)["result"] + quote)
        elif k == "dattr" and a.get("tr"):
            it = p["items"][a["i"] - 1]
            d = it["dattr"][a["n"] - 1]
            if a["st"]:
                space, _n, eq, quote, _v = c.attrfmt[(a["i"], a["st"])]
                quote = quote or '"'
            else:
                space, eq, quote = " ", "=", '"'
            segs.append(space + d["n"] + eq + quote + _attr_trans(a["i"], a["st"], a["n"], a["v"], c, p, vf, objs, variant)["result"] + quote)
        elif k == "sdflt" and a.get("tr"):
            it = p["items"][a["i"] - 1]
            d = it["dattr"][a["n"] - 1]
            space, _n, eq, quote, _v = c.attrfmt[(a["i"], a["st"])]
            quote = quote or '"'
            segs.append(space + d["n"] + eq + quote + _attr_trans(a["i"], a["st"], a["n"], {"t": "default"}, c, p, vf, objs, variant)["result"] + quote)
        elif k == "dattr":
            it = p["items"][a["i"] - 1]
            d = it["dattr"][a["n"] - 1]
            if a["st"]:
                space, _n, eq, quote, _v = c.attrfmt[(a["i"], a["st"])]
                quote = quote or '"'      # an attribute written without quotes is quoted once its value is computed
            else:
                space, eq, quote = " ", "=", '"'
            t = _val_text(a["v"], vf, objs)
            segs.append(space + d["n"] + eq + quote + esc_attr(t, quote) + quote)
        elif k == "nameph":
            segs.append("${%s}" % a["n"])
        elif k == "trans":
            segs.append(_trans_info(log[a["e"] - 1], log, c, p, vf, variant)["result"])
        elif k == "sdflt":
            # 'default': the static value under the statement's spelling of the name
            it = p["items"][a["i"] - 1]
            d = it["dattr"][a["n"] - 1]
            space, _n, eq, quote, val = c.attrfmt[(a["i"], a["st"])]
            quote = quote or '"'
            segs.append(space + d["n"] + eq + quote + val + quote)
        elif k == "battr":
            it = p["items"][a["i"] - 1]
            d = it["dattr"][a["n"] - 1]
            if a["st"]:
                space, _n, eq, quote, _v = c.attrfmt[(a["i"], a["st"])]
                quote = quote or '"'
            else:
                space, eq, quote = " ", "=", '"'
            segs.append(space + d["n"] + eq + quote + d["n"] + quote)
        elif k == "kattr":
            segs.append(" " + a["k"] + '="' + esc_attr(_val_text(a["v"], vf, objs), '"') + '"')
        elif k == "val":
            t = _val_text(a["v"], vf, objs)
            if t is None:
                continue
            if a.get("tr"):
                tid = p["items"][a["i"] - 1]["tr"]["id"]
                if tid:
                    t = tf_result(variant, tid, None, t)
                elif a["v"]["t"] == "str":
                    t = tf_result(variant, t, None, None)
            segs.append(t if a["esc"] == "struct" else esc_text(t))
        elif k == "sep":
            it = p["items"][a["i"] - 1]
            if it["tag"] == "ns":
                continue
            tail = c.prev_text_tail.get(a["i"])
            last = None if tail is None else tail.rsplit("\n", 1)[-1]
            if a["i"] == 1 or (a["i"] == 2 and tail is not None and tail.strip(" \t") == ""):
                # the element starts on the first line of the template, after nothing but indentation
                segs.append("\n" + (tail or ""))
            elif tail is None or "\n" not in tail or last.strip(" \t") != "":
                # not "an ordinary element that starts on its own line": unconstrained
                segs.append(re.compile(r"\s*"))
            else:
                segs.append("\n" + last)
        else:
            raise ValueError(a)
    return segs


def _val_text(v, vf, objs):
    if v["t"] == "cat":
        out = ""
        for x in v["vs"]:
            if x["t"] == "lit":
                out += x.get("s", "s%d" % (x["p"] - 1))
            else:
                t = _val_text(x, vf, objs)
                out += "" if t is None else t
        return out
    if v["t"] == "letters":
        base = ord("A") if v["up"] else ord("a")
        return "".join(chr(base + d) for d in v["ds"])
    if v["t"] == "roman":
        s = "".join(v["ss"])
        return s if v["up"] else s.lower()
    if v["t"] == "errfield":
        return ERRFIELD(v)
    if v["t"] == "macroexpr":
        return MACROEXPR(v)
    obj = vf.make(v) if objs is None else objs(v)
    return conv(obj)


def repvar_value(v):
    f, ln, pos = v["f"], v["len"], v["pos"]
    idx = pos - 1
    if f == "index":
        return idx
    if f == "number":
        return idx + 1
    if f == "length":
        return ln
    if f == "start":
        return int(idx == 0)
    if f == "end":
        return int(idx == ln - 1)
    if f == "even":
        return "even" if idx % 2 == 0 else ""
    if f == "odd":
        return "odd" if idx % 2 == 1 else ""
    if f == "parity":
        return "even" if idx % 2 == 0 else "odd"
    raise ValueError(f)


def match_segments(segs, text):
    """total verdict: (True, None) or (False, description of first difference)"""
    pat = "".join(s.pattern if hasattr(s, "pattern") else re.escape(s) for s in segs)
    if re.fullmatch(pat, text, re.S):
        return True, None
    # locate first difference for the report
    exp = "".join("…" if hasattr(s, "pattern") else s for s in segs)
    n = 0
    while n < min(len(exp), len(text)) and exp[n] == text[n]:
        n += 1
    return False, "expected %r, got %r (first difference at %d)" % (exp, text, n)


ENT_NORM = [("&#34;", "&quot;"), ("&#x22;", "&quot;"), ("&apos;", "&#39;"), ("&#x27;", "&#39;")]


def norm_entities(s):
    for a, b in ENT_NORM:
        s = s.replace(a, b)
    return s
