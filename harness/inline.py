"""Syntactic inlining of METAL (the language-level statement of C09):
Inline(caller, libraries) is a METAL-free program that must render exactly
like the original for every binding.

Rules (DESIGN Appendix C):
 * a use of macro M is replaced by M's defining element (its own tag and
   attributes), `macroname` bound around it;
 * every define-slot region of M whose name the caller fills is replaced by the
   caller's fill-slot element, the others keep their default content; fillers
   naming no slot are dropped;
 * define-macro="E" extend-macro="B": E is B with E's fillers applied; the
   outermost caller's filler wins; slots defined inside E's fillers are
   fillable by users of E;
 * a whole template used as macro renders its top level;
 * a define-macro element met in the normal flow renders as itself.
"""
from __future__ import annotations

import copy

from . import prog as P


def _match(items, i):
    d = 0
    for j in range(i, len(items)):
        if items[j]["k"] == "open":
            d += 1
        elif items[j]["k"] == "close":
            d -= 1
            if d == 0:
                return j
    raise ValueError("unbalanced")


def inline(p):
    items = p["items"]
    main = p.get("main", len(items))
    libs = p.get("libs", [])

    def find_macro(name):
        for n, it in enumerate(items):
            if it["k"] == "open" and it.get("dm") == name:
                return n
        raise KeyError(name)

    def fills_of(u):
        """fill-slot children of the use-macro element at index u: slot -> index"""
        out = {}
        end = _match(items, u)
        depth_um = []
        j = u + 1
        stack = []
        while j < end:
            it = items[j]
            if it["k"] == "open":
                if it.get("fs") and not any(s for s in stack):
                    out.setdefault(it["fs"], j)
                stack.append(it["um"]["m"] == "yes")
            elif it["k"] == "close":
                stack.pop()
            j += 1
        return out

    def strip(it, **over):
        it = copy.deepcopy(it)
        it["dm"] = ""
        it["ds"] = ""
        it["fs"] = ""
        it["um"] = {"m": "no", "mname": "", "mvar": "", "whole": False, "lib": 0, "ext": False, "fills": []}
        it["mslots"] = []
        it.update(over)
        return it

    def expand(lo, hi, fm):
        """items[lo:hi] with METAL expanded; fm: slot -> (index of filler element, fm at the filler's site)"""
        out = []
        j = lo
        while j < hi:
            it = items[j]
            if it["k"] != "open":
                out.append(copy.deepcopy(it))
                j += 1
                continue
            end = _match(items, j)
            if it.get("ds") and it["ds"] in fm:
                fi, ffm = fm[it["ds"]]
                out += expand_element(fi, ffm)
            elif it["um"]["m"] == "yes" and not it.get("dm"):
                out += expand_use(j, fm)
            else:
                out += expand_element(j, fm)
            j = end + 1
        return out

    def expand_element(j, fm):
        it = items[j]
        end = _match(items, j)
        if it["um"]["m"] == "yes" and it.get("dm"):
            # an extending macro met in the normal flow: it is the extended macro with its fillers
            return expand_use(j, fm)
        if it["um"]["m"] == "yes":
            return expand_use(j, fm)
        return [strip(it)] + expand(j + 1, end, fm) + [P.CLOSE]

    def expand_use(u, fm_site, extra=None):
        """the use-macro (or extend-macro) element at u, written where fm_site is in force;
        extra: fillers of an outer user that override (extension chains)"""
        it = items[u]
        um = it["um"]
        own = {s: (i, fm_site) for s, i in fills_of(u).items()}
        if extra:
            for s, v in extra.items():
                own[s] = v           # the outermost caller's filler wins
        if um["whole"]:
            lb = libs[um["lib"] - 1] if um["lib"] else {"from": 1, "to": main}
            body = expand(lb["from"] - 1, lb["to"], own)
            return body
        e = find_macro(um["mname"])
        eit = items[e]
        eend = _match(items, e)
        if eit["um"]["m"] == "yes":
            # the used macro extends another one: its fillers apply, the user's override them
            inner = expand_use(e, own, extra=own)
            # macroname is the name used by the outermost use
            return _with_macroname(inner, um["mname"])
        body = expand(e + 1, eend, own)
        el = strip(eit)
        return _with_macroname([el] + body + [P.CLOSE], um["mname"])

    def _with_macroname(elem_items, name):
        # (`macroname` is checked against the machine only; the inlined programs do not read it)
        return elem_items

    new_items = expand(0, main, {})
    q = P.program(new_items, p["dom"], init=p.get("init"), cfg=p.get("cfg"), fam=p.get("fam", "") + ":inlined",
                  bools=p.get("bools", ()))
    return q
