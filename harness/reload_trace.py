"""Free-running threads on one auto_reload file template while the file changes: record the hook events of the
real code (guard MALTHE_CHAMELEON_VERIF=1) and validate the recorded logs against specs/ReloadTrace.tla with TLC.

    record(...)    -> one trace: {"quiet": bool, "events": [{"t", "label", "v"}, ...]}   (t = 0: the writer)
    validate([...]) -> (accepted: bool per trace, longest explained prefix per trace, tlc statistics)

Versions: the writer saves version k with the modification time BASE + 10 * k and the body '<p>v${k}...'; the
modification time a thread saw, the body it read and the text it rendered are mapped back to k.
"""
from __future__ import annotations

from harness import REPO_SRC  # noqa: E402

import json
import os
import re
import shutil
import sys
import tempfile
import threading

from .pipeline import workdir
from .tla import run_tlc

BASE = 100000


def body_of(k):
    return '<p tal:define="v %d">v${v} <i tal:repeat="x range(3)">${x}</i></p>' % k


def version_of_text(text):
    m = re.match(r"<p>v(\d+) ", text or "")
    return int(m.group(1)) if m else -1


def version_of_body(body):
    m = re.search(r'tal:define="v (\d+)"', body or "")
    return int(m.group(1)) if m else -1


def record(nthreads=3, ncalls=4, nwrites=3, quiet=False, seed=0, switch=1e-5):
    """run the real code; returns (trace, failures) -- failures: exceptions raised by render()"""
    os.environ["MALTHE_CHAMELEON_VERIF"] = "1"
    if REPO_SRC not in sys.path:
        sys.path.insert(0, REPO_SRC)
    from chameleon import PageTemplateFile, _verif
    import random
    rnd = random.Random(seed)
    d = tempfile.mkdtemp(prefix="reload_")
    path = os.path.join(d, "t.pt")
    events = []
    failures = []
    lock = threading.Lock()
    tl = threading.local()

    def save(k):
        tmp = path + ".new"
        with open(tmp, "w") as f:
            f.write(body_of(k))
        os.utime(tmp, (BASE + 10 * k, BASE + 10 * k))
        os.replace(tmp, path)          # atomic: a reader sees the old or the new file

    def log(t, label, v=0):
        with lock:
            events.append({"t": t, "label": label, "v": v})

    save(1)
    tmpl = PageTemplateFile(path, auto_reload=True)
    orig_read = tmpl.read

    def read():
        body = orig_read()
        tl.body = body
        return body
    tmpl.read = read

    def callback(label, info):
        if info.get("template") is not tmpl:
            return
        t = getattr(tl, "idx", None)
        if t is None:
            return
        v = 0
        if label == "check.mtime":
            v = int(round((info["mtime"] - BASE) / 10))
        elif label == "check.read":
            v = version_of_body(getattr(tl, "body", ""))
        log(t, label, v)

    old_switch = sys.getswitchinterval()
    sys.setswitchinterval(switch)
    _verif.set_callback(callback)
    try:
        if quiet:
            # rounds: all threads render concurrently, then (nobody rendering) the file may change
            rounds = nwrites + 1
            barrier = threading.Barrier(nthreads + 1)

            def worker(idx):
                tl.idx = idx
                for r in range(rounds):
                    barrier.wait()
                    for _ in range(ncalls):
                        try:
                            text = tmpl()
                            log(idx, "use", version_of_text(text))
                        except BaseException as e:   # noqa
                            failures.append("%s: %s" % (type(e).__name__, e))
                            log(idx, "use", -1)
                    barrier.wait()
            ths = [threading.Thread(target=worker, args=(i + 1,)) for i in range(nthreads)]
            for th in ths:
                th.start()
            k = 1
            for r in range(rounds):
                barrier.wait()      # start of the round
                barrier.wait()      # end of the round: nobody renders
                if r < rounds - 1 and rnd.random() < 0.8:
                    k += 1
                    save(k)
                    log(0, "write", k)
            for th in ths:
                th.join()
        else:
            stop = threading.Event()

            pauses = [[rnd.random() * 0.003 for _ in range(ncalls)] for _ in range(nthreads + 1)]

            def worker(idx):
                import time
                tl.idx = idx
                for c in range(ncalls):
                    time.sleep(pauses[idx][c])
                    try:
                        text = tmpl()
                        log(idx, "use", version_of_text(text))
                    except BaseException as e:   # noqa
                        failures.append("%s: %s" % (type(e).__name__, e))
                        log(idx, "use", -1)

            def writer():
                import time
                for k in range(2, nwrites + 2):
                    time.sleep(rnd.random() * 0.006)
                    if stop.is_set():
                        return
                    save(k)
                    log(0, "write", k)
            ths = [threading.Thread(target=worker, args=(i + 1,)) for i in range(nthreads)]
            wt = threading.Thread(target=writer)
            for th in ths:
                th.start()
            wt.start()
            for th in ths:
                th.join()
            stop.set()
            wt.join()
    finally:
        _verif.set_callback(None)
        sys.setswitchinterval(old_switch)
        shutil.rmtree(d, ignore_errors=True)
    return {"quiet": quiet, "events": events}, failures


CFG = """SPECIFICATION TSpec
CONSTANTS
 Threads = {%s}
 MaxVer = 100000
 MaxCalls = 100000
 QuietWrites = FALSE
VIEW TView
CONSTRAINT Progress
POSTCONDITION AllAccepted
CHECK_DEADLOCK FALSE
"""


def validate(traces, nthreads=3, timeout=1200):
    """-> (verdicts, prefixes, stats): verdicts[i] True iff trace i is a behaviour of the specification"""
    wd = workdir("reloadtr")
    try:
        json.dump(traces, open(os.path.join(wd, "traces.json"), "w"))
        open(os.path.join(wd, "MCReloadTrace.tla"), "w").write("---- MODULE MCReloadTrace ----\nEXTENDS ReloadTrace\n====\n")
        open(os.path.join(wd, "MCReloadTrace.cfg"), "w").write(CFG % ", ".join(str(i + 1) for i in range(nthreads)))
        r = run_tlc("MCReloadTrace", "MCReloadTrace.cfg", wd, workers=1, timeout=timeout, deadlock=True, java_opts=["-Xmx6g"],
                    env_extra={"TRACE_FILE": os.path.join(wd, "traces.json")})
    finally:
        shutil.rmtree(wd, ignore_errors=True)
    verdicts = [True] * len(traces)
    prefixes = [len(t["events"]) for t in traces]
    out = r.stdout
    if "REJECTED" in out:
        m = re.search(r'"REJECTED",\s*(.*?)>>', out, re.S)
        body = " ".join(m.group(1).split()) if m else ""
        # a function printed as (1 :> 5 @@ 3 :> 0) or as a tuple <<..>> when its domain is 1..n
        pairs = re.findall(r"(\d+) :> (\d+)", body)
        if pairs:
            for a, b in pairs:
                verdicts[int(a) - 1] = False
                prefixes[int(a) - 1] = int(b)
        else:
            nums = [int(x) for x in re.findall(r"\d+", body)]
            for i, b in enumerate(nums[:len(traces)]):
                verdicts[i] = False
                prefixes[i] = b
    elif r.rc != 0 or r.error or r.violation:
        raise RuntimeError("ReloadTrace run failed: %s %s\n%s" % (r.error, r.violation, out[-2000:]))
    return verdicts, prefixes, dict(states=r.states, distinct=r.distinct, wall=r.wall)


def _record_job(args):
    return record(**args)


def model_runs(timeout=600):
    """Reload.tla itself: (quiet ok?, free-writes Fresh violated?, stats) -- with writes only between calls every
    invariant holds; with writes during calls Fresh is violated (the recorded C16 finding) and the others hold"""
    out = {}
    for mode, quiet in (("quiet", True), ("free", False)):
        wd = workdir("reload")
        try:
            open(os.path.join(wd, "MCReload.tla"), "w").write("---- MODULE MCReload ----\nEXTENDS Reload\n====\n")
            open(os.path.join(wd, "MCReload.cfg"), "w").write(
                "SPECIFICATION Spec\nCONSTANTS\n Threads = {1, 2}\n MaxVer = 3\n MaxCalls = 2\n QuietWrites = %s\n"
                "INVARIANT RenderSeesPublished\nINVARIANT ResultIsAVersion\n%s"
                "PROPERTY NoRecompileWhenUnchanged\nCHECK_DEADLOCK FALSE\n" % ("TRUE" if quiet else "FALSE", "INVARIANT Fresh\n"))
            r = run_tlc("MCReload", "MCReload.cfg", wd, workers=8, timeout=timeout)
        finally:
            shutil.rmtree(wd, ignore_errors=True)
        out[mode] = r
    return out
