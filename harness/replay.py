"""Replay of machine behaviours (TLC terminal states) on the real chameleon.

A behaviour record is what specs/ZPT.tla dumps at `Done`:
  pid, log (call / snap / handler events with the lazily chosen results),
  out (atoms), res, exc.
The log doubles as the script: the j-th call of e(k) returns (or raises) the
j-th logged result for k.
"""
from __future__ import annotations

from harness import REPO_SRC  # noqa: E402

import os
import sys
import traceback

from . import concretize as C

if REPO_SRC not in sys.path:
    sys.path.insert(0, REPO_SRC)


def _chameleon():
    import chameleon  # noqa
    from chameleon import PageTemplate
    from chameleon.tales import DEFAULT_MARKER
    return PageTemplate, DEFAULT_MARKER


class Recorder:
    variant = "identity"

    def translate(self, msgid, domain=None, mapping=None, context=None, target_language=None, default=None):
        if isinstance(msgid, str):
            self.tcalls.append((msgid, dict(mapping) if mapping else None, default, domain, context, target_language))
        elif isinstance(msgid, C.Msg):
            self.tcalls.append(("<msg>", dict(mapping) if mapping else None, default, domain, context, target_language))
        return C.tf_result(self.variant, msgid, mapping, default)

    def __init__(self, vf, names):
        self.tcalls = []
        self.vf = vf
        self.names = names
        self.script = {}
        self.calls = []       # k in call order
        self.snaps = []       # (k, env)
        self.handled = []     # exception class names
        self.extra = False
        self.shared_exc = False
        self.exc_cache = {}
        self.carrier = None   # Python carrier of the sequences that tal:repeat iterates (list by default)
        self.rep_ks = set()

    def load(self, log):
        self.script = {}
        self.calls = []
        self.snaps = []
        self.handled = []
        self.extra = False
        self.raised = None
        self.exc_cache = {}
        self.tcalls = []
        for ev in log:
            if ev["ev"] == "call":
                self.script.setdefault(ev["k"], []).append(ev["r"])

    def e(self, k, *a):
        self.calls.append(k)
        q = self.script.get(k)
        if not q:
            self.extra = True
            return None
        r = q.pop(0)
        if r["t"] == "exc":
            if self.shared_exc:
                # a failing lookup that is memoised by the application: the very same exception object every time
                self.raised = self.exc_cache.setdefault(r["c"], C.make_exc(r["c"]))
            else:
                self.raised = C.make_exc(r["c"])
            raise self.raised
        v = self.vf.make(r)
        if self.carrier and k in self.rep_ks and r["t"] == "seq" and not r.get("once"):
            v = C.CARRIERS[self.carrier](v)
            self.vf.back[id(v)] = (v, r)
        return v

    def snap(self, k, econtext):
        env = {}
        for n in self.names:
            try:
                v = econtext[n]
            except KeyError:
                env[n] = {"t": "undef"}
            else:
                env[n] = self.vf.abstract(v)
        self.snaps.append((k, env))
        return None

    def handler(self, exc):
        self.handled.append(type(exc).__name__)


class FalsyHandler:
    """an error log that is a callable AND a container: false while it is empty"""

    def __init__(self, rec):
        self.rec = rec

    def __call__(self, exc):
        self.rec.handler(exc)

    def __len__(self):
        return 0


RENDER_GROUP = {"sub": 0, "omit": 1, "attr": 2}


def site_of_calls(p):
    """k -> (i, s, j) by static scan (k is unique per site in generated programs)"""
    m = {}

    def scan(e, site):
        x = e.get("x")
        if x == "call":
            m.setdefault(e["k"], site)
        for key in ("e",):
            if isinstance(e.get(key), dict):
                scan(e[key], site)
        for key in ("es", "ps"):
            for a in e.get(key, []):
                scan(a, site)
    for i, it in enumerate(p["items"], 1):
        if it["k"] == "open":
            for j, d in enumerate(it["def"], 1):
                scan(d["e"], (i, "def", j))
            scan(it["sw"], (i, "sw", 0))
            scan(it["cs"], (i, "case", 0))
            scan(it["cond"], (i, "cond", 0))
            scan(it["rep"]["e"], (i, "rep", 0))
            scan(it["sub"]["e"], (i, "sub", 0))
            scan(it["omit"]["e"], (i, "omit", 0))
            for j, d in enumerate(it["dattr"], 1):
                scan(d["e"], (i, "attr", j))
            scan(it["oe"]["e"], (i, "oe", 0))
        elif it["k"] == "text":
            for j, part in enumerate(it["parts"], 1):
                scan(part, (i, "text", j))
        elif it["k"] == "code":
            scan(it["e"], (i, "code", 0))
    return m


def normalise_calls(ks, sites):
    """stable-sort contiguous calls of one element's render group
    {replace/content, omit-tag, attributes} by kind (DESIGN 3.2)"""
    out = []
    run = []

    def flush():
        run.sort(key=lambda t: t[0])
        out.extend(k for _, k in run)
        del run[:]
    cur = None
    for n, k in enumerate(ks):
        s = sites.get(k)
        if s and s[1] in RENDER_GROUP:
            if cur is not None and cur != s[0]:
                flush()
            cur = s[0]
            run.append(((RENDER_GROUP[s[1]], s[2], n), k))
        else:
            flush()
            cur = None
            out.append(k)
    flush()
    return out


class Replayer:
    """compiles one concrete template of program p and replays behaviours"""

    def __init__(self, p, names, perm=0, options=None, concretizer=None, variant=None):
        PageTemplate, DEFAULT_MARKER = _chameleon()
        self.p = p
        self.names = names
        self.vf = C.ValueFactory(DEFAULT_MARKER)
        # perm // 1000: line endings of the compiled sources (0 LF, 1 CRLF, 2 CR); expectations are those of the LF text
        self.eol = {0: "\n", 1: "\r\n", 2: "\r"}[perm // 1000]
        perm = perm % 1000
        self.c = (concretizer or C.concretize)(p, perm)
        self.rec = Recorder(self.vf, names)
        self.sites = site_of_calls(p)
        self.options = dict(options or {})
        self.rec.carrier = self.options.pop("_carrier", None)
        self.rec.shared_exc = (perm % 2 == 1)
        self.rec.rep_ks = {k for k, site in self.sites.items() if site[1] == "rep"}
        self.variant = variant or self.options.pop("_translate_variant", None)
        if self.variant:
            self.rec.variant = self.variant
            self.options["translate"] = self.rec.translate
        if perm // 100 == 3:
            self.options["enable_data_attributes"] = True
        self.compile_error = None
        self.libs = []
        # (the handler is any callable: a bound method, or -- odd permutations -- a callable container that is false)
        handler = FalsyHandler(self.rec) if perm % 2 == 1 else self.rec.handler
        try:
            self.t = PageTemplate(self.c.source.replace("\n", self.eol), on_error_handler=handler, **self.options)
            self.t.cook_check()
            for src in self.c.srcs[1:]:
                lt = PageTemplate(src.replace("\n", self.eol), on_error_handler=handler, **self.options)
                lt.cook_check()
                self.libs.append(lt)
        except Exception as e:      # compile-time failure
            self.t = None
            self.compile_error = e

    def run(self, rec):
        """returns (ok, what) -- total verdict for one behaviour"""
        if self.t is None:
            return False, "template does not compile: %s: %s" % (type(self.compile_error).__name__,
                                                                 str(self.compile_error).splitlines()[0:1])
        r = self.rec
        r.load(rec["log"])
        kw = {"e": r.e, "snap": r.snap, "T0": self.t}
        for n, lt in enumerate(self.libs, 1):
            kw["T%d" % n] = lt
        for n, v in self.p.get("init", {}).items():
            if v["t"] != "undef":
                kw[n] = self.vf.make(v)
        text = None
        err = None
        try:
            text = self.t.render(**kw)
        except BaseException as e:   # noqa
            err = e
        # ---- result kind
        if rec["res"] == "ok":
            if err is not None:
                return False, "spec renders, code raises %s: %s" % (type(err).__name__, str(err).splitlines()[:1])
            segs = C.print_atoms(rec["out"], self.c, self.p, self.vf, None, rec["log"], self.variant or "identity")
            ok, why = C.match_segments(segs, C.norm_entities(text))
            if not ok:
                return False, "text: " + why
        else:
            if err is None:
                return False, "spec fails with %s, code renders %r" % (rec["exc"]["c"], text)
            bad = self.check_failure(rec, err)
            if bad:
                return False, bad
        # ---- call log
        want = [ev["k"] for ev in rec["log"] if ev["ev"] == "call"]
        got = list(r.calls)
        if r.extra or normalise_calls(want, self.sites) != normalise_calls(got, self.sites):
            return False, "call log: spec %s, code %s" % (want, got)
        # ---- snapshots
        wsn = [(ev["k"], ev["env"]) for ev in rec["log"] if ev["ev"] == "snap"]
        if len(wsn) != len(r.snaps):
            return False, "snapshots: spec %d, code %d" % (len(wsn), len(r.snaps))
        for (k1, e1), (k2, e2) in zip(wsn, r.snaps):
            if k1 != k2:
                return False, "snapshot order: spec %s code %s" % (k1, k2)
            for n in self.names:
                if n in ("error",):
                    a, b = e1.get(n, {}).get("t"), e2.get(n, {}).get("t")
                    if a != b:
                        return False, "snapshot %d: %s spec %s code %s" % (k1, n, e1.get(n), e2.get(n))
                elif _strip(e1.get(n)) != _strip(e2.get(n)):
                    return False, "snapshot %d: %s spec %s code %s" % (k1, n, e1.get(n), e2.get(n))
        # ---- translation calls (C10): message id, mapping, default, domain, context, target -- in order
        if self.variant:
            wt = C.expected_translate_calls(rec["log"], self.c, self.p, self.vf, self.variant)
            gt = r.tcalls
            if wt != gt:
                k = next((n for n in range(min(len(wt), len(gt))) if wt[n] != gt[n]), min(len(wt), len(gt)))
                return False, "translate calls differ at call %d: spec %s, code %s" % (
                    k + 1, wt[k] if k < len(wt) else "(none)", gt[k] if k < len(gt) else "(none)")
        # ---- handler calls
        wh = [ev["c"] for ev in rec["log"] if ev["ev"] == "handler"]
        if wh != r.handled:
            return False, "on_error_handler calls: spec %s, code %s" % (wh, r.handled)
        return True, None


def _check_failure(self, rec, err):
    """C12: type preserved, RenderError mixed in for Exceptions only, args
    preserved, message names the failing expression and its position"""
    import re
    from chameleon.exc import RenderError
    cname = rec["exc"]["c"]
    want = C.EXC_CLASSES.get(cname)
    if cname == "ExpressionError":
        from chameleon.exc import ExpressionError
        want = ExpressionError
    if want is None:
        if cname not in [k.__name__ for k in type(err).__mro__]:
            return "exception class: spec %s, code %s" % (cname, type(err).__name__)
        return None
    if not isinstance(err, want):
        return "exception class: spec %s, code %s: %s" % (cname, type(err).__name__, str(err).splitlines()[:1])
    if not issubclass(want, Exception):
        if isinstance(err, Exception):
            return "%s was turned into an Exception subclass (%s)" % (cname, [k.__name__ for k in type(err).__mro__])
        return None
    if want is RecursionError:
        if isinstance(err, RenderError):
            return "RecursionError was wrapped"
        return None
    if not isinstance(err, RenderError):
        return "%s raised by render() is not a RenderError" % cname
    calls = [ev for ev in rec["log"] if ev["ev"] == "call"]
    scripted = bool(calls) and calls[-1]["r"].get("t") == "exc" and calls[-1]["r"].get("c") == cname \
        and rec["log"][-1]["ev"] == "call"
    orig = self.rec.raised if scripted else None
    if orig is not None and type(orig) is want and tuple(err.args) != tuple(orig.args):
        return "exception args: original %r, raised %r" % (orig.args, err.args)
    site = rec["exc"].get("site")
    if site and site.get("i"):
        info = self.c.sites.get((site["i"], site["s"], site["j"]))
        if info is not None and cname == "ExpressionError":
            # C19: the deferred error is the one strict compilation reports: token and offset of the reached site
            tok = getattr(err, "token", None)
            src_text = info.get("encoded") or info["text"]
            if tok is None or str(tok).strip() not in (info["text"], src_text) and str(tok).strip() not in src_text:
                return "ExpressionError token %r, the reached invalid expression is %r" % (tok, info["text"])
            lo, hi = info["offset"], info["offset"] + len(src_text)
            if not (lo <= getattr(tok, "pos", -1) <= hi):
                return "ExpressionError reports offset %s, the reached invalid expression %r stands at %d" % (
                    getattr(tok, "pos", None), info["text"], lo)
        if info is not None:
            msg = str(err)
            recs = re.findall(r' - Expression: "(.*?)"\n - Filename:   (.*?)\n - Location:   \(line (\d+): col (\d+)\)', msg, re.S)
            if not recs:
                return "message carries no expression/location record: %r" % msg[:200]
            ex, fn, ln, col = recs[0]
            line, column = self.c.linecol(info["offset"], info.get("tmpl", 0))
            # the named text is the failing expression or, for prefixed / piped
            # expressions, the part of it that failed -- at the position where
            # exactly that text stands
            src_text = info.get("encoded") or info["text"]
            cands = []
            for txt in {info["text"], src_text}:
                start = txt.find(ex)
                while ex and start >= 0:
                    # the named part is a whole sub-expression: it starts at the beginning, after a type prefix,
                    # after "${" or after "|", and ends at the end, before "}" or before "|"
                    before, after = txt[:start].rstrip(), txt[start + len(ex):].lstrip()
                    if (before == "" or before.endswith((":", "${", "|"))) and (after == "" or after.startswith(("}", "|"))):
                        cands.append(self.c.linecol(info["offset"] + start, info.get("tmpl", 0)))
                    start = txt.find(ex, start + 1)
            if ex not in (info["text"], src_text) and os.environ.get("VERIF_EXLOG"):
                open(os.environ["VERIF_EXLOG"], "a").write(repr((ex, info["text"], src_text)) + "\n")
            tag = ""
            if site["i"] in self.filler_items():
                # failure inside a slot filler (recorded deviation of C12, if listed)
                tag = "KNOWN[FillerErrorMisattributed] "
            if not tag and any(k[0] == site["i"] and k[1] == site["s"] and v.get("encoded", v["text"]) != v["text"]
                               for k, v in self.c.sites.items()):
                # the statement value contains a character entity: token texts / positions refer to the decoded value
                # (recorded deviation of C12, if listed; same root cause as the C11 finding expr-define-after-entity)
                tag = "KNOWN[EntityShiftsToken] "
            if not cands:
                return tag + "message names expression %r, failing expression is %r" % (ex, info["text"])
            if (int(ln), int(col)) not in cands:
                return tag + "message locates %r at (%s, %s), it stands at %s" % (ex, ln, col, cands)
            # the enclosing macro call sites, innermost to outermost
            want_sites = [s for s in rec["exc"].get("sites", [])]
            got_sites = recs[1:]
            if len(got_sites) != len(want_sites):
                return tag + "message lists %d enclosing call sites %s, the machine has %d" % (
                    len(got_sites), [g[0] for g in got_sites], len(want_sites))
            for g, w in zip(got_sites, want_sites):
                winfo = self.c.sites.get((w["i"], w["s"], w["j"]))
                if winfo is None:
                    continue
                wl, wc = self.c.linecol(winfo["offset"], winfo.get("tmpl", 0))
                if g[0] != winfo["text"] or (int(g[2]), int(g[3])) != (wl, wc):
                    return tag + "call site %r at (%s, %s), expected %r at (%d, %d)" % (g[0], g[2], g[3], winfo["text"], wl, wc)
    return None


def _filler_items(self):
    if not hasattr(self, "_fi"):
        fi = set()
        depth = []
        for i, it in enumerate(self.p["items"], 1):
            if it["k"] == "open":
                depth.append(bool(it.get("fs")) or (bool(depth) and depth[-1]))
            elif it["k"] == "close":
                depth.pop()
                continue
            if depth and depth[-1]:
                fi.add(i)
        self._fi = fi
    return self._fi


Replayer.check_failure = _check_failure
Replayer.filler_items = _filler_items


def _strip(v):
    if isinstance(v, dict):
        return {k: _strip(x) for k, x in v.items() if k not in ("once",)}
    if isinstance(v, list):
        return [_strip(x) for x in v]
    return v
