"""Child-process driver for the module cache checks (C15) -- run as

    CHAMELEON_CACHE=<dir> MALTHE_CHAMELEON_VERIF=1 python cache_driver.py <json job>

job: {"cases": [{"cls": "PageTemplate"|"PageTextTemplate"|"PageTemplateFile", "body": ..., "options": {...},
                 "kwargs": {...}, "filename": ...}],
      "crash_at": label or null,     # os._exit(77) when this hook label is reached
      "sync": [rfd, wfd] or null}    # schedule control: report each label, wait for a byte
Prints one JSON line per case: {"out": ... | "exc": ...}.
"""
import json
import os
import sys

REPO_SRC = os.environ.get("VERIF_REPO_SRC", "/repo/src")
sys.path.insert(0, REPO_SRC)


def main():
    job = json.loads(sys.argv[1])
    from chameleon import _verif
    sync = job.get("sync")
    crash_at = job.get("crash_at")
    LABELS = ("build.locked", "build.mkstemp", "build.header", "build.body", "build.closed", "build.renamed", "build.compiled")

    def cb(label, info):
        if label == "build.header" or label == "build.body":
            try:
                info["temp"].flush()
            except Exception:
                pass
        if label == "build.mkstemp" and os.environ.get("CHAMELEON_CACHE"):
            if os.path.dirname(os.path.abspath(info["temp"])) != os.path.abspath(os.environ["CHAMELEON_CACHE"]):
                print(json.dumps({"exc": "TEMPORARY-FILE-OUTSIDE-THE-CACHE-DIRECTORY %s" % info["temp"]}), flush=True)
                os._exit(3)
        if crash_at and label == crash_at:
            os._exit(77)
        if sync and label in LABELS:
            os.write(sync[1], (label + "\n").encode())
            os.read(sync[0], 1)
    _verif.set_callback(cb)
    import chameleon
    from chameleon import PageTemplate, PageTextTemplate, PageTemplateFile

    def tr(msgid, **kw):
        return "T[%s]" % msgid if isinstance(msgid, str) else msgid

    def tok(body, filename=None):
        from chameleon.tokenize import iter_xml
        for t in iter_xml(body.replace("@@", "!!"), filename):
            yield t
    if job.get("fsize_limit"):
        # the storage runs out while the module is written: writes beyond the limit fail with EFBIG
        import resource
        import signal
        signal.signal(signal.SIGXFSZ, signal.SIG_IGN)
        resource.setrlimit(resource.RLIMIT_FSIZE, (job["fsize_limit"], job["fsize_limit"]))
    for case in job["cases"]:
        opts = dict(case.get("options", {}))
        xbv = opts.pop("_xbv", None)
        if xbv:
            # the same builtin NAMES with other values: one cache entry may serve both, each object with its own values
            opts["extra_builtins"] = {"site": xbv, "shout": (str.upper if xbv == "alpha" else str.lower)}
        xb = opts.pop("_xb", None)
        if xb:
            opts["extra_builtins"] = {n: n.upper() for n in xb.split("|")}
        if opts.pop("_translate", False):
            opts["translate"] = tr
        if opts.pop("_tokenizer", False):
            opts["tokenizer"] = tok
        base_cls = None
        which = opts.pop("_exprtype", None)
        if which:
            # an application-defined expression type built with functools.partial (the way load: is built):
            # the bound values are part of the configuration
            from functools import partial
            from chameleon.tales import ProxyExpr

            class SiteTemplate(PageTemplate):
                expression_types = dict(PageTemplate.expression_types, fmt=partial(ProxyExpr, "__" + which))
            base_cls = SiteTemplate
            opts["extra_builtins"] = {"__upper": str.upper, "__lower": str.lower, "__title": str.title}
        for k in ("boolean_attributes", "implicit_i18n_attributes"):
            if k in opts and opts[k] is not None:
                opts[k] = set(opts[k])
        try:
            cls = {"PageTemplate": PageTemplate, "PageTextTemplate": PageTextTemplate, "PageTemplateFile": PageTemplateFile}[case["cls"]]
            arg = case["filename"] if case["cls"] == "PageTemplateFile" else case["body"]
            if base_cls is not None and case["cls"] == "PageTemplate":
                cls = base_cls
            t = cls(arg, **opts)
            out = t(**case.get("kwargs", {}))
            print(json.dumps({"out": out}), flush=True)
        except BaseException as e:
            print(json.dumps({"exc": type(e).__name__}), flush=True)
    if sync:
        os.write(sync[1], b"done\n")


if __name__ == "__main__":
    main()
