"""C16 -- file templates follow their files; the loader resolves names predictably.

Spec: specs/FileTemplate.tla -- files with versions and modification times,
file templates (last seen time, cooked flag, served version, macro set, cook
count), a loader with a search path and a registry.  TLC checks ServesLatest,
NothingFromEarlierVersions, NoRecompileWhenUnchanged and SameInstance on all
histories up to a bound (BFS) and samples longer ones (simulation); every
history is replayed on a scratch directory with modification times SET by
os.utime: after every step the render output, macros.names, the rendering of
a macro, content_type, the cook count (counting subclass) and the identity /
directory of loader results are compared with the specification.
Name-resolution rules of the loader (absolute paths, default extension only
for dot-less names, package specs, load: relative to the template first) are
checked directly.
"""
from __future__ import annotations

from harness import REPO_SRC  # noqa: E402

import json
import multiprocessing
import os
import random
import shutil
import sys
import tempfile

from ..pipeline import workdir
from ..tla import run_tlc

MC = """---- MODULE MCFile ----
EXTENDS FileTemplate, Json
MCDirs == <<1, 2>>
MCNames == {"a", "b"}
MCDev == {}
Emit == Len(hist) = MaxOps => PrintT(ToJson([init |-> [k \\in DOMAIN files0 |-> files0[k]], hist |-> hist]))
EmitAll == PrintT(ToJson([hist |-> hist]))
====
"""



def mtime_ns(mt):
    """model clock -> file time: quarter-second ticks, so that consecutive model times fall within one second"""
    return (4000 + mt) * 250_000_000

def body(n, v):
    if v == 4:
        return '<html><p tal:content="][">v4 of %s does not compile</p></html>' % n
    macros = {1: ["m1", "m2"], 2: ["m2", "m3"], 3: []}[v]
    src = "".join('<b metal:define-macro="%s">%s-v%d-%s</b>' % (m, m, v, n) for m in macros)
    doc = "<html><p>v%d of %s</p>%s<input checked=\"${True}\" /></html>" % (v, n, src)
    return ('<?xml version="1.0"?>\n' + doc) if v == 3 else doc


def rendered(n, v):
    """what version v renders: macro statements gone; checked="${True}" is an implicit boolean attribute of an HTML
    document, an ordinary attribute of an XML document"""
    out = body(n, v)
    for m in ("m1", "m2", "m3"):
        out = out.replace(' metal:define-macro="%s"' % m, "")
    return out.replace('checked="${True}"', 'checked="True"' if v == 3 else 'checked="checked"')


def _replay(args):
    recs, seed = args
    sys.path.insert(0, REPO_SRC)
    from chameleon import PageTemplateFile
    from chameleon.zpt.loader import TemplateLoader
    out = []
    n = 0

    class Counting(PageTemplateFile):
        cooks = 0

        def cook(self, body):
            self.cooks += 1
            return super().cook(body)
    for rec in recs:
        root = tempfile.mkdtemp(prefix="c16_")
        try:
            dirs = {1: os.path.join(root, "d1"), 2: os.path.join(root, "d2")}
            for d in dirs.values():
                os.mkdir(d)

            def write(d, name, v, mt):
                p = os.path.join(dirs[d], name + ".pt")
                with open(p, "w") as f:
                    f.write(body(name, v))
                os.utime(p, ns=(mtime_ns(mt), mtime_ns(mt)))
            # initial files: replay derives them from the first-state dump
            for key, val in rec["init"].items():
                pass
            inits = rec["init"]
            for k, val in inits.items():
                if val["ver"]:
                    d, name = json.loads(k.replace("<<", "[").replace(">>", "]")) if k.startswith("<<") else (None, None)
                    write(d, name, val["ver"], val["mt"])
            loader = TemplateLoader([dirs[1], dirs[2]], default_extension="pt", auto_reload=True, formats={"xml": Counting, "text": Counting})
            tpls = {}
            for step, op in enumerate(rec["hist"]):
                k = op["op"]
                n += 1
                why = None
                try:
                    if k == "write":
                        write(op["d"], op["n"], op["v"], op["mt"])
                    elif k == "touch":
                        p = os.path.join(dirs[op["d"]], op["n"] + ".pt")
                        os.utime(p, ns=(mtime_ns(op["mt"]), mtime_ns(op["mt"])))
                    elif k == "open":
                        tpls[op["t"]] = Counting(os.path.join(dirs[op["d"]], op["n"] + ".pt"), auto_reload=op["auto"])
                    elif k in ("render", "macros", "usemacro") and op.get("err"):
                        # the file's current version does not compile: the use raises (and nothing older is served)
                        t = tpls[op["t"]]
                        try:
                            if k == "render":
                                got = t()
                            elif k == "macros":
                                got = sorted(t.macros.names)
                            else:
                                got = t.macros[op["m"]]
                            why = "the file's current version does not compile, but the call returned %r" % (got,)
                        except KeyError:
                            why = "the file's current version does not compile, but the macro lookup answered from an earlier version"
                        except Exception:   # noqa
                            if "cooks" in op and t.cooks != op["cooks"]:
                                why = "compiled %d times, specification %d" % (t.cooks, op["cooks"])
                    elif k == "render":
                        t = tpls[op["t"]]
                        got = t()
                        name = os.path.basename(t.filename)[:-3]
                        want = rendered(name, op["ver"])
                        if got != want:
                            why = "render returns %r, the specification serves version %d: %r" % (got, op["ver"], want)
                        elif t.content_type != op["ctype"]:
                            why = "content_type %r, specification %r" % (t.content_type, op["ctype"])
                        elif t.cooks != op["cooks"]:
                            why = "compiled %d times, specification %d" % (t.cooks, op["cooks"])
                    elif k == "macros":
                        t = tpls[op["t"]]
                        got = sorted(t.macros.names)
                        if got != sorted(op["names"]):
                            why = "macros.names %s, specification %s" % (got, sorted(op["names"]))
                        elif t.cooks != op["cooks"]:
                            why = "compiled %d times, specification %d" % (t.cooks, op["cooks"])
                    elif k == "usemacro":
                        t = tpls[op["t"]]
                        name = os.path.basename(t.filename)[:-3]
                        try:
                            m = t.macros[op["m"]]
                            stream = []
                            from chameleon.utils import Scope
                            m.include(stream, Scope({"__translate": None, "__decode": None, "__on_error_handler": None, "target_language": None}), {})
                            got = "".join(stream)
                            found = True
                        except KeyError:
                            found = False
                            got = None
                        if found != op["found"]:
                            why = "macro %s found: %s, specification: %s" % (op["m"], found, op["found"])
                        elif found and got != "<b>%s-v%d-%s</b>" % (op["m"], op["ver"], name):
                            why = "macro %s renders %r, specification: version %d" % (op["m"], got, op["ver"])
                    elif k == "load":
                        try:
                            t = loader.load(op["n"])
                            found = True
                        except ValueError:
                            found = False
                            t = None
                        if found != op["found"]:
                            why = "load(%r) found: %s, specification: %s" % (op["n"], found, op["found"])
                        elif found:
                            if op["t"] in tpls and tpls[op["t"]] is not t:
                                why = "load(%r) returned a different instance for the same name" % op["n"]
                            tpls[op["t"]] = t
                            if os.path.dirname(t.filename) != dirs[op["d"]]:
                                why = "load(%r) resolved to %s, the first match along the path is %s" % (op["n"], t.filename, dirs[op["d"]])
                except Exception as e:
                    why = "raised %s: %s" % (type(e).__name__, str(e).splitlines()[:1])
                if why and len(out) < 5:
                    out.append(("history %s, step %d (%s): %s" % ([o["op"] for o in rec["hist"]], step + 1, json.dumps(op), why),
                                dict(history=rec["hist"], init=rec["init"])))
                    break
        finally:
            shutil.rmtree(root, ignore_errors=True)
    return n, out


def run_model(ctx, maxops, simulate=None):
    wd = workdir("filetpl")
    try:
        open(os.path.join(wd, "MCFile.tla"), "w").write(MC)
        open(os.path.join(wd, "MCFile.cfg"), "w").write(
            "SPECIFICATION Spec\nCONSTANTS\n Dirs <- MCDirs\n FNames <- MCNames\n Vers = %s\n MaxOps = %d\n Dev <- MCDev\n"
            "INVARIANT ServesLatest\nINVARIANT NothingFromEarlierVersions\nINVARIANT Emit\nPROPERTY NoRecompileWhenUnchanged\nPROPERTY SameInstance\n" % (
                # (the version that does not compile takes part in the simulated, longer histories)
                "{1, 2, 3, 4}" if simulate else "{1, 2, 3}", maxops))
        r = run_tlc("MCFile", "MCFile.cfg", wd, workers=1, timeout=3000, java_opts=["-Xmx8g"],
                    simulate=("num=%d" % simulate) if simulate else None, depth=(maxops + 2) if simulate else None,
                    seed=ctx.seed if simulate else None)
    finally:
        shutil.rmtree(wd, ignore_errors=True)
    if r.violation:
        ctx.violation("TLC: %s violated on FileTemplate" % r.violation, dict(kind="tlc", tail=r.stdout[-2500:]))
        return []
    if not r.ok():
        ctx.fail("FileTemplate run failed: %s %s" % (r.error, r.stdout[-1500:]))
        return []
    ctx.states += r.distinct
    ctx.transitions += r.states
    ctx.parts.append(dict(tag="FileTemplate" + (".sim" if simulate else ".bfs"), states=r.states, behaviours=len(r.records), wall_tlc=r.wall))
    return r.records


def loader_rules(ctx):
    """name resolution rules checked directly"""
    sys.path.insert(0, REPO_SRC)
    from chameleon import PageTemplateFile
    from chameleon.zpt.loader import TemplateLoader
    root = tempfile.mkdtemp(prefix="c16l_")
    n = 0
    try:
        d1, d2 = os.path.join(root, "d1"), os.path.join(root, "d2")
        os.mkdir(d1)
        os.mkdir(d2)
        for d, names in ((d1, ["x.pt", "noext", "dot.ted.pt", "inc.pt"]), (d2, ["x.pt", "y.pt", "noext.pt", "inc.pt"])):
            for nm in names:
                open(os.path.join(d, nm), "w").write("<p>%s in %s</p>" % (nm, os.path.basename(d)))
        open(os.path.join(d2, "main.pt"), "w").write('<div tal:define="t load: inc.pt" metal:use-macro="t" />')
        open(os.path.join(d1, "main1.pt"), "w").write('<div tal:define="t load: y.pt" metal:use-macro="t" />')

        def check(label, got, want):
            nonlocal n
            n += 1
            if got != want:
                ctx.violation("loader: %s: got %r, expected %r" % (label, got, want), dict(kind="loader"))
        L = TemplateLoader([d1, d2], default_extension="pt")
        check("first match along the path", L.load("x.pt")(), "<p>x.pt in d1</p>")
        check("second directory when the first lacks the name", L.load("y.pt")(), "<p>y.pt in d2</p>")
        check("default extension added to a dot-less name", L.load("y")(), "<p>y.pt in d2</p>")
        check("default extension not added to a name with a dot", L.load("dot.ted.pt")(), "<p>dot.ted.pt in d1</p>")
        check("dot-less name gets the extension even if the bare name exists", L.load("noext")(), "<p>noext.pt in d2</p>")
        check("absolute path honoured", L.load(os.path.join(d2, "x.pt"))(), "<p>x.pt in d2</p>")
        check("same instance for the same name", L.load("x.pt") is L.load("x.pt"), True)
        # a dot anywhere in the name counts: no extension is added
        os.mkdir(os.path.join(d1, "v1.0"))
        for nm in ("v1.0/page", "v1.0/page.pt", "macros", "macros.pt"):
            open(os.path.join(d1, nm), "w").write("<p>%s literal</p>" % nm)
        check("dotted directory, extension-less base name: taken literally", L.load("v1.0/page")(), "<p>v1.0/page literal</p>")
        check("./ prefix: taken literally", L.load("./macros")(), "<p>macros literal</p>")
        check("dot-less name next to a literal file of that name", L.load("macros")(), "<p>macros.pt literal</p>")
        L2 = TemplateLoader([d1, d2])
        check("no default extension: bare name", L2.load("noext")(), "<p>noext in d1</p>")
        try:
            L2.load("missing.pt")
            check("missing name raises ValueError", "no error", "ValueError")
        except ValueError:
            check("missing name raises ValueError", "ValueError", "ValueError")
        check("package-relative spec", "Hello world" in TemplateLoader()["chameleon.tests:inputs/hello_world.pt"](), True)
        check("package spec in the search path", "Hello world" in TemplateLoader(["chameleon.tests:inputs"])["hello_world.pt"](), True)
        # load: inside a file template looks next to that template first
        check("load: relative to the template first", PageTemplateFile(os.path.join(d2, "main.pt"), search_path=[d1])(), "<p>inc.pt in d2</p>")
        check("load: falls back to the search path", PageTemplateFile(os.path.join(d1, "main1.pt"), search_path=[d2])(), "<p>y.pt in d2</p>")
        # a search path that mixes package entries and plain directories (absolute and relative to the working directory):
        # a name that the package entry lacks is found in the directory -- as a file of that directory
        cwd = os.getcwd()
        try:
            os.chdir(root)
            os.mkdir(os.path.join(root, "rel"))
            open(os.path.join(root, "rel", "only_here.pt"), "w").write('<p>only_here in rel <i tal:define="t load: beside.pt" metal:use-macro="t" /></p>')
            open(os.path.join(root, "rel", "beside.pt"), "w").write("<i>beside in rel</i>")
            for path in (["chameleon.tests:inputs", "rel"], ["chameleon.tests:inputs", os.path.join(root, "rel")],
                         ["rel", "chameleon.tests:inputs"], ["chameleon.tests:outputs", "chameleon.tests:inputs", "rel"]):
                Lp = TemplateLoader(path)
                try:
                    got = Lp.load("only_here.pt")()
                except Exception as e:   # noqa
                    got = "EXC %s: %s" % (type(e).__name__, str(e).splitlines()[:1])
                check("search path %s: a name only the directory holds" % path, got, "<p>only_here in rel <i>beside in rel</i></p>")
                check("search path %s: a name the package holds" % path, "Hello world" in Lp.load("hello_world.pt")(), True)
        finally:
            os.chdir(cwd)
        # a template named through a symbolic link is the file the link points to NOW: re-pointing the link is a
        # modification of the named file; load: looks next to the NAMED path
        try:
            os.mkdir(os.path.join(root, "rel1"))
            os.mkdir(os.path.join(root, "rel2"))
            for k in (1, 2):
                open(os.path.join(root, "rel%d" % k, "page.pt"), "w").write('<p>release %d <i tal:define="t load: part.pt" metal:use-macro="t" /></p>' % k)
                open(os.path.join(root, "rel%d" % k, "part.pt"), "w").write("<i>part %d</i>" % k)
                os.utime(os.path.join(root, "rel%d" % k, "page.pt"), (5000 + k * 100, 5000 + k * 100))
            link = os.path.join(root, "current")
            os.symlink(os.path.join(root, "rel1"), link)
            t = PageTemplateFile(os.path.join(link, "page.pt"), auto_reload=True)
            check("template named through a directory link", t(), "<p>release 1 <i>part 1</i></p>")
            os.remove(link)
            os.symlink(os.path.join(root, "rel2"), link)
            check("the link re-pointed: the named file has changed", t(), "<p>release 2 <i>part 2</i></p>")
            check("filename stays the name that was given", t.filename, os.path.join(link, "page.pt"))
            # a link to a single file in another directory: load: looks next to the link
            os.mkdir(os.path.join(root, "site"))
            open(os.path.join(root, "site", "part.pt"), "w").write("<i>part of site</i>")
            os.symlink(os.path.join(root, "rel1", "page.pt"), os.path.join(root, "site", "page.pt"))
            check("load: next to the named path (a link)", PageTemplateFile(os.path.join(root, "site", "page.pt"))(), "<p>release 1 <i>part of site</i></p>")
        except OSError:
            pass    # no symbolic links here
        # one name requested in both formats: each format has its own instance of its own class, in either order
        from chameleon.zpt.template import PageTemplateFile as PTF, PageTextTemplateFile as PTTF
        open(os.path.join(d1, "both.pt"), "w").write("<p>${v}</p>")
        for order in (("text", "xml", "text", "xml"), ("xml", "text", "xml"), ("text", None, "xml")):
            Lf = TemplateLoader([d1])
            got = [Lf.load("both.pt", f) if f else Lf.load("both.pt") for f in order]
            for f, t in zip(order, got):
                check("format %s requested in the order %s: class" % (f, list(order)), type(t).__name__,
                      (PTTF if f == "text" else PTF).__name__)
                want = b"<p><&></p>" if f == "text" else "<p>&lt;&amp;&gt;</p>"
                check("format %s requested in the order %s: rendering" % (f, list(order)), t(v="<&>"), want)
            for i in range(len(order)):
                for j in range(i):
                    same = (order[i] or "xml") == (order[j] or "xml")
                    check("formats %s / %s of one name: same instance" % (order[j], order[i]), got[i] is got[j], same)
        # ... for every place of the template's own directory on (or off) the search path and every placement of the
        # loaded name: the first match along  [directory of the template] + search path
        import itertools
        dirs = {}
        for nm in ("e1", "e2", "e3"):
            dirs[nm] = os.path.join(root, nm)
            os.mkdir(dirs[nm])
            open(os.path.join(dirs[nm], "main_%s.pt" % nm), "w").write('<div tal:define="t load: part.pt" metal:use-macro="t" />')
        paths = [p for r in (1, 2, 3) for p in itertools.permutations(sorted(dirs), r)]
        for have in [h for r in (1, 2, 3) for h in itertools.combinations(sorted(dirs), r)]:
            for nm in dirs:
                fn = os.path.join(dirs[nm], "part.pt")
                if nm in have:
                    open(fn, "w").write("<p>part of %s</p>" % nm)
                elif os.path.exists(fn):
                    os.remove(fn)
            for path in paths:
                for tdir in sorted(dirs):
                    order = [tdir] + [p for p in path]
                    first = next((x for x in order if x in have), None)
                    want = "<p>part of %s</p>" % first if first else "ValueError"
                    for how in ("direct", "loader"):
                        if how == "loader" and tdir not in path:
                            continue
                        try:
                            if how == "direct":
                                t = PageTemplateFile(os.path.join(dirs[tdir], "main_%s.pt" % tdir), search_path=[dirs[x] for x in path])
                            else:
                                t = TemplateLoader([dirs[x] for x in path]).load("main_%s.pt" % tdir)
                            got = t()
                        except ValueError:
                            got = "ValueError"
                        except Exception as e:   # noqa
                            got = "EXC %s" % type(e).__name__
                        check("load: part.pt from a template in %s (%s), search path %s, part.pt present in %s" % (tdir, how, list(path), list(have)),
                              got, want)
                        if len(ctx.violations) > 6:
                            return
    finally:
        shutil.rmtree(root, ignore_errors=True)
    ctx.replays += n


def run(ctx):
    quick = ctx.tier == "quick"
    recs = run_model(ctx, 3 if quick else 4)
    if quick and len(recs) > 40000:
        recs = random.Random(ctx.seed).sample(recs, 40000)     # TLC checked all; replay a seeded sample
    recs += run_model(ctx, 8, simulate=1500 if quick else 20000)
    seen = {}
    for r in recs:
        seen[json.dumps(r, sort_keys=True)] = r
    recs = list(seen.values())
    ctx.behaviours += len(recs)
    chunks = [recs[i::16] for i in range(16)]
    with multiprocessing.get_context("fork").Pool(16) as pool:
        res = pool.map(_replay, [(c, ctx.seed + i) for i, c in enumerate(chunks)])
    for n, out in res:
        ctx.replays += n
        for text, payload in out[:2]:
            if len(ctx.violations) < 8:
                ctx.violation(text, dict(kind="filetemplate", **payload))
    ctx.nontrivial += len(recs)
    if recs:
        ctx.sample({"history": recs[len(recs) // 2]["hist"]})
    loader_rules(ctx)
    for f in ctx.known():
        ctx.witness(f)
    ctx.exhaustive = True
    ctx.rule = ("histories over {write version 1-3 (new mtime), touch, open with auto_reload on/off, render, list macros, "
                "use macro m1/m3, load name} on 2 files x 2 search directories: all histories of length %d (BFS) plus "
                "simulated histories of length 8; 13 loader resolution rules checked directly; non-trivial = every history" % (3 if quick else 4))
    ctx.assumptions += ["modification times are set with os.utime in steps of a quarter of a second (two saves within one second are distinct times), every write gets a new time (a rewrite within the same timestamp is outside)",
                        "versions differ in body, macro set and XML-ness"]
