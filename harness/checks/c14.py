"""C14 -- rendering is deterministic, side-effect free on its inputs, and thread-safe.

(a) specs/RenderHistory.tla: a render observes nothing but its arguments
    (NothingSurvivesARender, ArgsUnmodified, SameArgsSameText).  TLC enumerates
    every history of render calls on 2 instances x 3 argument sets up to a
    bound; each history is replayed on real templates with global definitions,
    repeat state, macros and code blocks: equal arguments give the identical
    string on the same instance, on a separately compiled instance and in a
    fresh process with another hash seed; argument objects are deep-compared
    before and after.
(b) specs/CookThreads.tla: the lazy compilation / reload protocol with one
    step per env-guarded hook point; TLC checks RenderSeesPublished and
    ResultIsSolo over all interleavings of two threads (three in thorough
    runs, sampled) for fresh and previously cooked templates; schedules are
    FORCED on real threads through the hooks (a scheduler releases one thread
    per step, the hook labels observed must be the model's), and every thread
    must return what it returns alone.  Plus free-running stress with a
    minimal switch interval on shared file templates and a shared loader.
"""
from __future__ import annotations

from harness import REPO_SRC  # noqa: E402

import copy
import json
import os
import random
import shutil
import subprocess
import sys
import tempfile
import threading

from ..pipeline import workdir
from ..tla import run_tlc

os.environ["MALTHE_CHAMELEON_VERIF"] = "1"

TEMPLATES = {
    "globals": '<a tal:define="global g x; h y"><b tal:repeat="i y">${repeat.i.number}:${i}</b>${g}</a>${g | None}${exists: h}',
    "macros": '<div><p metal:define-macro="m" tal:define="global seen x">M ${x} <i metal:define-slot="s">d</i></p>'
              '<q metal:use-macro="template.macros[\'m\']"><u metal:fill-slot="s">${y[0]}</u></q>${seen | \'no\'}</div>',
    "code": '<?python z = [v * 2 for v in y] ?><a tal:content="z" /><b tal:define="global keep z">${keep}</b>${x}',
    "dict": '<a tal:attributes="d" tal:repeat="k sorted(d)">${k}=${d[k]}</a>${sorted(s)}',
    "repeatstate": '<a tal:condition="x" tal:repeat="i y">${repeat.i.number}/${repeat.i.length}:${i}</a>[${exists: repeat.i}]'
                   '<b tal:repeat="i d">${repeat.i.index}</b>',
    "onerror": '<a tal:on-error="string:E ${error.type.__name__}" tal:define="global q y">${y[5]}</a>${q | \'-\'}',
    # what a template writes into `attrs` (or into any object the engine hands out) must not reach the next rendering
    "attrsdict": '<p class="a" tal:define="n attrs.setdefault(\'count\', 0); dummy attrs.update(count=n + len(y) + 1)">'
                 '${attrs[\'count\']}:${sorted(attrs)}</p><q tal:define="n attrs.setdefault(\'k\', x)">${attrs[\'k\']}</q>',
    # named blocks of a translation: the mapping reaches the translation function in one order in every process
    "namesorder": '<p i18n:translate="">A <b i18n:name="zeta">${x}</b> B <i i18n:name="alpha">1</i> C <u i18n:name="mid_1">2</u> '
                  'D <s i18n:name="beta9">3</s> E <em i18n:name="omega">4</em></p>',
    # an XML document (decided from its declaration when the file is read): no implicit boolean attributes, CRLF kept
    "xmldoc": '<?xml version="1.0"?>\r\n<a><input checked="${bool(x)}" disabled="${not x}" />\r\n<b tal:repeat="i y">${i}</b></a>',
    # collections of names inside the compiler (attributes named only in i18n:attributes, several dynamic attributes,
    # declarations, slots, macros): their order in the output is the document's, in every process
    "i18nattrs": '<img src="x" i18n:attributes="title; alt; longdesc; summary; label; accesskey" />'
                 '<a title="T" alt="A" lang="l" i18n:attributes="lang; alt l-id; title; name; rel" tal:attributes="rev x; rel x; type x">k</a>',
    "manynames": '<input a="1" b="2" c="3" zeta="4" tal:attributes="z x; y x; w x; checked x; b x; alpha x; m x" xmlns:q="urn:q" xmlns:p="urn:p" '
                 'xmlns:o="urn:o" q:r="1" p:r="2" o:r="3" /><b tal:define="a1 1; zz 2; m3 3; b4 4; k5 5">${a1}${zz}${m3}${b4}${k5}</b>'
                 '<u metal:define-macro="one">1<i metal:define-slot="s1">a</i><i metal:define-slot="zz">b</i><i metal:define-slot="m">c</i></u>'
                 '<u metal:define-macro="two">2</u><u metal:define-macro="aaa">3</u>${list(template.macros.names)}'
                 '<v metal:use-macro="template.macros[\'one\']"><w metal:fill-slot="zz">${x}</w><w metal:fill-slot="m">M</w><w metal:fill-slot="s1">S</w></v>',
}
TRANSLATE_SRC = ("def translate(msgid, domain=None, mapping=None, context=None, target_language=None, default=None):\n"
                 "    text = default if default is not None else str(msgid)\n"
                 "    if mapping:\n"
                 "        text = '[' + ','.join(mapping) + ']' + text\n"
                 "        for k, v in mapping.items():\n"
                 "            text = text.replace('${%s}' % k, str(v))\n"
                 "    return text\n"
                 # render-time options are arguments too: every argument set brings its own translation function (and
                 # encoding / target language); what a call returns depends on ITS arguments only
                 "def mk(tag):\n"
                 "    def tr(msgid, domain=None, mapping=None, context=None, target_language=None, default=None):\n"
                 "        return tag + str(target_language) + ':' + translate(msgid, domain, mapping, context, target_language, default)\n"
                 "    return tr\n"
                 "RKW = [{}, {'translate': mk('<1>'), 'encoding': 'utf-8'}, {'translate': mk('<2>'), 'encoding': 'utf-8', 'target_language': 'de'}]\n")
exec(TRANSLATE_SRC)
ARGS = [
    {"x": "<one>", "y": [1, 2], "d": {"b": "2", "a": "1"}, "s": {"p", "q"}},
    {"x": "two", "y": [], "d": {}, "s": set()},
    {"x": None, "y": [3], "d": {"class": None, "id": "i"}, "s": {"z"}},
]


def history_part(ctx, quick):
    sys.path.insert(0, REPO_SRC)
    from chameleon import PageTemplate
    wd = workdir("rhist")
    try:
        open(os.path.join(wd, "MCHist.tla"), "w").write(
            "---- MODULE MCHist ----\nEXTENDS RenderHistory, Json\nMCDev == {}\n"
            "Emit == n = MaxCalls => PrintT(ToJson([hist |-> hist]))\n====\n")
        open(os.path.join(wd, "MCHist.cfg"), "w").write(
            "SPECIFICATION Spec\nCONSTANTS\n Instances = {1, 2}\n ArgSets = {1, 2, 3}\n MaxCalls = %d\n Dev <- MCDev\n"
            "INVARIANT NothingSurvivesARender\nINVARIANT ArgsUnmodified\nINVARIANT SameArgsSameText\nINVARIANT Emit\n" % (3 if quick else 4))
        r = run_tlc("MCHist", "MCHist.cfg", wd, workers=1, timeout=900)
    finally:
        shutil.rmtree(wd, ignore_errors=True)
    if r.violation or not r.ok():
        ctx.fail("RenderHistory run failed: %s %s %s" % (r.violation, r.error, r.stdout[-800:]))
        return
    ctx.states += r.distinct
    ctx.transitions += r.states
    # reference outputs from a fresh process with another hash seed
    ref = {}
    job = json.dumps({"templates": TEMPLATES, "args": [{k: (sorted(v) if isinstance(v, set) else v) for k, v in a.items()} for a in ARGS]})
    code = ("import sys, json; sys.path.insert(0, %r)\nfrom chameleon" % REPO_SRC + " import PageTemplate\nj = json.loads(sys.argv[1])\nout = {}\n" + TRANSLATE_SRC +
            "for name, src in j['templates'].items():\n"
            "    for n, a in enumerate(j['args']):\n"
            "        a = dict(a); a['s'] = set(a['s'])\n"
            "        try: out['%s/%d' % (name, n)] = PageTemplate(src, translate=translate)(**a, **RKW[n])\n"
            "        except Exception as e: out['%s/%d' % (name, n)] = 'EXC ' + type(e).__name__\n"
            "print(json.dumps(out))\n")
    for seed in ("1", "12345"):
        p = subprocess.run(["/venv/bin/python", "-c", code, job], env=dict(os.environ, PYTHONHASHSEED=seed), capture_output=True, text=True)
        try:
            out = json.loads(p.stdout.strip().splitlines()[-1])
        except Exception:
            ctx.fail("reference process failed: %s" % p.stderr[-400:])
            return
        for k, v in out.items():
            if k in ref and ref[k] != v:
                ctx.violation("rendering differs between processes (hash seeds): %s: %r vs %r" % (k, ref[k], v), dict(kind="determinism"))
            ref[k] = v
    n = 0
    for rec in r.records:
        for name, src in TEMPLATES.items():
            insts = {1: PageTemplate(src, translate=translate), 2: PageTemplate(src, translate=translate)}
            for call in rec["hist"]:
                a = copy.deepcopy(ARGS[call["a"] - 1])
                before = copy.deepcopy(a)
                try:
                    got = insts[call["i"]](**a, **RKW[call["a"] - 1])
                except Exception as e:
                    got = "EXC " + type(e).__name__
                n += 1
                a.pop("repeat", None)
                if a != before:
                    ctx.violation("template %s modified its arguments: %r -> %r" % (name, before, a), dict(kind="determinism", source=src))
                want = ref["%s/%d" % (name, call["a"] - 1)]
                if got != want:
                    ctx.violation("template %s, history %s: call with argument set %d on instance %d returns %r; alone in a fresh process: %r" % (
                        name, [(c["i"], c["a"]) for c in rec["hist"]], call["a"], call["i"], got, want), dict(kind="determinism", source=src))
                    if len(ctx.violations) > 6:
                        return
    ctx.behaviours += len(r.records)
    ctx.replays += n
    ctx.nontrivial += len(r.records)
    ctx.sample({"history": [(c["i"], c["a"]) for c in r.records[-1]["hist"]], "templates": list(TEMPLATES)})
    file_histories(ctx, r.records)


FILES = {
    "main.pt": '<div><x tal:condition="extra" metal:use-macro="load: sub/widget.pt" />[<y metal:use-macro="load: footer.pt" />]</div>',
    "footer.pt": "<i>root footer</i>",
    "sub/widget.pt": '<b>widget(<z metal:use-macro="load: footer.pt" />)</b>',
    "sub/footer.pt": "<i>sub footer</i>",
}


def file_histories(ctx, records):
    """the same histories on FILE templates that share their inputs: one search-path list handed to two PageTemplateFile
    instances, and one PageTemplateLoader; a relative name exists in two directories.  Every call returns what it
    returns alone on fresh objects, and the list the caller passed in is not modified."""
    sys.path.insert(0, REPO_SRC)
    from chameleon import PageTemplateFile, PageTemplateLoader
    d = tempfile.mkdtemp(prefix="c14f_")
    n = 0
    try:
        for name, body in FILES.items():
            os.makedirs(os.path.dirname(os.path.join(d, name)), exist_ok=True)
            open(os.path.join(d, name), "w").write(body)
        argsets = {1: dict(extra=False), 2: dict(extra=True), 3: dict(extra=False)}

        def alone(a):
            return PageTemplateFile(os.path.join(d, "main.pt"), search_path=[d])(**argsets[a])
        ref = {a: alone(a) for a in argsets}
        for mode in ("shared-list", "shared-loader"):
            for rec in records:
                sp = [d]
                if mode == "shared-list":
                    insts = {1: PageTemplateFile(os.path.join(d, "main.pt"), search_path=sp),
                             2: PageTemplateFile(os.path.join(d, "main.pt"), search_path=sp)}
                else:
                    loader = PageTemplateLoader(sp)
                    insts = {1: loader.load("main.pt"), 2: PageTemplateLoader(sp).load("main.pt")}
                for call in rec["hist"]:
                    try:
                        got = insts[call["i"]](**argsets[call["a"]])
                    except Exception as e:
                        got = "EXC %s: %s" % (type(e).__name__, str(e).splitlines()[:1])
                    n += 1
                    if sp != [d]:
                        ctx.violation("file templates (%s): the search-path list passed by the caller was modified: %r" % (
                            mode, [os.path.relpath(x, d) for x in sp]), dict(kind="determinism-files", mode=mode))
                        return
                    if got != ref[call["a"]]:
                        ctx.violation("file templates (%s), history %s: call %s on instance %d returns %r; alone on fresh objects: %r" % (
                            mode, [(c["i"], c["a"]) for c in rec["hist"]], argsets[call["a"]], call["i"], got, ref[call["a"]]),
                            dict(kind="determinism-files", mode=mode, files=FILES))
                        return
                if mode == "shared-loader":
                    # a name that exists in two directories resolves through the shared loader as it does alone
                    got = loader.load("footer.pt")()
                    n += 1
                    if got != "<i>root footer</i>":
                        ctx.violation("shared loader: load('footer.pt') after the history %s renders %r; alone: '<i>root footer</i>'" % (
                            [(c["i"], c["a"]) for c in rec["hist"]], got), dict(kind="determinism-files", mode=mode))
                        return
    finally:
        shutil.rmtree(d, ignore_errors=True)
    ctx.replays += n
    ctx.notes["file_history_calls"] = n


# ------------------------------------------------------------------ forced thread schedules
class Forcer:
    def __init__(self, tmpl_getter):
        self.cv = threading.Condition()
        self.parked = {}        # tid -> label
        self.grant = {}
        self.labels = {}
        self.done = {}
        self.tids = {}
        self.tmpl_getter = tmpl_getter

    def callback(self, label, info):
        if not (label.startswith("check.") or label.startswith("cook.")):
            return
        tid = self.tids.get(threading.get_ident())
        if tid is None or info.get("template") is not self.tmpl_getter():
            return
        with self.cv:
            self.parked[tid] = label
            self.labels.setdefault(tid, []).append(label)
            self.cv.notify_all()
            self.cv.wait_for(lambda: self.grant.get(tid, 0) > 0, timeout=30)
            self.grant[tid] = self.grant.get(tid, 0) - 1
            self.parked.pop(tid, None)

    def run(self, schedule, nthreads, render):
        """schedule: list of thread ids; each entry lets that thread run to its next hook point (or to the end)"""
        results = {}
        threads = {}

        def body(tid):
            self.tids[threading.get_ident()] = tid
            try:
                results[tid] = render()
            except BaseException as e:
                results[tid] = "EXC %s: %s" % (type(e).__name__, e)
            with self.cv:
                self.done[tid] = True
                self.cv.notify_all()
        started = set()
        for tid in schedule:
            with self.cv:
                if tid not in started:
                    started.add(tid)
                    t = threading.Thread(target=body, args=(tid,), daemon=True)
                    threads[tid] = t
                    t.start()
                else:
                    if self.done.get(tid):
                        continue
                    self.grant[tid] = self.grant.get(tid, 0) + 1
                    self.cv.notify_all()
                # wait until the thread parks at its next hook point or finishes
                self.cv.wait_for(lambda: (tid in self.parked and self.grant.get(tid, 0) == 0) or self.done.get(tid), timeout=30)
        # release everybody
        with self.cv:
            for tid in started:
                self.grant[tid] = 10 ** 6
            self.cv.notify_all()
        for t in threads.values():
            t.join(30)
        return results


def threads_part(ctx, quick, rnd, nthreads=2):
    sys.path.insert(0, REPO_SRC)
    from chameleon import PageTemplateFile, _verif
    wd = workdir("cookthr")
    try:
        open(os.path.join(wd, "MCCook.tla"), "w").write(
            "---- MODULE MCCook ----\nEXTENDS CookThreads, Json\nMCDev == %s\n"
            "Emit == AllDone => PrintT(ToJson([fver |-> fver, auto |-> auto, fresh |-> fresh0, sched |-> sched, result |-> result,"
            " init |-> [last |-> 0]]))\n====\n" % ("{" + ", ".join('"%s"' % d for d in ctx.known_devs()) + "}"))
        cfg = ("SPECIFICATION Spec\nCONSTANTS\n Threads = {%s}\n Dev <- MCDev\nINVARIANT RenderSeesPublished\nINVARIANT ResultIsSolo\n"
               % ", ".join(str(k) for k in range(1, nthreads + 1)))
        # exhaustive check of the invariants (no dump)
        open(os.path.join(wd, "MCCook.cfg"), "w").write(cfg)
        if nthreads == 2:
            r = run_tlc("MCCook", "MCCook.cfg", wd, workers=8, timeout=1800, java_opts=["-Xmx8g"])
            if r.violation:
                ctx.violation("TLC: %s violated on CookThreads (two threads, all interleavings)" % r.violation, dict(kind="tlc", tail=r.stdout[-2500:]))
            elif not r.ok():
                ctx.fail("CookThreads run failed: %s %s" % (r.error, r.stdout[-800:]))
            ctx.states += r.distinct
            ctx.transitions += r.states
            ctx.parts.append(dict(tag="CookThreads.bfs", states=r.states, distinct=r.distinct, wall_tlc=r.wall))
        # schedules for forcing: simulation (with three threads this is also where the invariants are evaluated)
        open(os.path.join(wd, "MCCook.cfg"), "w").write(cfg + "INVARIANT Emit\n")
        num = (150 if quick else 3000) if nthreads == 2 else (80 if quick else 4000)
        r2 = run_tlc("MCCook", "MCCook.cfg", wd, workers=1, timeout=1800, simulate="num=%d" % num, depth=60, seed=ctx.seed)
        if r2.violation:
            ctx.violation("TLC: %s violated on CookThreads (%d threads, simulated schedules)" % (r2.violation, nthreads), dict(kind="tlc", tail=r2.stdout[-2500:]))
        ctx.states += r2.distinct
        ctx.transitions += r2.states
        recs = r2.records
    finally:
        shutil.rmtree(wd, ignore_errors=True)
    if not quick:
        pass
    seen = {}
    for x in recs:
        seen[json.dumps(x, sort_keys=True)] = x
    recs = list(seen.values())
    d = tempfile.mkdtemp(prefix="c14_")
    n = 0
    try:
        path = os.path.join(d, "t.pt")

        def write(v):
            with open(path, "w") as f:
                f.write("<p>version %d ${x}</p>" % v)
            os.utime(path, (1000 + v, 1000 + v))
        for rec in recs:
            # initial situation: the model's first state is encoded in the schedule's consequences; rebuild from fver/auto and the first label seen
            fresh_cases = (True, False)
            sched = [e["t"] for e in rec["sched"]]
            want_labels = {}
            for e in rec["sched"]:
                if e["label"] != "use":
                    want_labels.setdefault(e["t"], []).append(e["label"])
            for fresh in fresh_cases:
                # which initial situation does this behaviour belong to?  decide by the model: a thread that saw cooked=TRUE
                # without anybody flagging before it belongs to the cooked case
                if fresh != rec["fresh"]:
                    continue
                write(1)
                holder = {}
                t = PageTemplateFile(path, auto_reload=rec["auto"])
                holder["t"] = t
                if not fresh:
                    t(x="warm")
                if rec["fver"] == 2:
                    write(2)
                f = Forcer(lambda: holder["t"])
                _verif.set_callback(f.callback)
                try:
                    res = f.run(sched, nthreads, lambda: t(x="v"))
                finally:
                    _verif.set_callback(None)
                n += 1
                solo = "<p>version %d v</p>" % (rec["fver"] if (rec["auto"] or fresh) else 1)
                for tid, out in res.items():
                    model = rec["result"][tid - 1] if isinstance(rec["result"], list) else rec["result"][str(tid)]
                    if f.labels.get(tid, []) != want_labels.get(tid, []):
                        ctx.violation("forced schedule %s (auto_reload=%s, fresh=%s, file version %d): thread %d passed the hook points %s, the model's steps are %s" % (
                            sched, rec["auto"], fresh, rec["fver"], tid, f.labels.get(tid), want_labels.get(tid)), dict(kind="threads", rec=rec))
                        break
                    if out != "<p>version %d v</p>" % model:
                        ctx.violation("forced schedule %s: thread %d returned %r, the model says version %d" % (sched, tid, out, model), dict(kind="threads", rec=rec))
                    elif out != solo:
                        known = [k for k in ctx.known() if k.get("dev") == "LastReadBeforeUncooked"]
                        if known:
                            ctx.known_finding(known[0], "schedule %s: thread %d returned %r, alone it returns %r" % (sched, tid, out, solo))
                        else:
                            ctx.violation("forced schedule %s (auto_reload=%s, fresh=%s, file version %d): thread %d returned %r; run alone it returns %r" % (
                                sched, rec["auto"], fresh, rec["fver"], tid, out, solo), dict(kind="threads", rec=rec))
                if len(ctx.violations) > 6:
                    return
    finally:
        shutil.rmtree(d, ignore_errors=True)
    ctx.behaviours += len(recs)
    ctx.replays += n
    ctx.nontrivial += n
    ctx.notes["thread_schedules_forced"] = n
    if recs:
        ctx.sample({"thread_schedule": [e["t"] for e in recs[-1]["sched"]], "labels": [e["label"] for e in recs[-1]["sched"]][:12]})


def _matches_init(rec, fresh):
    """reconstruct the initial situation of a dumped behaviour: in the cooked case with an unchanged file
    (fver = 1) or without auto_reload nobody cooks; in the fresh case the first thread to test the flag cooks"""
    labels = [e["label"] for e in rec["sched"]]
    cooks = "cook.begin" in labels
    if fresh:
        return cooks
    # previously cooked from version 1
    if not rec["auto"]:
        return not cooks
    return cooks == (rec["fver"] == 2)


def stress_part(ctx, quick):
    """free-running threads at a minimal switch interval on a shared file template and a shared loader"""
    sys.path.insert(0, REPO_SRC)
    from chameleon import PageTemplateFile
    from chameleon.zpt.loader import TemplateLoader
    d = tempfile.mkdtemp(prefix="c14s_")
    old = sys.getswitchinterval()
    n = 0
    try:
        sys.setswitchinterval(1e-6)
        for name, src in TEMPLATES.items():
            open(os.path.join(d, name + ".pt"), "w").write(src.replace("template.macros", "macros"))
        rounds = 15 if quick else 150
        for rnd_i in range(rounds):
            loader = TemplateLoader(d, auto_reload=True)
            for name in TEMPLATES:
                # every thread renders with its own arguments (different loop lengths)
                wants = {}
                for k in range(4):
                    a = dict(ARGS[(rnd_i + k) % 3])
                    a["y"] = list(a["y"]) + list(range(k * 7))
                    try:
                        wants[k] = PageTemplateFile(os.path.join(d, name + ".pt"))(**copy.deepcopy(a))
                    except Exception as e:
                        wants[k] = "EXC " + type(e).__name__
                results = {}

                def work(k):
                    a = dict(ARGS[(rnd_i + k) % 3])
                    a["y"] = list(a["y"]) + list(range(k * 7))
                    try:
                        results[k] = loader.load(name + ".pt")(**copy.deepcopy(a))
                    except Exception as e:
                        results[k] = "EXC " + type(e).__name__
                ths = [threading.Thread(target=work, args=(k,)) for k in range(4)]
                for t in ths:
                    t.start()
                for t in ths:
                    t.join(30)
                n += 4
                bad = [(k, results.get(k), wants[k]) for k in range(4) if results.get(k) != wants[k]]
                if bad:
                    ctx.violation("stress: template %s rendered concurrently through a shared loader: thread %d returned %r, alone %r" % (
                        (name,) + bad[0]), dict(kind="threads-stress", source=src))
                    return
    finally:
        sys.setswitchinterval(old)
        shutil.rmtree(d, ignore_errors=True)
    ctx.replays += n
    ctx.notes["stress_renders"] = n


def reload_part(ctx, quick):
    """free-running threads on one auto_reload file template while a writer saves new versions: the logs of the hook
    events are validated by TLC against specs/ReloadTrace.tla (C->S); a corrupted log must be rejected"""
    import multiprocessing
    from .. import reload_trace as R
    # the specification itself
    runs = R.model_runs()
    q, f = runs["quiet"], runs["free"]
    ctx.states += q.distinct + f.distinct
    ctx.transitions += q.states + f.states
    if not q.ok():
        if q.violation:
            ctx.violation("TLC: %s violated on Reload (file changes only between calls)" % q.violation, dict(kind="tlc", tail=q.stdout[-3000:]))
        else:
            ctx.fail("Reload model run failed: %s %s" % (q.error, q.stdout[-1500:]))
        return
    if f.violation not in (None, "Fresh"):
        ctx.violation("TLC: %s violated on Reload (file changes during calls)" % f.violation, dict(kind="tlc", tail=f.stdout[-3000:]))
        return
    ctx.notes["reload_model"] = dict(quiet_states=q.distinct, free_states=f.distinct,
                                     fresh_with_writes_during_calls="violated (recorded C16 finding)" if f.violation == "Fresh" else "holds")
    # traces of the real code
    ntr = 12 if quick else 96
    jobs = [dict(nthreads=3, ncalls=4 if k % 2 == 0 else 6, nwrites=3, quiet=(k % 2 == 0), seed=ctx.seed * 1000 + k) for k in range(ntr)]
    with multiprocessing.get_context("spawn").Pool(4) as pool:
        res = pool.map(R._record_job, jobs)
    traces = [tr for tr, _ in res]
    for (tr, fails), job in zip(res, jobs):
        if fails:
            ctx.violation("free-running threads on an auto_reload file template (%s): render() raised %s" % (
                "file changes between calls" if job["quiet"] else "file changes during calls", fails[0]),
                dict(kind="reload-trace", events=tr["events"][:400]))
            return
    # negative control: the last rendered version of a trace is changed -- no placement may explain it
    import copy
    ctrl = copy.deepcopy(traces[1])
    i = [k for k, e in enumerate(ctrl["events"]) if e["label"] == "use"][-1]
    ctrl["events"][i]["v"] += 1
    batches = [traces[i::4] for i in range(4)] + [[ctrl]]
    with multiprocessing.get_context("fork").Pool(5) as pool:
        vres = pool.map(R.validate, batches)
    for (verdicts, prefixes, st), batch in zip(vres[:-1], batches[:-1]):
        ctx.states += st["distinct"]
        ctx.transitions += st["states"]
        for ok, pre, tr in zip(verdicts, prefixes, batch):
            ctx.traces += 1
            if not ok:
                ev = tr["events"]
                ctx.violation("the log of free-running threads on an auto_reload file template (%s) is not a behaviour of "
                              "specs/Reload.tla: no placement of the shared accesses explains it beyond event %d of %d "
                              "(next: %s); events before: %s" % (
                                  "file changes only between calls; every call must return the current version" if tr["quiet"]
                                  else "file changes during calls", pre, len(ev), ev[pre] if pre < len(ev) else None,
                                  ev[max(0, pre - 6):pre]),
                              dict(kind="reload-trace", trace=tr, prefix=pre))
    cv, cp, _ = vres[-1]
    ctx.notes["reload_trace_negative_control"] = "corrupted log rejected" if not cv[0] else "ACCEPTED"
    if cv[0]:
        ctx.fail("negative control: a log with a wrong rendered version was accepted by ReloadTrace")
    ctx.notes["reload_traces"] = dict(n=len(traces), events=sum(len(t["events"]) for t in traces),
                                      with_reload_during_run=sum(1 for t in traces if sum(1 for e in t["events"] if e["label"] == "cook.begin") > 1))
    ctx.nontrivial += sum(1 for t in traces if sum(1 for e in t["events"] if e["label"] == "cook.begin") > 1)
    if traces:
        ctx.sample({"reload_trace_head": traces[1]["events"][:25]})


def run(ctx):
    rnd = random.Random(ctx.seed)
    quick = ctx.tier == "quick"
    reload_part(ctx, quick)
    history_part(ctx, quick)
    threads_part(ctx, quick, rnd)
    # three threads: the state space is too large for BFS here; simulated schedules only (invariants checked along them)
    threads_part(ctx, quick, rnd, nthreads=3)
    stress_part(ctx, quick)
    # two renderings interleaved at their loop bodies (semaphores, deterministic) and renderings nested in loop bodies
    from .c08 import nested_render_part
    nested_render_part(ctx)
    # separately compiled instances do not influence each other: rejected templates, templates with options of their own
    from .. import isolation
    ctx.replays += isolation.run(ctx, "separately compiled templates")
    for f in ctx.known():
        if f.get("witness"):
            ctx.witness(f)
    ctx.exhaustive = True
    ctx.rule = ("render histories: all sequences of %d calls on 2 instances x 3 argument sets for 5 templates (globals, "
                "repeat, macros, code blocks, attribute dictionaries, on-error), reference from fresh processes with two hash "
                "seeds; threads: all interleavings of 2 threads over 10 hook points x {fresh, previously cooked} x "
                "{file unchanged, changed} x auto_reload (TLC BFS), %d simulated schedules forced on real threads; stress "
                "rounds with 4 free-running threads; non-trivial = every history / schedule" % (3 if quick else 4, 150 if quick else 3000))
    ctx.assumptions += ["the file does not change while the threads run", "thread schedules are forced at the hook points only (statements between two hook points run atomically in the model)"]
