"""C04 -- expressions follow TALES semantics and are evaluated exactly once, in order.

Machine: the set-valued expression semantics EvAll of specs/ZPT.tla (python
default, string:, not:, exists:, pipes that move on only for lookup-type
exceptions, name resolution variables-before-builtins, attribute access with
item fallback) at every statement and interpolation site.  TLC enumerates, per
shape and site, every combination of alternatives succeeding / raising each
exception class and checks AtMostOncePerReach; replay compares text, the exact
call log (order and multiplicity: nothing unreached is evaluated) and the
class of a propagated exception.
"""
import random

from .. import families as F
from ..pipeline import run_family

NAMES = ["x", "y", "len", "nope", "error"]
INVS = ["AtMostOncePerReach", "WellBracketed"]


def run(ctx):
    rnd = random.Random(ctx.seed)
    quick = ctx.tier == "quick"
    dev = ctx.known_devs()
    progs = F.c04_family(ctx.tier, rnd)
    agg = run_family("C04shapes", progs, NAMES, dev=dev, invariants=INVS, perms=(0,) if quick else (0, 1), timeout=3000)
    ctx.add_family(agg)
    # statement-level order and multiplicity on the C01 families (cached guards: switch, omit-tag, content default test)
    f1 = F.c01_f1(ctx.tier)
    if quick:
        f1 = rnd.sample(f1, 60)
    agg = run_family("C04stmts", f1, NAMES, dev=dev, invariants=INVS, perms=(0,), timeout=3000)
    ctx.add_family(agg)
    # expression shapes inside the surroundings the machine models (macro body, slot filler, named block, on-error, ...)
    per = 6 if quick else 40
    cprogs = F.in_contexts(progs, per, rnd)
    agg = run_family("C04ctx", cprogs, NAMES + ["z", "macroname"], dev=dev, invariants=INVS, perms=(0,), timeout=3000)
    ctx.add_family(agg)
    # names belong to one template: what another template configured (extra builtins of the same names, ...) does not
    # change how this one resolves them
    from .. import isolation
    ctx.replays += isolation.run(ctx, "name resolution")
    ctx.exhaustive = True
    ctx.rule = ("expression shapes (call, pipes of length 2-4, not:, exists:, string:, nestings, pipe with prefixed "
                "alternative, undefined name, builtin name, attribute access with item fallback, 8 wrapper forms "
                "lambda/comprehension/genexp/conditional/dict item around calls and variables) x 11 sites (quick: 4 "
                "sampled per shape) x every alternative succeeding or raising each exception class; non-trivial = at "
                "least one call evaluated")
    ctx.assumptions += ["exception classes caught by '|' are represented by KeyError/TypeError (quick) or all seven listed plus two uncaught ones (thorough)",
                        "call-log order inside one element's render group is normalised (DESIGN 3.2)"]
