"""C08 -- tal:repeat iterates any iterable and exposes correct repeat variables.

Machine: SRep / SIter / SLoop of specs/ZPT.tla; the twelve repeat variables are
closed forms over (length, position) written in TLA+ (RepVal, Digits26,
RomanSeq), independent of tal.RepeatItem.  TLC walks every position of every
length; replay renders all variables at every position and compares the text.
"""
import random

from .. import families as F
from ..pipeline import run_family

NAMES = ["x", "y", "macroname", "error"]
INVS = ["WellBracketed", "LeaveRestores", "SeparatorCount"]


def run(ctx):
    rnd = random.Random(ctx.seed)
    dev = ctx.known_devs()
    progs = F.c08_family(ctx.tier, rnd)
    agg = run_family("C08repeat", progs, NAMES, dev=dev, invariants=INVS, perms=(0,), timeout=3000)
    ctx.add_family(agg)
    nested_render_part(ctx)
    for f in ctx.known():
        ctx.witness(f)
    # what one template leaves behind (rejected templates, templates with options of their own) does not reach another
    from .. import isolation
    ctx.replays += isolation.run(ctx, "repeat")
    ctx.exhaustive = True
    ctx.rule = ("every length 0..40 (thorough 0..119) x every position x 12 repeat variables; lengths crossing the "
                "letter (26, 702) and roman (3999) boundaries; iterable kinds list/generator/dict/str/bytes/range/None and "
                "non-iterables; nestings of 2-3 loops with reused and distinct names, outer variables read after the "
                "inner loop; tuple unpacking incl. wrong arity; 8 placements of the start tag relative to the preceding "
                "text x ordinary / tal: element; non-trivial = at least one iteration")
    ctx.assumptions += ["letter numbering is positional base 26 (a..z, ba, bb, ...), the scheme inherited from Zope; the reference text's 'aa' after 'z' is not demanded",
                        "the separator is compared exactly only when the start tag is the first thing on its line"]


def nested_render_part(ctx):
    """the repeat variables belong to one rendering: a template rendered from inside a loop body (same loop name, other
    length), completing or abandoned by an exception that the outer template handles, leaves repeat[name] of the outer
    loop as it was -- also on two threads interleaved at the loop bodies"""
    import sys
    import threading
    from harness import REPO_SRC
    sys.path.insert(0, REPO_SRC)
    from chameleon import PageTemplate
    inner = PageTemplate('<i tal:repeat="x ys">${repeat.x.number}/${repeat.x.length}${boom(x)}</i>')
    outer = PageTemplate('<ul><li tal:repeat="x xs">[${repeat.x.number}/${repeat.x.length}:${repeat.x.letter}:${x}]'
                         '<b tal:on-error="string:E">${structure: sub(x)}</b>'
                         '[${repeat.x.number}/${repeat.x.length}:${repeat.x.index}:${repeat.x.end}:${x}]</li></ul>')
    n = 0
    for nx in (1, 2, 3):
        for ny in (0, 1, 4):
            for fail_at in (None, 0, 2):
                xs = ["o%d" % k for k in range(nx)]
                ys = list(range(ny))

                def boom(v, fail_at=fail_at):
                    if fail_at is not None and v == fail_at:
                        raise ZeroDivisionError("boom")
                    return ""

                def sub(x, ys=ys, boom=boom):
                    return inner(ys=ys, boom=boom)
                failed = fail_at is not None and fail_at < ny
                mid = "E" if failed else "".join("<i>%d/%d</i>" % (k + 1, ny) for k in range(ny)).replace("</i><i>", "</i>\n<i>")
                want = "<ul>" + "\n".join(
                    "<li>[%d/%d:%s:%s]<b>%s</b>[%d/%d:%d:%d:%s]</li>" % (k + 1, nx, "abc"[k], xs[k], mid, k + 1, nx, k, int(k == nx - 1), xs[k])
                    for k in range(nx)) + "</ul>"
                n += 1
                try:
                    got = outer(xs=xs, sub=sub)
                except Exception as e:
                    got = "EXC %s: %s" % (type(e).__name__, str(e).splitlines()[:1])
                if got != want:
                    ctx.violation("a template rendered from inside a loop body (inner loop of the same name over %d items%s): the outer "
                                  "template renders %r, expected %r" % (ny, ", abandoned at item %s" % fail_at if failed else "", got, want),
                                  dict(kind="nested-render-repeat", got=got, want=want))
                    return
    # two renderings of one template on two threads, interleaved at their loop bodies
    tmpl = PageTemplate('<a tal:repeat="x xs">${step(x)}${repeat.x.number}/${repeat.x.length}:${repeat.x.letter}</a>')
    turn = threading.Semaphore(0), threading.Semaphore(0)
    out = {}

    def work(me, count):
        def step(x):
            turn[1 - me].release()
            turn[me].acquire(timeout=2)
            return ""
        try:
            out[me] = tmpl(xs=list(range(count)), step=step)
        except Exception as e:
            out[me] = "EXC %s" % type(e).__name__
        for _ in range(8):
            turn[1 - me].release()
    ths = [threading.Thread(target=work, args=(0, 3)), threading.Thread(target=work, args=(1, 5))]
    for t in ths:
        t.start()
    turn[0].release()
    for t in ths:
        t.join(30)
    for me, count in ((0, 3), (1, 5)):
        want = "\n".join("<a>%d/%d:%s</a>" % (k + 1, count, "abcde"[k]) for k in range(count))
        n += 1
        if out.get(me) != want:
            ctx.violation("two renderings of one template interleaved at their loop bodies: the one over %d items renders %r, alone %r" % (
                count, out.get(me), want), dict(kind="nested-render-repeat"))
    ctx.replays += n
    ctx.notes["nested_render_cases"] = n
