"""C08 -- tal:repeat iterates any iterable and exposes correct repeat variables.

Machine: SRep / SIter / SLoop of specs/ZPT.tla; the twelve repeat variables are
closed forms over (length, position) written in TLA+ (RepVal, Digits26,
RomanSeq), independent of tal.RepeatItem.  TLC walks every position of every
length; replay renders all variables at every position and compares the text.
"""
import random

from .. import families as F
from ..pipeline import run_family

NAMES = ["x", "y", "error"]
INVS = ["WellBracketed", "LeaveRestores", "SeparatorCount"]


def run(ctx):
    rnd = random.Random(ctx.seed)
    dev = ctx.known_devs()
    progs = F.c08_family(ctx.tier, rnd)
    agg = run_family("C08repeat", progs, NAMES, dev=dev, invariants=INVS, perms=(0,), timeout=3000)
    ctx.add_family(agg)
    for f in ctx.known():
        ctx.witness(f)
    ctx.exhaustive = True
    ctx.rule = ("every length 0..40 (thorough 0..119) x every position x 12 repeat variables; lengths crossing the "
                "letter (26, 702) and roman (3999) boundaries; iterable kinds list/generator/dict/str/bytes/range/None and "
                "non-iterables; nestings of 2-3 loops with reused and distinct names, outer variables read after the "
                "inner loop; tuple unpacking incl. wrong arity; 8 placements of the start tag relative to the preceding "
                "text x ordinary / tal: element; non-trivial = at least one iteration")
    ctx.assumptions += ["letter numbering is positional base 26 (a..z, ba, bb, ...), the scheme inherited from Zope; the reference text's 'aa' after 'z' is not demanded",
                        "the separator is compared exactly only when the start tag is the first thing on its line"]
