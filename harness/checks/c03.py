"""C03 -- unmarked markup is reproduced verbatim; tokenising and parsing lose nothing.

(a) specs/Lexer.tla: the tokenizer as a partition machine (tokens are
    non-empty, contiguous, text tokens maximal and '<'-free, markup tokens
    start with '<', the lexer is total).  TLC checks the invariants on the
    model for all strings up to a bound, and validates the token stream that
    the real iter_xml produces for EVERY string over the 13-class markup
    alphabet up to length L (C->S, specs/LexerTrace.tla, batched), plus the
    repository's sample files.  A corrupted trace is rejected (control).
(b) specs/DocGen.tla: grammar of statement-free documents; TLC enumerates
    documents (BFS) and samples longer ones (simulation); each is concretised
    with several lexical fillings and must render to itself (str and bytes
    input, HTML and XML mode; CR/CRLF -> LF only outside XML mode); the start
    tag fields extracted by the parser must concatenate back to the token.
"""
from __future__ import annotations

from harness import REPO_SRC  # noqa: E402

import glob
import itertools
import json
import os
import random
import shutil
import sys

from ..pipeline import workdir
from ..tla import lit, run_tlc, TLASet

CLASSES = {"lt": "<", "gt": ">", "sl": "/", "ex": "!", "hy": "-", "qm": "?", "lb": "[", "rb": "]", "eq": "=",
           "dq": '"', "sq": "'", "sp": " ", "a": "a"}
REV = {v: k for k, v in CLASSES.items()}


def to_classes(s):
    return [REV.get(ch, "a") if ch not in "\n\t\r" else "sp" for ch in s]


def model_run(ctx, maxlen):
    wd = workdir("lexer")
    try:
        open(os.path.join(wd, "MCLexer.tla"), "w").write(
            "---- MODULE MCLexer ----\nEXTENDS Lexer\nMCAlphabet == %s\n====\n" % lit(TLASet(["lt", "gt", "sl", "ex", "hy", "a"])))
        open(os.path.join(wd, "MCLexer.cfg"), "w").write(
            "SPECIFICATION Spec\nCONSTANTS\n Alphabet <- MCAlphabet\n MaxLen = %d\nINVARIANT RoundTrip\nINVARIANT Contiguous\n"
            "INVARIANT Total\nINVARIANT NoAdjacentText\n" % maxlen)
        r = run_tlc("MCLexer", "MCLexer.cfg", wd, workers=8, timeout=1200, java_opts=["-Xmx6g"])
    finally:
        shutil.rmtree(wd, ignore_errors=True)
    if r.violation:
        ctx.violation("TLC: %s violated on Lexer" % r.violation, dict(kind="tlc", tail=r.stdout[-2000:]))
    elif not r.ok():
        ctx.fail("Lexer model run failed: %s %s" % (r.error, r.stdout[-1500:]))
    ctx.states += r.distinct
    ctx.transitions += r.states
    ctx.parts.append(dict(tag="Lexer.model", states=r.states, distinct=r.distinct, wall_tlc=r.wall))


TCFG = """SPECIFICATION TSpec
CONSTANTS
 Alphabet <- MCAlphabet
 MaxLen = %d
CONSTRAINT Progress
POSTCONDITION AllAccepted
CHECK_DEADLOCK FALSE
"""


def validate(ctx, traces, maxlen, tag):
    wd = workdir("lextr")
    try:
        json.dump(traces, open(os.path.join(wd, "traces.json"), "w"))
        open(os.path.join(wd, "MCLexerTrace.tla"), "w").write(
            "---- MODULE MCLexerTrace ----\nEXTENDS LexerTrace\nMCAlphabet == %s\n====\n" % lit(TLASet(CLASSES.keys())))
        open(os.path.join(wd, "MCLexerTrace.cfg"), "w").write(TCFG % maxlen)
        r = run_tlc("MCLexerTrace", "MCLexerTrace.cfg", wd, workers=1, timeout=3000, deadlock=True, java_opts=["-Xmx6g"],
                    env_extra={"TRACE_FILE": os.path.join(wd, "traces.json")})
    finally:
        shutil.rmtree(wd, ignore_errors=True)
    return r


def tokens_of(s):
    from chameleon.tokenize import iter_xml
    return [{"pos": t.pos, "text": to_classes(str(t))} for t in iter_xml(s)]


def trace_part(ctx, maxlen, rnd):
    sys.path.insert(0, REPO_SRC)
    chars = list(CLASSES.values())
    traces = []
    for n in range(0, maxlen + 1):
        for combo in itertools.product(chars, repeat=n):
            s = "".join(combo)
            traces.append({"input": to_classes(s), "toks": tokens_of(s)})
    nfiles = 0
    for path in sorted(glob.glob(REPO_SRC + "/chameleon/tests/inputs/*.pt") + glob.glob(REPO_SRC + "/chameleon/tests/inputs/*.xml"))[:400]:
        try:
            s = open(path, encoding="utf-8").read()
        except Exception:
            continue
        if len(s) > 1500:
            continue
        traces.append({"input": to_classes(s), "toks": tokens_of(s)})
        nfiles += 1
    total = len(traces)
    B = 60000
    batches = [traces[i:i + B] for i in range(0, total, B)]
    import multiprocessing
    ctx_mp = multiprocessing.get_context("fork")
    with ctx_mp.Pool(min(8, len(batches))) as pool:
        results = pool.starmap(_validate_batch, [(b, 2000) for b in batches])
    for (rc, rejected, states, distinct, wall, tail), b in zip(results, batches):
        ctx.states += distinct
        ctx.transitions += states
        if rejected:
            ctx.violation("token stream of iter_xml rejected by LexerTrace: %s" % rejected,
                          dict(kind="lexertrace", tail=tail))
        elif rc != 0:
            ctx.fail("LexerTrace run failed: %s" % tail)
    ctx.traces += total
    ctx.nontrivial += sum(1 for t in traces if len(t["toks"]) > 1)
    ctx.notes["lexer_strings_validated"] = total - nfiles
    ctx.notes["sample_files_validated"] = nfiles
    ctx.sample({"lexer_trace": traces[min(len(traces) - 1, 5000)]})
    # negative control: drop one character from a token
    bad = [dict(t) for t in traces[200:260] if t["toks"]]
    if bad:
        bad[0] = {"input": bad[0]["input"], "toks": [dict(bad[0]["toks"][0], text=bad[0]["toks"][0]["text"] + ["a"])] + bad[0]["toks"][1:]}
        rc, rejected, *_ = _validate_batch(bad, 2000)
        ctx.notes["lexer_negative_control"] = "corrupted trace rejected" if rejected else "ACCEPTED"
        if not rejected:
            ctx.fail("negative control: corrupted token stream accepted")
    ctx.parts.append(dict(tag="Lexer.C2S", traces=total, batches=len(batches)))


def _validate_batch(batch, maxlen):
    class _C:  # minimal ctx stand-in
        pass
    r = validate(None, batch, maxlen, "b")
    rejected = None
    for ln in r.stdout.splitlines():
        if "REJECTED" in ln:
            rejected = ln[:300]
    return r.rc, rejected, r.states, r.distinct, r.wall, r.stdout[-1500:]


# ------------------------------------------------------------------ documents

TAGCFG = """SPECIFICATION TSpec
INVARIANT RoundTrip
CONSTRAINT Progress
POSTCONDITION AllAccepted
CHECK_DEADLOCK FALSE
"""
FIELD_ORDER = ("space", "name", "eq", "quote", "value", "quote")


def dissect(tok):
    """fields of a tag token as recorded from chameleon.parser.match_tag"""
    from chameleon.parser import match_tag
    d = match_tag(tok)
    fields = [("prefix", d["prefix"]), ("name", d["name"])]
    for a in d["attrs"]:
        fields += [("space", a["space"]), ("aname", a["name"]), ("eq", a["eq"]), ("q1", a["quote"]), ("value", a["value"]),
                   ("q2", a["quote"])]
    fields.append(("suffix", d["suffix"]))
    return [{"k": k, "text": to_classes(str(v if v is not None else ""))} for k, v in fields], fields


def _tag_chunk(bodies):
    sys.path.insert(0, REPO_SRC)
    from chameleon import PageTemplate
    from chameleon.exc import TemplateError
    from chameleon.tokenize import iter_xml
    from chameleon.parser import identify
    traces, viol, n = [], [], 0
    for body in bodies:
        for src in ("<a" + body + ">", "<a" + body + "/>x", "<a" + body + ">t</a >"):
            try:
                toks = list(iter_xml(src))
            except Exception as e:
                viol.append(("tokenizer raised %s on %r" % (type(e).__name__, src), dict(kind="tagbody", source=src)))
                continue
            for tok in toks:
                try:
                    kind = identify(tok)
                except TemplateError:
                    continue
                if kind not in ("start_tag", "empty_tag", "end_tag"):
                    continue
                try:
                    fl, raw = dissect(tok)
                except Exception as e:
                    viol.append(("parser raised %s: %s on the tag token %r" % (type(e).__name__, e, str(tok)), dict(kind="tagbody", source=src)))
                    continue
                traces.append({"tok": to_classes(str(tok)), "fields": fl, "src": str(tok)})
            n += 1
            try:
                got = PageTemplate(src)()
            except TemplateError:
                continue
            except Exception as e:
                viol.append(("statement-free document %r is rejected with %s: %s (not a template error)" % (src, type(e).__name__, e),
                             dict(kind="tagbody", source=src)))
                continue
            if got != src:
                viol.append(("statement-free document does not render to itself\n  source: %r\n  output: %r" % (src, got),
                             dict(kind="tagbody", source=src, output=got)))
    return traces, viol, n


def _validate_tags(batch):
    wd = workdir("tagtr")
    try:
        json.dump([{"tok": t["tok"], "fields": t["fields"]} for t in batch], open(os.path.join(wd, "traces.json"), "w"))
        open(os.path.join(wd, "TagFields.cfg"), "w").write(TAGCFG)
        shutil.copy(os.path.join(os.path.dirname(__file__), "..", "..", "specs", "TagFields.tla"), wd)
        r = run_tlc("TagFields", "TagFields.cfg", wd, workers=1, timeout=3000, deadlock=True, java_opts=["-Xmx4g"],
                    env_extra={"TRACE_FILE": os.path.join(wd, "traces.json")})
    finally:
        shutil.rmtree(wd, ignore_errors=True)
    import re
    rejected = None
    m = re.search(r'"REJECTED",\s*\{(.*?)\}', r.stdout, re.S)
    if m:
        rejected = [int(x) for x in m.group(1).replace("\n", " ").split(",") if x.strip().isdigit()]
    elif "REJECTED" in r.stdout:
        rejected = []
    return r.rc, rejected, r.states, r.distinct, r.violation, r.stdout[-1500:]


def tags_part(ctx, maxlen):
    """every attribute area over {space, letter, =, ", ', /} up to a length bound: the fields the parser cuts each tag
    token into are validated by TLC against specs/TagFields.tla; the documents must render to themselves"""
    import multiprocessing
    chars = [" ", "a", "=", '"', "'", "/"]
    bodies = ["".join(c) for n in range(0, maxlen + 1) for c in itertools.product(chars, repeat=n)]
    # a few longer bodies: names made of the letters n, t, r; slashes inside unquoted values
    bodies += [" b n=1", ' hidden t="1" r', " checked tr=x nt", " href=/x/y class=z", " b=c/d e=f", " a b\n =\n 'c' d", " b=/", " b=/ c=d"]
    chunks = [bodies[i::16] for i in range(16)]
    with multiprocessing.get_context("fork").Pool(16) as pool:
        res = pool.map(_tag_chunk, chunks)
    traces = []
    for tr, viol, n in res:
        traces += tr
        ctx.replays += n
        for text, payload in viol[:3]:
            if len(ctx.violations) < 8:
                ctx.violation(text, payload)
    B = 50000
    batches = [traces[i:i + B] for i in range(0, len(traces), B)]
    with multiprocessing.get_context("fork").Pool(min(8, max(1, len(batches)))) as pool:
        vres = pool.map(_validate_tags, batches)
    for (rc, rejected, states, distinct, violation, tail), b in zip(vres, batches):
        ctx.states += distinct
        ctx.transitions += states
        if violation:
            ctx.violation("TLC: %s violated while validating tag dissections" % violation, dict(kind="tagfields", tail=tail))
        elif rejected is not None:
            for i in rejected[:3]:
                t = b[i - 1]
                ctx.violation("the fields the parser cuts the tag token %r into are rejected by TagFields (not a loss-free, well-formed "
                              "dissection): %s" % (t["src"], [(f["k"], "".join(CLASSES.get(c, "?") for c in f["text"])) for f in t["fields"]]),
                              dict(kind="tagfields", token=t["src"]))
            if not rejected:
                ctx.violation("tag dissections rejected by TagFields: %s" % tail[-300:], dict(kind="tagfields"))
        elif rc != 0:
            ctx.fail("TagFields run failed: %s" % tail)
    ctx.traces += len(traces)
    ctx.notes["tag_dissections_validated"] = len(traces)
    # negative control: a dissection that drops one character must be rejected
    if traces:
        t = next((t for t in traces if len(t["fields"]) > 3 and t["fields"][2]["text"]), None)
        if t:
            bad = {"tok": t["tok"], "fields": [dict(f) for f in t["fields"]], "src": t["src"]}
            bad["fields"][2] = {"k": bad["fields"][2]["k"], "text": bad["fields"][2]["text"][1:]}
            rc, rejected, *_ = _validate_tags([bad])
            ctx.notes["tagfields_negative_control"] = "lossy dissection rejected" if rejected is not None else "ACCEPTED"
            if rejected is None:
                ctx.fail("negative control: lossy tag dissection accepted by TagFields")
    ctx.parts.append(dict(tag="TagFields.C2S", traces=len(traces), bodies=len(bodies)))


FILL = {
    ("text", "plain"): ["hello world", "x", " a b "],
    ("text", "entity"): ["a &amp; b &lt;c&gt; &nbsp;&copy;", "&quot;q&quot; &apos;"],
    ("text", "nument"): ["&#65;&#x41; &#8364;", "&#0038;"],
    ("text", "nonascii"): ["café 中文 \U0001F600", "ß"],
    ("text", "crlf"): ["l1\r\nl2\r\n", "\r\n", "l1\r\n\nl2", "a\r\n\n\nb\n\r\nc", "\r\n\r\n\n"],
    ("text", "cr"): ["l1\rl2", "\r", "l1\r\n\rl2\n\r", "\r\r\n\n", "a\r\n\nb"],
    ("text", "lf"): None,
    ("text", "dollar"): ["cost $ 5 {x} }", "a $x b"],
    ("text", "gt"): ["a > b >> c", ">"],
    ("text", "amp"): ["a & b && c", "AT&T; &;"],
    ("text", "quotes"): ["say \"hi\" and 'bye'", "'\""],
    ("text", "ws"): ["  \n\t  ", "\n"],
    ("comment", "plain"): ["<!-- a comment -->", "<!---->", "<!-- a\r\n\n b\r\rc -->"],
    ("comment", "dashes"): ["<!-- a - b -->", "<!-- -x- -->"],
    ("comment", "markup"): ["<!-- <b tal:content=\"x\">not a statement</b> &amp; -->"],
    # ('<!--?' marks a comment that is not interpolated: the marker goes, the text stays -- unless comment interpolation is
    # switched off by option, then the comment is written as it stands)
    ("comment", "bang"): ["<!-- ! not dropped -->", "<!--?php x ?-->", "<!--? ${not.evaluated} -->"],
    ("cdata", "markup"): ["<![CDATA[ <b>&amp; ]] > ]]>", "<![CDATA[]]>"],
    ("pi", "php"): ["<?php echo 1 ?>", "<?target?>", "<?xml-stylesheet href=\"a.xsl\" >x?>", "<?python-version 3.11?>", "<?php // c\n  echo 100 % 3;\n?>",
                    "<?xml-foo > bar?>"],
    ("doctype", "html5"): ["<!DOCTYPE html>", "<!doctype html>"],
    ("doctype", "public"): ['<!DOCTYPE html PUBLIC "-//W3C//DTD XHTML 1.0 Strict//EN"\n  "http://www.w3.org/TR/xhtml1/DTD/xhtml1-strict.dtd">'],
}
ATTRS = {
    "none": [""],
    "dq": [' class="a b"', ' id="x1" title=""',
           # (an ordinary attribute whose VALUE happens to be a namespace URI of the template language is no declaration)
           ' href="http://xml.zope.org/namespaces/tal" title="http://xml.zope.org/namespaces/metal"'],
    "sq": [" class='a \"b\"'", " data-x='1'"],
    "unquoted": [" width=100", " a=b c=d", " href=/x/y class=z", " b=c/d e=f", " src=a/b.png"],
    "valueless": [" hidden", " a b", " b n=1", ' hidden t="1" r', " checked tr=x nt"],
    "mixedcase": [' CLASS="A" onClick="f()"', ' Id="1"'],
    "spaced": ['  class = "a"\n   id\t=\t"b" ', '\n  x="1"\n', ' a="1"\r\n     b="2"', '\r\n  x="1"', ' a="1"\rb="2" c="3"\r', ' a="1"\r\n\n   b="2"', '\r\n\n\n x="1"\n\r'],
    "multi": [' a="1" b=\'2\' c=3 d', ' z="1" a="2" m="3"', ' width=100% a="50%" %', ' lang="en" xml:lang="en" id="i"', ' b==x %% c'],
    "entval": [' title="a &amp; b &lt; c &quot;q&quot;"', " alt='&#65;&nbsp;'"],
    "gtval": [' title="a > b"', " on='a>b'"],
    "nsprefix": [' xml:lang="en" xmlns:foo="urn:foo" foo:bar="1"', ' xmlns="http://www.w3.org/1999/xhtml"',
                 ' data-x="1" data-xml-lang="en" data-xmlns-x="u"', ' xmlns:og="urn:og" data-og-title="t" data-foo-bar="b" og:t="1"',
                 ' v-bind:id="i" @click="go" :key="k"'],
}
# configurations under which a statement-free document still renders to itself (they concern statements, comments'
# interpolation, error reporting and attribute classes only)
OPTSETS = [{}, {}, {"enable_data_attributes": True}, {"enable_comment_interpolation": False}, {"strict": False},
           {"enable_data_attributes": True, "strict": False, "boolean_attributes": {"hidden", "checked"}}]


def fill_doc(rec, rnd):
    out = []
    for it in rec["doc"]:
        k, d = it["k"], it["d"]
        if k == "open":
            out.append("<" + it["n"] + rnd.choice(ATTRS[d]) + ">")
        elif k == "uopen":
            out.append("<" + it["n"] + ">")
        elif k == "close":
            out.append("</" + it["n"] + (" " if d == "space" else "") + ">")
        elif k == "void":
            a = rnd.choice(ATTRS[it["a"]])
            out.append({"selfclose": "<br%s />", "selfclose-tight": "<br%s/>", "unclosed": "<img%s>"}[d] % a)
        else:
            out.append(rnd.choice(FILL[(k, d)]))
    return "".join(out)


def norm(s):
    return s.replace("\r\n", "\n").replace("\r", "\n")


def docs_part(ctx, rnd, quick):
    sys.path.insert(0, REPO_SRC)
    from chameleon import PageTemplate
    from chameleon.tokenize import iter_xml
    from chameleon.parser import match_tag, identify
    wd = workdir("docgen")
    recs = []
    try:
        open(os.path.join(wd, "MCDoc.tla"), "w").write(
            "---- MODULE MCDoc ----\nEXTENDS DocGen, Json\nEmit == fin => PrintT(ToJson([doc |-> doc, xml |-> xml]))\n====\n")
        for mode, mi, md in (("bfs", 2 if quick else 3, 2), ("sim", 7, 3)):
            open(os.path.join(wd, "MCDoc.cfg"), "w").write(
                "SPECIFICATION Spec\nCONSTANTS\n MaxItems = %d\n MaxDepth = %d\nINVARIANT WellNested\nINVARIANT Emit\n" % (mi, md))
            if mode == "bfs":
                r = run_tlc("MCDoc", "MCDoc.cfg", wd, workers=1, timeout=2400, java_opts=["-Xmx6g"])
                ctx.states += r.distinct
                ctx.transitions += r.states
            else:
                r = run_tlc("MCDoc", "MCDoc.cfg", wd, workers=1, timeout=2400, simulate="num=%d" % (800 if quick else 30000),
                            depth=12, seed=ctx.seed)
            if r.violation or not r.ok():
                ctx.fail("DocGen %s run failed: %s %s %s" % (mode, r.violation, r.error, r.stdout[-1000:]))
                return
            recs += r.records
            ctx.parts.append(dict(tag="DocGen." + mode, states=r.states, docs=len(r.records), wall_tlc=r.wall))
    finally:
        shutil.rmtree(wd, ignore_errors=True)
    seen = set()
    uniq = []
    for rec in recs:
        key = json.dumps(rec, sort_keys=True)
        if key not in seen:
            seen.add(key)
            uniq.append(rec)
    fills = 2 if quick else 6
    import multiprocessing
    chunks = [uniq[i::16] for i in range(16)]
    with multiprocessing.get_context("fork").Pool(16) as pool:
        results = pool.starmap(_docs_chunk, [(ch, fills, ctx.seed + i) for i, ch in enumerate(chunks)])
    n = 0
    for cn, viol, notcomp in results:
        n += cn
        if notcomp:
            ctx.notes["docs_not_compiling"] = ctx.notes.get("docs_not_compiling", 0) + notcomp
        for text, payload in viol[:3]:
            if len(ctx.violations) < 6:
                ctx.violation(text, payload)
    ctx.behaviours += len(uniq)
    ctx.replays += n
    ctx.nontrivial += len(uniq)
    if recs:
        ctx.sample({"document": fill_doc(recs[len(recs) // 2], rnd)})


def _docs_chunk(recs, fills, seed):
    sys.path.insert(0, REPO_SRC)
    from chameleon import PageTemplate
    from chameleon.exc import TemplateError
    from chameleon.tokenize import iter_xml
    from chameleon.parser import match_tag, identify
    rnd = random.Random(seed)
    n = 0
    viol = []
    notcomp = 0
    reuse = [None, None]
    for rec in recs:
        for f in range(fills):
            body = fill_doc(rec, rnd)
            src = ('<?xml version="1.0" encoding="utf-8"?>\n' + body) if rec["xml"] else body
            want = src if rec["xml"] else norm(src)
            opts = rnd.choice(OPTSETS)
            if opts.get("enable_comment_interpolation", True):
                want = want.replace("<!--?", "<!--")
            lead = ""
            if rnd.random() < 0.15 and not rec["xml"]:
                # a str document that starts with U+FEFF: an ordinary character of the text (only BYTE input has marks)
                lead = "\ufeff"
            # one template object that is given document after document (write()): each is reproduced like a first one
            # (XML and HTML documents alternate at random, so the mode is decided anew for each)
            n += 1
            try:
                if reuse[0] is None:
                    reuse[0] = PageTemplate(src)
                else:
                    reuse[0].write(src)
                got2 = reuse[0]()
                if got2 != want.replace("<!--?", "<!--"):        # (default options: the marker goes)
                    viol.append(("a template object given a new document with write() does not reproduce it (xml=%s, the document before: "
                                 "xml=%s)\n  source: %r\n  output: %r" % (rec["xml"], reuse[1], src, got2), dict(kind="verbatim-write", source=src, output=got2)))
                reuse[1] = rec["xml"]
            except Exception:   # noqa
                reuse[0] = None
            for as_bytes in (False, True):
                n += 1
                try:
                    if lead and not as_bytes:
                        got = PageTemplate(lead + src, **opts)()
                        if got == lead + want:
                            got = want
                        # the tokens of the text as given concatenate back to it
                        if "".join(str(t) for t in iter_xml(lead + src)) != lead + src:
                            viol.append(("token stream of %r does not concatenate to the input" % (lead + src),
                                         dict(kind="verbatim", source=lead + src)))
                    else:
                        got = PageTemplate(src.encode("utf-8") if as_bytes else src, **opts)()
                except Exception as e:
                    # a statement-free document that is rejected as a template error is outside the property
                    if isinstance(e, TemplateError):
                        notcomp += 1
                        continue
                    got = "EXC %s: %s" % (type(e).__name__, e)
                if got != want:
                    viol.append(("statement-free document does not render to itself (%s, xml=%s, options %s)\n  source: %r\n  output: %r" % (
                        "bytes" if as_bytes else "str", rec["xml"], sorted(opts), src, got), dict(kind="verbatim", source=src, output=got)))
            # parser field fidelity: start/end tag fields concatenate back to the token
            for tok in iter_xml(src):
                if identify(tok) in ("start_tag", "empty_tag", "end_tag"):
                    d = match_tag(tok)
                    rebuilt = d["prefix"] + d["name"] + "".join(
                        a["space"] + a["name"] + a["eq"] + a["quote"] + a["value"] + a["quote"] for a in d["attrs"]) + (d["suffix"] or "")
                    n += 1
                    if rebuilt != str(tok):
                        viol.append(("parser fields do not concatenate to the tag token: %r -> %r" % (str(tok), rebuilt),
                                     dict(kind="tagdissect", token=str(tok))))
                    for a in d["attrs"]:
                        for fld in ("name", "value"):
                            v = a[fld]
                            if hasattr(v, "pos") and v and src[v.pos:v.pos + len(v)] != str(v):
                                viol.append(("attribute %s %r has position %d which is not where it stands" % (fld, str(v), v.pos),
                                             dict(kind="tagdissect", token=str(tok))))
    return n, viol, notcomp


def run(ctx):
    rnd = random.Random(ctx.seed)
    quick = ctx.tier == "quick"
    model_run(ctx, 5 if quick else 6)
    trace_part(ctx, 4 if quick else 5, rnd)
    tags_part(ctx, 5 if quick else 7)
    docs_part(ctx, rnd, quick)
    ctx.exhaustive = True
    ctx.rule = ("tokenizer: every string over the 13-character markup alphabet up to length %d (exhaustive) plus the "
                "repository's sample files, token streams validated by TLC; documents: every document of the DocGen "
                "grammar up to %d items (BFS) plus simulated documents up to 7 items, each with %d lexical fillings, "
                "str and bytes input, HTML and XML mode; non-trivial = more than one token / one document" % (
                    4 if quick else 5, 2 if quick else 3, 2 if quick else 6))
    ctx.assumptions += ["token boundaries are deliberately unspecified (any loss-free partition is accepted)",
                        "characters outside the markup alphabet are represented by the class 'a' (and whitespace by ' ')",
                        "statement-free documents that are rejected with a TemplateError are outside the property"]
