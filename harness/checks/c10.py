"""C10 -- i18n: message ids, mappings and translation context are computed correctly.

Machine: the I18N layer of specs/ZPT.tla (SDom, SNameBegin/SNameEnd, STransEnd;
translation streams as marks on the output, named blocks, lexically scoped
domain / context / target, macro bodies starting from the caller's settings,
fillers keeping those of their definition site).  Every behaviour is replayed
with a recording translation function (identity with interpolation, and a
rewriting one); the ORDERED list of translate calls with message id, mapping
(rendered markup of the named children), default, domain, context and target
language, and the rendered text (the function's return value in place) must
equal the machine's.
"""
import random

from .. import families as F
from ..pipeline import run_family
from . import c10_extra

NAMES = ["x", "y", "macroname", "error"]
INVS = ["WellBracketed", "AtMostOncePerReach", "OncePerTranslateElement"]


def run(ctx):
    rnd = random.Random(ctx.seed)
    dev = ctx.known_devs()
    progs = F.c10_family(ctx.tier, rnd)
    agg = run_family("C10i18n", progs, NAMES, dev=dev, invariants=INVS, perms=(0, 1), timeout=3000)
    ctx.add_family(agg)
    # implicit_i18n_attributes: the attribute programs of C07 (static, computed, default, dropped, dictionaries, twins)
    # with `class` and `title` configured as implicitly translated: every such attribute that is written is offered
    # (id = text) with the settings in force, whatever its source.  (The attribute-source deviation recorded under C07
    # applies to these programs as it does there.)
    base = [p for p in F.c07_family(ctx.tier, rnd) if p["fam"].endswith(":none") or "twins" in p["fam"]]
    if ctx.tier == "quick":
        base = rnd.sample(base, min(len(base), 60))
    iprogs = [F.with_implicit(p, {"class", "title"}, "rewrite" if n % 2 else "identity") for n, p in enumerate(base)]
    agg = run_family("C10implicit", iprogs, NAMES, dev=sorted(set(dev) | {"DictOverridesByPosition"}),
                     invariants=["WellBracketed", "AttrAtMostOncePerName"], perms=(0, 1), timeout=3000)
    ctx.add_family(agg)
    c10_extra.run(ctx, rnd)
    c10_extra.per_render(ctx)
    # translated attributes are translated wherever the element's start tag is written: also in the tal:on-error fallback
    from .c13 import fallback_tag_part
    fallback_tag_part(ctx)
    for f in ctx.known():
        ctx.witness(f)
    # what one template leaves behind (rejected templates, templates with options of their own) does not reach another
    from .. import isolation
    ctx.replays += isolation.run(ctx, "translation")
    ctx.exhaustive = True
    ctx.rule = ("translate elements with / without explicit id over text, interpolated, element, whitespace-only and empty "
                "content; 1-3 i18n:name children under condition / repeat / omit-tag / tal:content; nested translations; "
                "every pair of domain/context/target settings on two nested ancestors; macro bodies and slot fillers under "
                "different settings; two translation functions; attributes and message objects by the direct checks of "
                "c10_extra; non-trivial = every behaviour")
    ctx.assumptions += ["what the translation function returns is inserted as markup (DESIGN 3.2)",
                        "for dynamic content with i18n:translate=\"\" the default passed may be None or the message id"]
