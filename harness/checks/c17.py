"""C17 -- byte input is decoded by BOM / XML declaration / meta charset, then acts as str.

Spec: specs/Sniff.tla -- the decision function (encoding, xml?) on the lexical
evidence (BOM kind, XML declaration with/without encoding, meta charset,
default), with the priority order stated independently as ASSUMEd theorems
that TLC checks.  TLC enumerates every combination; each is concretised into
documents (several spellings of the declaration and of the meta element, a
boolean attribute, CRLF line endings, non-ASCII text) encoded with the decided
encoding while the losing labels name other encodings; the real code must
decode exactly as decided: content_type, content_encoding, output equal to the
same document supplied as str, no U+FEFF in the output -- for PageTemplate and
PageTemplateFile.
"""
from __future__ import annotations

from harness import REPO_SRC  # noqa: E402

import codecs
import multiprocessing
import os
import random
import shutil
import sys
import tempfile

from ..pipeline import workdir
from ..tla import lit, run_tlc, TLASet

BOMS = {"utf8": codecs.BOM_UTF8, "utf16le": codecs.BOM_UTF16_LE, "utf16be": codecs.BOM_UTF16_BE,
        "utf32le": codecs.BOM_UTF32_LE, "utf32be": codecs.BOM_UTF32_BE}
ENCODINGS = ["utf-8", "latin-1", "cp1251", "shift_jis"]
NONASCII = {"utf-8": "é€ж日", "latin-1": "éü", "cp1251": "жд", "shift_jis": "日本", "utf-16-le": "é€ж日", "utf-16-be": "é€ж日",
            "utf-32-le": "é€ж日", "utf-32-be": "é€ж日"}

DECL_SPELLINGS = [
    '<?xml version="1.0" encoding="%s"?>',
    "<?xml version='1.0' encoding='%s' ?>",
    '<?xml version="1.0"  encoding = "%s"  standalone="yes"?>',
    '<?xml version = "1.0" encoding="%s"?>',
    "<?xml  version\t=\t'1.0'\n encoding='%s'?>",
]
DECL_PLAIN = ['<?xml version="1.0"?>', "<?xml version='1.0' ?>", '<?xml version = "1.0" ?>', '<?xml\tversion="1.0"\n?>']
META_SPELLINGS = [
    '<meta http-equiv="Content-Type" content="text/html; charset=%s" />',
    "<meta http-equiv='Content-Type' content='text/html; charset=%s'>",
    '<META HTTP-EQUIV="content-type" CONTENT="text/html;  charset=%s">',
    '<meta content="text/html; charset=%s" http-equiv="Content-Type">',
    '<META HTTP-EQUIV="Content-Type" CONTENT="text/html; CHARSET=%s">',
    '<meta http-equiv="Content-Type" content="text/html; Charset=%s" />',
    '<meta http-equiv=Content-Type content=text/html;charset=%s>',
    '<meta id="m" http-equiv = "Content-Type" lang="en" content = "text/html; charset = %s" data-x="1">',
    '<!-- <meta http-equiv="Content-Type" content="text/html; charset=koi8-r"> --><meta http-equiv="Content-Type" content="text/html; charset=%s">',
    # other attributes of the element, with characters that mean something elsewhere: '>' and quotes inside quoted values
    '<meta tal:condition="python: 1 > 0" title=\'a "b" > c\' http-equiv="Content-Type" content="text/html; charset=%s">',
    '<meta data-a="x>y" http-equiv="Content-Type" data-b=\'<meta charset="koi8-r">\' content="text/html; charset=%s" />',
]


def same_codec(a, b):
    try:
        return codecs.lookup(a).name == codecs.lookup(b).name
    except LookupError:
        return False


def build_doc(rec, rnd, variant):
    enc = rec["enc"]
    parts = []
    if rec["decl"] == "plain":
        parts.append(DECL_PLAIN[variant % len(DECL_PLAIN)])
    elif rec["decl"] == "pi":
        parts.append(['<?xml-stylesheet href="a.xsl" type="text/xsl"?>', '<?xmlfoo bar?>'][variant % 2])
    elif rec["decl"] != "none":
        parts.append(DECL_SPELLINGS[variant % len(DECL_SPELLINGS)] % rec["decl"])
    parts.append("\r\n<html><head>")
    if variant % 5 == 4:
        # a long head: the meta element stands far from the beginning of the document
        parts.append("".join('<link rel="stylesheet" href="/static/css/sheet-%03d.css" />\r\n' % k for k in range(40)))
    if rec["meta"] != "none":
        parts.append(META_SPELLINGS[variant % len(META_SPELLINGS)] % rec["meta"])
    parts.append('</head>\r\n<body><a encoding="koi8-r" href="#">k</a><input type="checkbox" tal:attributes="checked c" />')
    parts.append("<p>" + NONASCII[enc] + " ${t}</p></body></html>\r\n")
    return "".join(parts)


def _case(args):
    rec, seed = args
    sys.path.insert(0, REPO_SRC)
    from chameleon import PageTemplate, PageTemplateFile
    rnd = random.Random(seed)
    out = []
    n = 0
    d = tempfile.mkdtemp(prefix="c17_")
    try:
        for variant in range(len(META_SPELLINGS)):
            doc = build_doc(rec, rnd, variant)
            enc = rec["enc"]
            try:
                raw = doc.encode(enc)
            except UnicodeEncodeError:
                continue
            data = (BOMS[rec["bom"]] if rec["bom"] != "none" else b"") + raw
            kw = dict(c=True, t="é")
            want_t = PageTemplate(doc, default_encoding=rec["dflt"])
            want = want_t(**kw)
            want_ctype = want_t.content_type
            path = os.path.join(d, "t%d.pt" % variant)
            open(path, "wb").write(data)
            # (the `encoding` option is about byte-string VALUES inserted at render time; the template's own bytes are
            # decoded by mark / declaration / meta / default_encoding whatever it says)
            for cls, arg, extra in ((PageTemplate, data, {}), (PageTemplateFile, path, {}),
                                    (PageTemplate, data, {"encoding": "cp1251" if variant % 2 else "ascii"}),
                                    (PageTemplateFile, path, {"encoding": "ascii" if variant % 2 else "latin-1"})):
                n += 1
                label = "%s(bom=%s, decl=%s, meta=%s, default=%s%s; document encoded as %s)" % (
                    cls.__name__, rec["bom"], rec["decl"], rec["meta"], rec["dflt"],
                    ", encoding=%s" % extra["encoding"] if extra else "", enc)
                try:
                    t = cls(arg, default_encoding=rec["dflt"], **extra)
                    got = t(**kw)
                except Exception as e:
                    out.append((label + ": raised %s: %s" % (type(e).__name__, str(e).splitlines()[:1]), dict(source=doc)))
                    continue
                if "﻿" in got:
                    out.append((label + ": a byte-order mark reaches the output: %r" % got[:40], dict(source=doc)))
                elif got != want:
                    out.append((label + ": output differs from the same document given as str:\n  bytes: %r\n  str:   %r" % (got, want), dict(source=doc)))
                try:
                    enc_ok = data.decode(t.content_encoding).lstrip("\ufeff") == doc
                except Exception:
                    enc_ok = False
                if not enc_ok:
                    out.append((label + ": content_encoding reports %r" % t.content_encoding, dict(source=doc)))
                isxml = t.content_type == "text/xml"
                if isxml != rec["xml"]:
                    out.append((label + ": content_type %r, XML declaration present: %s" % (t.content_type, rec["xml"]), dict(source=doc)))
                if rec["xml"]:
                    if 'checked="True"' not in got or "\r\n" not in got:
                        out.append((label + ": XML document rendered with HTML rules (boolean attribute / newline rewriting): %r" % got,
                                    dict(source=doc)))
                else:
                    if 'checked="checked"' not in got or "\r" in got:
                        out.append((label + ": HTML document not rendered with HTML rules: %r" % got, dict(source=doc)))
    finally:
        shutil.rmtree(d, ignore_errors=True)
    return n, out


def _history(args):
    """the decision belongs to the document, not to the template object: a second document given to the same object
    (write(), or the file rewritten under auto_reload) is decided like a first one"""
    recs, seed = args
    sys.path.insert(0, REPO_SRC)
    from chameleon import PageTemplate, PageTemplateFile
    rnd = random.Random(seed)
    out = []
    n = 0
    d = tempfile.mkdtemp(prefix="c17h_")
    try:
        docs = []
        for rec in recs:
            doc = build_doc(rec, rnd, rnd.randrange(5))
            try:
                raw = doc.encode(rec["enc"])
            except UnicodeEncodeError:
                return 0, []
            docs.append((rec, doc, (BOMS[rec["bom"]] if rec["bom"] != "none" else b"") + raw))
        kw = dict(c=True, t="é")
        fresh = []
        for rec, doc, data in docs:
            t = PageTemplate(data, default_encoding=rec["dflt"])
            fresh.append((t(**kw), t.content_type, codecs.lookup(t.content_encoding).name))
        dflt = docs[0][0]["dflt"]
        if any(r["dflt"] != dflt for r, _, _ in docs):
            return 0, []
        path = os.path.join(d, "t.pt")
        for mode in ("write", "file"):
            try:
                if mode == "write":
                    t = PageTemplate(docs[0][2], default_encoding=dflt)
                else:
                    open(path, "wb").write(docs[0][2])
                    os.utime(path, (1000, 1000))
                    t = PageTemplateFile(path, auto_reload=True, default_encoding=dflt)
                for k, (rec, doc, data) in enumerate(docs):
                    if k:
                        if mode == "write":
                            t.write(data)
                        else:
                            open(path, "wb").write(data)
                            os.utime(path, (1000 + 10 * k, 1000 + 10 * k))
                    got = (t(**kw), t.content_type, codecs.lookup(t.content_encoding).name)
                    n += 1
                    if got != fresh[k]:
                        out.append(("one template object (%s), document %d of the sequence %s: output / content_type / content_encoding "
                                    "%r; a new template of this document gives %r" % (
                                        "write()" if mode == "write" else "file rewritten, auto_reload", k + 1,
                                        [(r["bom"], r["decl"], r["meta"]) for r, _, _ in docs], got, fresh[k]),
                                    dict(source=doc)))
                        break
            except Exception as e:
                out.append(("one template object (%s), sequence %s: raised %s: %s" % (
                    mode, [(r["bom"], r["decl"], r["meta"]) for r, _, _ in docs], type(e).__name__, str(e).splitlines()[:1]), {}))
    finally:
        shutil.rmtree(d, ignore_errors=True)
    return n, out


def run(ctx):
    wd = workdir("sniff")
    try:
        open(os.path.join(wd, "MCSniff.tla"), "w").write(
            "---- MODULE MCSniff ----\nEXTENDS Sniff, Json\nMCBoms == %s\nMCEnc == %s\n"
            "Emit == PrintT(ToJson([bom |-> bom, decl |-> decl, meta |-> meta, dflt |-> dflt, enc |-> Decision.encoding, xml |-> Decision.xml]))\n====\n"
            % (lit(TLASet(BOMS)), lit(TLASet(ENCODINGS))))
        open(os.path.join(wd, "MCSniff.cfg"), "w").write(
            "SPECIFICATION Spec\nCONSTANTS\n Boms <- MCBoms\n Encodings <- MCEnc\nINVARIANT XmlIffDeclaration\nINVARIANT Emit\n")
        r = run_tlc("MCSniff", "MCSniff.cfg", wd, workers=1, timeout=600)
    finally:
        shutil.rmtree(wd, ignore_errors=True)
    if r.violation or not r.ok():
        ctx.fail("Sniff TLC run failed: %s %s %s" % (r.violation, r.error, r.stdout[-1500:]))
        return
    ctx.states += r.distinct
    ctx.transitions += r.states
    recs = r.records
    if ctx.tier == "quick":
        rnd = random.Random(ctx.seed)
        keep = [x for x in recs if x["bom"] != "none"]
        rest = [x for x in recs if x["bom"] == "none"]
        recs = rnd.sample(keep, 60) + rest
    ctx.behaviours += len(recs)
    with multiprocessing.get_context("fork").Pool(16) as pool:
        res = pool.map(_case, [(rec, ctx.seed + i) for i, rec in enumerate(recs)])
    for n, out in res:
        ctx.replays += n
        for text, payload in out[:2]:
            if len(ctx.violations) < 10:
                ctx.violation(text, dict(kind="sniff", **payload))
    # sequences of 2-3 documents on one template object
    rnd = random.Random(ctx.seed + 17)
    by_dflt = {}
    for x in r.records:
        by_dflt.setdefault(x["dflt"], []).append(x)
    seqs = []
    for _ in range(120 if ctx.tier == "quick" else 1500):
        pool_ = by_dflt[rnd.choice(sorted(by_dflt))]
        seqs.append([rnd.choice(pool_) for _ in range(rnd.choice((2, 2, 3)))])
    with multiprocessing.get_context("fork").Pool(16) as pool:
        hres = pool.map(_history, [(sq, ctx.seed + i) for i, sq in enumerate(seqs)])
    for n, out in hres:
        ctx.replays += n
        for text, payload in out[:1]:
            if len(ctx.violations) < 10:
                ctx.violation(text, dict(kind="sniff-history", **payload))
    ctx.notes["document_sequences"] = len(seqs)
    ctx.nontrivial += len(recs)
    ctx.sample(recs[len(recs) // 3])
    ctx.exhaustive = ctx.tier != "quick"
    ctx.rule = ("every combination of BOM kind {none, utf-8, utf-16 LE/BE, utf-32 LE/BE} x XML declaration {none, without "
                "encoding, with each of 4 encodings} x meta charset {none, 4 encodings} x default encoding (quick: all "
                "BOM-less combinations + 60 sampled with BOM); 3 spellings of declaration/meta each; string- and file-based "
                "classes; non-trivial = every combination")
    ctx.assumptions += ["is-XML is read off content_type == 'text/xml'; for HTML documents the reported content type may be the one named by the meta element",
                        "the losing labels (declaration/meta/default) name other real encodings so that a wrong priority decodes differently or fails"]
