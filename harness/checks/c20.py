"""C20 -- text-mode templates copy their source verbatim except for ${...} and $$.

Spec: specs/Interp.tla in context `textmode` (one token, nothing escaped).
TLC enumerates every text of <= 3 (quick) / 4 (thorough) parts whose literals
are drawn from the markup alphabet < > & / ! - = " ' { } newline CR x e-acute,
so that tag-, comment-, PI-, CDATA- and end-tag-looking runs occur at the start
and in the middle of the source; PageTextTemplate output and evaluation log
must be a behaviour of the specification.  The file variant
(PageTextTemplateFile) must return the same text encoded with the template's
encoding; values containing markup must arrive unescaped.
"""
from harness import REPO_SRC  # noqa: E402
import os
import random
import sys
import tempfile

from . import interp_common as IC

LIT = ["lt", "gt", "amp", "sl", "ex", "hy", "eq", "dq", "sq", "lb", "rb", "nl", "cr", "x", "u"]


def run(ctx):
    quick = ctx.tier == "quick"
    rnd = random.Random(ctx.seed)
    cfg = dict(lit=LIT if not quick else LIT, shapes=["call", "strbrace", "dictlit", "multiline", "strdollar", "samecall", "strent"] if quick else list(IC.SHAPES)[:9] + ["multiline", "samecall", "strent"],
               contexts=["textmode"], maxparts=3, maxdol=2 if quick else 3, maxstack=0)
    # (four parts over the full alphabet are 8 * 10^5 records of a kilobyte: texts of four parts come over smaller alphabets)
    recs = IC.run_spec(ctx, "InterpTextMode", cfg)
    IC.replay(ctx, recs, "textmode")
    if not quick:
        cfg = dict(lit=["lt", "amp", "lb", "rb", "nl", "x"], shapes=["call", "strbrace", "strent", "multiline"], contexts=["textmode"],
                   maxparts=4, maxdol=2, maxstack=0)
        recs = IC.run_spec(ctx, "InterpTextMode4", cfg)
        IC.replay(ctx, recs, "textmode4")
    # longer texts over a small alphabet: the same expression text more than once, '$' runs at line ends
    cfg = dict(lit=["nl", "x", "lt"], shapes=["call", "samecall"], contexts=["textmode"], maxparts=4, maxdol=2 if quick else 3, maxstack=0)
    recs = IC.run_spec(ctx, "InterpTextMode2", cfg)
    IC.replay(ctx, recs, "textmode2")
    markup_runs(ctx, rnd)
    # what another template left behind (a rejected one, one with options of its own) does not reach a text template
    from .. import isolation
    ctx.replays += isolation.run(ctx, "text mode")
    ctx.exhaustive = True
    ctx.rule = ("all part sequences up to the bound over 15 literal classes (markup characters, both quotes, braces, LF, "
                "CR, non-ASCII), '$' runs and brace groups; plus hand-listed markup-looking sources (tags, comments, "
                "<!--!, PIs, CDATA, end tags, TAL attributes) at the start / middle, values containing markup, and the "
                "file variant with three encodings; non-trivial = every replayed input")
    ctx.assumptions += ["CR and CRLF are rewritten to LF in text mode as well (documented normalisation outside XML mode)"]


def markup_runs(ctx, rnd):
    sys.path.insert(0, REPO_SRC)
    from chameleon import PageTextTemplate, PageTextTemplateFile
    pieces = ["<b>", "</b>", "<!-- c -->", "<!--! c -->", "<!--? c -->", "<?python x = 1 ?>", "<?php ?>", "<![CDATA[ x ]]>",
              '<a tal:content="x" tal:omit-tag="">', "<br />", "<!DOCTYPE html>", "&amp;", "&lt;", "<", ">", "</", "<!", "<?",
              '<?xml version="1.0"?>', "é€", "a < b && c > d"]
    n = 0
    val = "<i>&\"'</i>"
    for a in pieces:
        for b in pieces[:8] if ctx.tier == "quick" else pieces:
            for shape in ("%s${x}%s", "${x}%s%s", "%s%s$$${x}", "%s$${x}%s"):
                src = shape % (a, b)
                want = src.replace("$$${x}", "$" + val).replace("$${x}", "\0").replace("${x}", val).replace("\0", "${x}")
                n += 1
                try:
                    got = PageTextTemplate(src)(x=val)
                except Exception as e:
                    got = "EXC %s: %s" % (type(e).__name__, str(e).splitlines()[:1])
                if got != want:
                    if len(ctx.violations) < 6:
                        ctx.violation("text template %r renders %r, expected %r" % (src, got, want), dict(kind="textmode", source=src))
    # file variant: bytes in the template's encoding
    d = tempfile.mkdtemp(prefix="c20_")
    try:
        for enc in ("utf-8", "latin-1", "utf-16"):
            for a in pieces[:6] + ["é"]:
                src = "%s ${x} $$ é" % a
                path = os.path.join(d, "t.txt")
                with open(path, "wb") as f:
                    f.write(src.encode("utf-8"))
                n += 1
                try:
                    t = PageTextTemplateFile(path, encoding=enc)
                    got = t.render(x=val)
                    want = ("%s %s $ é" % (a, val)).encode(enc)
                    if not isinstance(got, bytes) or got != want:
                        ctx.violation("PageTextTemplateFile(%r, encoding=%s) returned %r, expected %r" % (src, enc, got, want),
                                      dict(kind="textmode-file", source=src))
                except Exception as e:
                    ctx.violation("PageTextTemplateFile(%r, encoding=%s) raised %s: %s" % (src, enc, type(e).__name__, e),
                                  dict(kind="textmode-file", source=src))
        # one file template (auto_reload) whose file is rewritten in other encodings, and whose configured encoding is
        # changed between renders: every render returns the current text in the encoding that holds at that moment
        # (what a new template object on the same file returns)
        import codecs
        import itertools
        encs = ["utf-8", "utf-16", "utf-8-sig", "utf-32", "utf-16-le", "gb18030"]

        def mk(enc, text):
            """the bytes of a file holding `text` in the encoding, with the byte-order mark the encoding is known by"""
            if enc == "utf-16-le":
                return codecs.BOM_UTF16_LE + text.encode(enc)
            if enc == "gb18030":
                return b"\x84\x31\x95\x33" + text.encode(enc)
            if enc == "utf-16-be":
                return codecs.BOM_UTF16_BE + text.encode(enc)
            if enc == "utf-32-be":
                return codecs.BOM_UTF32_BE + text.encode(enc)
            return text.encode(enc)
        seqs = list(itertools.permutations(encs, 2)) + [("utf-8", "utf-16", "utf-8"), ("utf-16", "utf-8-sig", "utf-32", "utf-8")]
        for seq in seqs:
            path = os.path.join(d, "h.txt")
            t = None
            for k, enc in enumerate(seq):
                src = "v%d <%s> ${x} $$ é" % (k, enc)
                data = mk(enc, src)
                open(path, "wb").write(data)
                os.utime(path, (1000 + 10 * k, 1000 + 10 * k))
                n += 1
                try:
                    if t is None:
                        t = PageTextTemplateFile(path, auto_reload=True)
                    got = t.render(x=val)
                    fresh = PageTextTemplateFile(path).render(x=val)
                    text = "v%d <%s> %s $ é" % (k, enc, val)
                    # (the output is the file's bytes with the interpolations filled in: same encoding, same mark)
                    if got != fresh or got != mk(enc, text):
                        ctx.violation("text file template, file rewritten in the encodings %s: render %d returns %r; a new template on the "
                                      "file returns %r (text %r in %s)" % (list(seq), k + 1, got, fresh, text, enc),
                                      dict(kind="textmode-file-history", encodings=list(seq)))
                        break
                except Exception as e:
                    ctx.violation("text file template, encodings %s: raised %s: %s" % (list(seq), type(e).__name__, e),
                                  dict(kind="textmode-file-history", encodings=list(seq)))
                    break
        # a text file that starts with an XML declaration is an XML document: its line endings are kept -- whatever
        # byte-order mark stands in front of the declaration
        for enc in ("utf-8", "utf-8-sig", "utf-16", "utf-16-le", "utf-16-be", "utf-32", "utf-32-be"):
            path = os.path.join(d, "x.txt")
            src = '<?xml version="1.0"?>\r\nline ${x}\r\n\rend $$'
            open(path, "wb").write(mk(enc, src))
            n += 1
            try:
                t = PageTextTemplateFile(path)
                got = t.render(x=val)
                want = mk(enc, src.replace("${x}", val).replace("$$", "$"))
                if got != want or t.content_type != "text/xml":
                    ctx.violation("text file template starting with an XML declaration (%s, byte-order mark): returns %r, content_type %r; "
                                  "expected %r, text/xml" % (enc, got, t.content_type, want), dict(kind="textmode-file-xml", encoding=enc))
            except Exception as e:
                ctx.violation("text file template with an XML declaration (%s): raised %s: %s" % (enc, type(e).__name__, e),
                              dict(kind="textmode-file-xml", encoding=enc))
        for first, second in (("latin-1", "utf-16"), (None, "latin-1"), ("utf-16", None), ("utf-8", "cp1252")):
            path = os.path.join(d, "e.txt")
            open(path, "wb").write("a ${x} é".encode("utf-8"))
            n += 1
            try:
                t = PageTextTemplateFile(path, **({"encoding": first} if first else {}))
                r1 = t.render(x="ü")
                t.encoding = second
                r2 = t.render(x="ü")
                w1, w2 = ("a ü é".encode(first or "utf-8"), "a ü é".encode(second or "utf-8"))
                if (r1, r2) != (w1, w2):
                    ctx.violation("text file template with encoding %r, then template.encoding = %r: renders %r, %r; expected %r, %r" % (
                        first, second, r1, r2, w1, w2), dict(kind="textmode-file-history"))
            except Exception as e:
                ctx.violation("text file template, encoding %r then %r: raised %s: %s" % (first, second, type(e).__name__, e),
                              dict(kind="textmode-file-history"))
    finally:
        import shutil
        shutil.rmtree(d, ignore_errors=True)
    ctx.replays += n
