"""C02 -- inserted values are escaped and cannot change document structure.

Spec: specs/Escape.tla -- a transducer over the character classes & < > " ' a:
per insertion site the set of characters that must not appear raw; opt-out
sites copy the value.  TLC checks NoRawForbidden / UnescapeRoundTrip /
OptOutIsIdentity for all strings up to the bound at every site (model), and
validates, for every enumerated string x site x value kind, the region that
the REAL code produced (re-tokenised into raw / entity atoms by an independent
reader) against the transducer (C->S trace validation, batched), with a
corrupted-region control.  The harness additionally requires that everything
outside the inserted region equals the rendering with the harmless value.
"""
from __future__ import annotations

from harness import REPO_SRC  # noqa: E402

import itertools
import json
import multiprocessing
import os
import random
import re
import shutil
import sys

from ..pipeline import workdir
from ..tla import lit, run_tlc, TLASet

CH = {"amp": "&", "lt": "<", "gt": ">", "dq": '"', "sq": "'", "a": "a", "semi": ";", "hash": "#", "d": "6", "xx": "x"}
BASE = ["amp", "lt", "gt", "dq", "sq", "a"]      # the product is taken over these; the other (ordinary) classes occur in shaped values
ENT = {"amp": ["&amp;", "&#38;", "&#x26;"], "lt": ["&lt;", "&#60;", "&#x3c;", "&#x3C;"], "gt": ["&gt;", "&#62;", "&#x3e;", "&#x3E;"],
       "dq": ["&quot;", "&#34;", "&#x22;"], "sq": ["&#39;", "&apos;", "&#x27;"]}
ENT_REV = {e: c for c, es in ENT.items() for e in es}
ENT_RE = re.compile("|".join(re.escape(e) for e in sorted(ENT_REV, key=len, reverse=True)))

# site -> (template source, option dict, how the value is passed)
SITES = {
    "text": '<r>x${v}y</r>',
    "content": '<r><t tal:content="v">d</t></r>',
    "replace": '<r>x<t tal:replace="v">d</t>y</r>',
    "dqattr_interp": '<r><t a="x${v}y" b="2"/></r>',
    "sqattr_interp": "<r><t a='x${v}y' b='2'/></r>",
    "talattr_dq": '<r><t tal:attributes="a v" b="2"/></r>',
    "talattr_sq": "<r><t a='s' tal:attributes=\"a v\" b='2'/></r>",
    "dictattr": '<r><t tal:attributes="d" b="2"/></r>',
    # attributes written without delimiters that become dynamic are written with double quotes
    "talattr_unq": '<r><t a=s tal:attributes="a v" b="2"/></r>',
    "unq_interp": '<r><t a=x${v}y b="2"/></r>',
    "comment": '<r><!--x${v}y--></r>',
    "pi": '<r><?app x${v}y ?></r>',
    # text and attributes that are translated implicitly (options): the inserted value travels in the mapping
    "implicit_text": '<r><p>x ${v} y</p></r>',
    "implicit_attr": '<r><t title="x ${v} y" b="2"/></r>',
    "stringexpr": '<r><t tal:content="string:x${v}y">d</t></r>',
    "nameblock": '<r><p i18n:translate="">x <b i18n:name="n" tal:content="v">d</b> y</p></r>',
    "i18nattr_dq": '<r><t title="${v}" i18n:attributes="title"/></r>',
    # insertions inside the body of a translated element without explicit id (the rendered body is message id and default)
    "trbody_interp": '<r><p i18n:translate="">x${v}y</p></r>',
    "trbody_content": '<r><p i18n:translate="">a<b tal:content="v">d</b>c</p></r>',
    "trbody_attr": '<r><p i18n:translate="">a<b tal:attributes="t v" u="2">d</b>c</p></r>',
    "trbody_dict": '<r><p i18n:translate="">a<b tal:attributes="d" u="2">d</b>c</p></r>',
    "content_translate": '<r><t tal:content="v" i18n:translate="">d</t></r>',
    "replace_translate": '<r>x<t tal:replace="v" i18n:translate="">d</t>y</r>',
    # the fallback of tal:on-error is an insertion of its own: text unless ITS clause says structure, whatever the
    # element's own tal:content / tal:replace says; also through a string: expression and on a translated element
    "onerror": '<r><t tal:on-error="v">d${1/0}</t></r>',
    "onerror_string": '<r><t tal:on-error="string:x${v}y">d${1/0}</t></r>',
    "onerror_beside_structure": '<r><t tal:content="structure 1/0" tal:on-error="v">d</t></r>',
    "onerror_beside_structure_replace": '<r>x<t tal:replace="structure 1/0" tal:on-error="v">d</t>y</r>',
    "onerror_text_kw": '<r><t tal:content="structure 1/0" tal:on-error="text v">d</t></r>',
    "onerror_translate": '<r><t i18n:translate="" tal:on-error="v">d${1/0}</t></r>',
    # opt-outs
    "structure_kw": '<r><t tal:content="structure v">d</t></r>',
    "structure_expr": '<r>x${structure: v}y</r>',
    "html_obj": '<r>x${v}y</r>',
    "cdata": '<r><![CDATA[x${v}y]]></r>',
    "textmode": 'x${v}y',
}
KINDS = ["str", "strsub", "bytes", "obj", "msg", "intsub", "floatsub", "trkey", "zmsg"]
SITE_OPTS = {"implicit_text": {"implicit_i18n_translate": True}, "implicit_attr": {"implicit_i18n_attributes": {"title"}}}
# plain-str message ids whose catalogue translation is the hostile text: only where the value itself is a message id
CATALOG = {}
CATKEY_SITES = ("content_translate", "replace_translate", "onerror_translate")


class StrSub(str):
    pass


class Obj:
    def __init__(self, s):
        self.s = s

    def __str__(self):
        return self.s


class Msg:
    """a message object: its translation is the hostile text"""

    def __init__(self, s):
        self.s = s

    def __str__(self):
        return "untranslated"


class Html:
    def __init__(self, s):
        self.s = s

    def __html__(self):
        return self.s


class TrKey(str):
    """a message id (a str subclass with harmless text) whose catalogue translation is the hostile text"""

    def __new__(cls, s):
        o = str.__new__(cls, "msgid")
        o.s = s
        return o


class ZMsg(str):
    """a message in the style of zope.i18nmessageid: a str subclass with domain / default / mapping attributes whose text
    is the (hostile) value"""
    domain = "d"
    default = None
    mapping = None

    def __new__(cls, s):
        o = str.__new__(cls, s)
        o.default = s
        o.mapping = {"inner": s}
        return o


class IntSub(int):
    """a number subclass whose string form is hostile (e.g. an int-backed enum with a label)"""

    def __new__(cls, s):
        o = int.__new__(cls, 3)
        o.s = s
        return o

    def __str__(self):
        return self.s


class FloatSub(float):
    def __new__(cls, s):
        o = float.__new__(cls, 1.5)
        o.s = s
        return o

    def __str__(self):
        return self.s


def make_value(kind, s):
    if kind == "str":
        return s
    if kind == "strsub":
        return StrSub(s)
    if kind == "bytes":
        return s.encode("utf-8")
    if kind == "obj":
        return Obj(s)
    if kind == "msg":
        return Msg(s)
    if kind == "zmsg":
        return ZMsg(s)
    if kind == "html":
        return Html(s)
    if kind == "trkey":
        return TrKey(s)
    if kind == "catkey":
        key = "cat" + "".join("%02x" % ord(ch) for ch in s)
        CATALOG[key] = s
        return key
    if kind == "intsub":
        return IntSub(s)
    if kind == "floatsub":
        return FloatSub(s)
    raise ValueError(kind)


def translate(msgid, domain=None, mapping=None, context=None, target_language=None, default=None):
    if isinstance(msgid, (Msg, TrKey)):
        return msgid.s
    if type(msgid) is str and msgid in CATALOG:
        return CATALOG[msgid]
    if default is None:
        default = msgid
    if mapping and isinstance(default, str):
        for k, v in mapping.items():
            default = default.replace("${%s}" % k, str(v))
    return default


def atoms_of(region):
    out = []
    pos = 0
    for m in ENT_RE.finditer(region):
        for ch in region[pos:m.start()]:
            out.append({"e": False, "c": [k for k, v in CH.items() if v == ch][0] if ch in CH.values() else "?"})
        out.append({"e": True, "c": ENT_REV[m.group()]})
        pos = m.end()
    for ch in region[pos:]:
        out.append({"e": False, "c": [k for k, v in CH.items() if v == ch][0] if ch in CH.values() else "?"})
    return out


def model_run(ctx, maxlen):
    wd = workdir("escape")
    try:
        open(os.path.join(wd, "MCEsc.tla"), "w").write(
            "---- MODULE MCEsc ----\nEXTENDS Escape\nMCChars == %s\nMCSites == %s\n====\n" % (lit(TLASet(CH)), lit(TLASet(SITES))))
        open(os.path.join(wd, "MCEsc.cfg"), "w").write(
            "SPECIFICATION Spec\nCONSTANTS\n Chars <- MCChars\n Sites <- MCSites\n MaxLen = %d\n"
            "INVARIANT NoRawForbidden\nINVARIANT UnescapeRoundTrip\nINVARIANT OptOutIsIdentity\n" % maxlen)
        r = run_tlc("MCEsc", "MCEsc.cfg", wd, workers=8, timeout=1800, java_opts=["-Xmx6g"])
    finally:
        shutil.rmtree(wd, ignore_errors=True)
    if r.violation:
        ctx.violation("TLC: %s violated on Escape" % r.violation, dict(kind="tlc", tail=r.stdout[-2000:]))
    elif not r.ok():
        ctx.fail("Escape model run failed: %s %s" % (r.error, r.stdout[-1500:]))
    ctx.states += r.distinct
    ctx.transitions += r.states
    ctx.parts.append(dict(tag="Escape.model", states=r.states, distinct=r.distinct, wall_tlc=r.wall))


def _render_site(args):
    site, strings = args
    sys.path.insert(0, REPO_SRC)
    from chameleon import PageTemplate, PageTextTemplate
    src = SITES[site]
    T = PageTextTemplate if site == "textmode" else PageTemplate
    t = T(src, translate=translate, **SITE_OPTS.get(site, {}))
    # at the opt-out sites only the bypass itself is claimed: str (and __html__) values
    kinds = ["html"] if site == "html_obj" else (["str"] if site in ("structure_kw", "structure_expr", "cdata", "textmode") else KINDS)
    if site in CATKEY_SITES:
        kinds = kinds + ["catkey"]
    traces = []
    viol = []

    def render(value):
        if site in ("dictattr", "trbody_dict"):
            return t(d={"a": value})
        return t(v=value)
    base = render("a")
    k = base.find("a", base.find("x") + 1 if "x" in base and site not in ("content", "talattr_dq", "talattr_sq", "dictattr", "structure_kw", "nameblock", "i18nattr_dq", "talattr_unq", "talattr_bare") else 0)
    # locate the harmless value: the rendering with "a" and with "aa" differ exactly there
    base2 = render("aa")
    k = next(i for i in range(len(base)) if base[i:] != base2[i + 1:] and base[:i] == base2[:i]) if base != base2 else -1
    k = [i for i in range(len(base) + 1) if base[:i] == base2[:i] and base[i:] == base2[i + 1:]]
    if not k:
        return traces, [("site %s: cannot locate the inserted region (harmless renderings %r / %r)" % (site, base, base2), {})], 0
    k = k[0]
    # base[:k] + 'a' ... : region of the 1-char value is base[k'] -- find prefix/suffix around it
    # the value "a" occupies one character at some index j with base[j] == 'a' and j in the range of equal prefix
    j = max(i for i in range(k + 1) if base[i:i + 1] == "a" and base[:i] + "a" + base[i:] == base2) if any(
        base[i:i + 1] == "a" and base[:i] + "a" + base[i:] == base2 for i in range(k + 1)) else None
    if j is None:
        return traces, [("site %s: cannot isolate the region" % site, {})], 0
    prefix, suffix = base[:j], base[j + 1:]
    n = 0
    for kind in kinds:
        for s in strings:
            text = "".join(CH[c] for c in s)
            val = make_value(kind, text)
            try:
                got = render(val)
            except Exception as e:
                viol.append(("site %s, kind %s, value %r: render raised %s: %s" % (site, kind, text, type(e).__name__, e), {}))
                continue
            n += 1
            if not (got.startswith(prefix) and got.endswith(suffix) and len(got) >= len(prefix) + len(suffix)):
                viol.append(("site %s, kind %s, value %r: the document around the inserted region changed: %r (harmless: %r)" % (
                    site, kind, text, got, base), dict(source=src)))
                continue
            region = got[len(prefix):len(got) - len(suffix)]
            traces.append({"site": site, "kind": kind, "val": list(s), "out": atoms_of(region), "region": region})
    return traces, viol, n


COMPOSITE_ORDERS = [
    ("text", "dqattr_interp", "sqattr_interp", "content", "talattr_dq", "talattr_sq", "comment", "replace"),
    ("sqattr_interp", "dqattr_interp", "text"),
    ("talattr_sq", "text", "talattr_dq", "content", "sqattr_interp"),
    ("comment", "dictattr", "talattr_sq", "dqattr_interp", "stringexpr"),
    ("content", "talattr_dq", "content", "talattr_sq", "text", "dqattr_interp"),
]


def _chars(text):
    """(escaped?, character) atoms of a rendering"""
    out = []
    pos = 0
    for m in ENT_RE.finditer(text):
        out += [(False, ch) for ch in text[pos:m.start()]]
        out.append((True, CH[ENT_REV[m.group()]]))
        pos = m.end()
    out += [(False, ch) for ch in text[pos:]]
    return out


def _no_less_escaped(got, want):
    """same characters, and wherever `want` writes a character as an entity `got` does too (writing MORE characters
    as entities than the site alone would is within the property)"""
    a, b = _chars(got), _chars(want)
    return len(a) == len(b) and all(x[1] == y[1] and (x[0] or not y[0]) for x, y in zip(a, b))


def _composite(args):
    """the same value inserted at several sites of ONE template: every region must be what the site produces when it
    stands alone (the regions of the single-site renderings were validated by TLC against the Escape transducer)"""
    order, strings = args
    sys.path.insert(0, REPO_SRC)
    from chameleon import PageTemplate
    inner = lambda s: s[len("<r>"):-len("</r>")]    # noqa: E731
    singles = [PageTemplate(SITES[site], translate=translate) for site in order]
    comp = PageTemplate("<r>" + "".join(inner(SITES[site]) for site in order) + "</r>", translate=translate)
    viol = []
    n = 0
    for kind in ("str", "strsub", "obj"):
        for s in strings:
            text = "".join(CH[c] for c in s)
            val = make_value(kind, text)
            kw = dict(v=val, d={"a": val})
            try:
                want = "<r>" + "".join(inner(t(**kw)) for t in singles) + "</r>"
                got = comp(**kw)
            except Exception as e:
                viol.append(("composite template of the sites %s, kind %s, value %r: render raised %s: %s" % (
                    list(order), kind, text, type(e).__name__, e), {}))
                continue
            n += 1
            if got != want and not _no_less_escaped(got, want):
                viol.append(("the value %r (%s) inserted at the sites %s of one template renders %r; each site alone gives %r" % (
                    text, kind, list(order), got, want), dict(source=comp.body if hasattr(comp, "body") else "", got=got, want=want)))
    return viol, n


TCFG = """SPECIFICATION TSpec
CONSTANTS
 Chars <- MCChars
 Sites <- MCSites
 MaxLen = 100
CONSTRAINT Progress
POSTCONDITION AllAccepted
CHECK_DEADLOCK FALSE
"""


def _validate(batch):
    wd = workdir("esctr")
    try:
        json.dump([{k: t[k] for k in ("site", "val", "out")} for t in batch], open(os.path.join(wd, "traces.json"), "w"))
        open(os.path.join(wd, "MCEscTrace.tla"), "w").write(
            "---- MODULE MCEscTrace ----\nEXTENDS EscapeTrace\nMCChars == %s\nMCSites == %s\n====\n" % (
                lit(TLASet(list(CH) + ["?"])), lit(TLASet(SITES))))
        open(os.path.join(wd, "MCEscTrace.cfg"), "w").write(TCFG)
        r = run_tlc("MCEscTrace", "MCEscTrace.cfg", wd, workers=1, timeout=3000, deadlock=True, java_opts=["-Xmx4g"],
                    env_extra={"TRACE_FILE": os.path.join(wd, "traces.json")})
    finally:
        shutil.rmtree(wd, ignore_errors=True)
    rejected = None
    m = re.search(r'"REJECTED",\s*\{(.*?)\}', r.stdout, re.S)
    if m:
        rejected = "{" + " ".join(m.group(1).split()) + "}"
    elif "REJECTED" in r.stdout:
        rejected = "{}"
    return r.rc, rejected, r.states, r.distinct, r.stdout[-1200:]


def run(ctx):
    quick = ctx.tier == "quick"
    maxlen = 3 if quick else 4
    model_run(ctx, maxlen)
    strings = [combo for n in range(0, maxlen + 1) for combo in itertools.product(BASE, repeat=n)]
    extra = [("amp", "a", "amp"), ("lt", "sl" if False else "a", "gt", "dq", "sq", "amp")]
    # values shaped like character references / entities (the value is text, not markup: its '&' is escaped like any other)
    refs = [("amp", "a", "semi"), ("amp", "a", "a", "semi"), ("amp", "hash", "d", "semi"), ("amp", "hash", "d", "d", "semi"),
            ("amp", "hash", "xx", "d", "semi"), ("amp", "a")]
    extra += refs + [("a",) + r + ("lt",) for r in refs] + [r + r for r in refs[:3]] + [r + ("dq", "sq") for r in refs[:3]] \
        + [("amp",) + r for r in refs[:3]] + [("amp", "a", "semi", "a", "amp", "hash", "d", "semi", "gt")]
    strings += [e for e in extra if e not in strings]
    with multiprocessing.get_context("fork").Pool(16) as pool:
        res = pool.map(_render_site, [(s, strings) for s in SITES])
    traces = []
    for tr, viol, n in res:
        traces += tr
        ctx.replays += n
        for text, payload in viol[:3]:
            if len(ctx.violations) < 8:
                ctx.violation(text, dict(kind="escape", **payload))
    with multiprocessing.get_context("fork").Pool(len(COMPOSITE_ORDERS)) as pool:
        cres = pool.map(_composite, [(o, strings) for o in COMPOSITE_ORDERS])
    for viol, n in cres:
        ctx.replays += n
        for text, payload in viol[:2]:
            if len(ctx.violations) < 8:
                ctx.violation(text, dict(kind="escape-composite", **payload))
    loader_format_part(ctx)
    B = 40000
    batches = [traces[i:i + B] for i in range(0, len(traces), B)]
    with multiprocessing.get_context("fork").Pool(min(8, max(1, len(batches)))) as pool:
        vres = pool.map(_validate, batches)
    for (rc, rejected, states, distinct, tail), b in zip(vres, batches):
        ctx.states += distinct
        ctx.transitions += states
        if rejected:
            m = re.search(r"\{([\d, ]+)\}", rejected)
            ids = [int(x) for x in m.group(1).split(",") if x.strip()][:3] if m else []
            if not ids:
                ctx.violation("regions produced by the real code were rejected by the Escape transducer: %s" % rejected[:300],
                              dict(kind="escape"))
            for tid in ids:
                t = b[tid - 1]
                ctx.violation("site %s, kind %s: value %r was inserted as %r -- rejected by the Escape transducer "
                              "(raw forbidden character, or the region does not un-escape to the value)" % (
                                  t["site"], t["kind"], "".join(CH[c] for c in t["val"]), t["region"]),
                              dict(kind="escape", trace=t, template=SITES[t["site"]]))
        elif rc != 0:
            ctx.fail("EscapeTrace run failed: %s" % tail)
    ctx.traces += len(traces)
    ctx.nontrivial += sum(1 for t in traces if any(c != "a" for c in t["val"]))
    if traces:
        ctx.sample({k: traces[len(traces) // 2][k] for k in ("site", "kind", "val", "region")})
        # negative control: turn one entity into a raw character
        bad = [dict(t) for t in traces if any(a["e"] for a in t["out"])][:30]
        if bad:
            o = [dict(a) for a in bad[0]["out"]]
            for a in o:
                if a["e"]:
                    a["e"] = False
                    break
            bad[0] = dict(bad[0], out=o)
            rc, rejected, *_ = _validate(bad)
            ctx.notes["escape_negative_control"] = "corrupted region rejected" if rejected else "ACCEPTED"
            if not rejected:
                ctx.fail("negative control: a region with a raw forbidden character was accepted")
    ctx.exhaustive = True
    ctx.rule = ("all strings over {& < > \" ' a} up to length %d x %d insertion sites (12 escaping, 5 opt-out) x value kinds "
                "{str, str subclass, bytes, object with hostile __str__, int / float subclass with hostile __str__, message object whose translation is hostile; "
                "__html__ object at its opt-out site}; non-trivial = the string contains a markup character" % (maxlen, len(SITES)))
    ctx.assumptions += ["unquoted attribute values and hostile attribute-dictionary KEYS are outside the statement",
                        "the character classes stand for the six concrete characters themselves"]


def loader_format_part(ctx):
    """the opt-out of text mode belongs to the template that was asked for as text: the same file asked for as a
    markup template (before or after) escapes"""
    import shutil
    import tempfile
    sys.path.insert(0, REPO_SRC)
    from chameleon.zpt.loader import TemplateLoader
    d = tempfile.mkdtemp(prefix="c02l_")
    try:
        open(os.path.join(d, "t.pt"), "w").write('<r a="${v}">${v}</r>')
        hostile = "<b>&\"'"
        for order in (("text", "xml"), ("xml", "text", "xml"), ("text", None)):
            L = TemplateLoader([d])
            for f in order:
                t = L.load("t.pt", f) if f else L.load("t.pt")
                got = t(v=hostile)
                ctx.replays += 1
                if f == "text":
                    want = ('<r a="%s">%s</r>' % (hostile, hostile)).encode("utf-8")
                    ok = got == want
                else:
                    ok = isinstance(got, str) and re.fullmatch(r'<r a="[^"<>]*">[^<>]*</r>', got) is not None
                if not ok:
                    ctx.violation("one file loaded in the formats %s through one loader: the %s template renders %r for the value %r" % (
                        list(order), f or "default (markup)", got, hostile), dict(kind="escape-loader-format"))
                    return
    finally:
        shutil.rmtree(d, ignore_errors=True)
