"""Binding of specs/ZPTScope.tla to chameleon.utils.Scope (part of C05).

S->C: TLC enumerates every reachable (configuration, operation) pair; each is
      rebuilt on real Scope objects, the operation is applied and result and
      resulting configuration are compared.
C->S: Scope operation traces of real renders (a recording subclass is swapped
      in for chameleon.utils.Scope in this process only) are validated by TLC
      against the same spec (specs/ZPTScopeTrace.tla), thousands per JVM.
"""
from __future__ import annotations

from harness import REPO_SRC  # noqa: E402

import glob
import json
import os
import shutil
import sys

from ..pipeline import workdir
from ..tla import lit, run_tlc

MC = """---- MODULE MCScope ----
EXTENDS ZPTScope, Json
MCNames == {"a", "b"}
MCVals == {1, 2}
Emit == PrintT(ToJson([op |-> last.op, s |-> last.s, n |-> last.n, v |-> last.v, res |-> last.res,
                       pre |-> last.pre, post |-> scopes]))
====
"""
CFG = """SPECIFICATION Spec
CONSTANTS
 Names <- MCNames
 Vals <- MCVals
 MaxScopes = %d
INVARIANT GlobalsVisibleUnlessShadowed
INVARIANT IterIsUnion
INVARIANT LookupsAgree
INVARIANT RootsAreRoots
INVARIANT Emit
PROPERTY CopyIsolatesLocals
"""


def _build(pre):
    """real Scope objects for a model configuration"""
    from chameleon.utils import Scope
    objs = []
    for sc in pre:
        objs.append(None)
    for i, sc in enumerate(pre):
        if sc["root"] == i + 1:
            o = Scope()
            objs[i] = o
    for i, sc in enumerate(pre):
        if sc["root"] != i + 1:
            o = objs[sc["root"] - 1].copy()
            dict.clear(o)
            objs[i] = o
    for i, sc in enumerate(pre):
        for n, v in sc["loc"].items():
            if v != 0:
                dict.__setitem__(objs[i], n, v)
    return objs


def _project(objs):
    out = []
    for i, o in enumerate(objs):
        root = getattr(o, "_root", o)
        ri = [j for j, x in enumerate(objs) if x is root]
        out.append({"loc": {n: dict.get(o, n, 0) for n in ("a", "b")}, "root": (ri[0] + 1) if ri else -1})
    return out


def _apply(objs, t):
    op, s, n, v = t["op"], t["s"], t["n"], t["v"]
    o = objs[s - 1] if s else None
    try:
        if op == "set":
            o[n] = v
            return {"k": "ok"}
        if op == "del":
            del o[n]
            return {"k": "ok"}
        if op == "get":
            marker = object()
            r = o.get(n, marker)
            return {"k": "default"} if r is marker else {"k": "val", "v": r}
        if op == "getitem":
            return {"k": "val", "v": o[n]}
        if op == "getname":
            return {"k": "val", "v": o.get_name(n)}
        if op == "contains":
            return {"k": "bool", "b": n in o}
        if op == "iter":
            ks = list(o)
            if len(ks) != len(set(ks)):
                return {"k": "keys", "ks": ks, "dup": True}
            return {"k": "keys", "ks": sorted(ks)}
        if op == "setglobal":
            o.set_global(n, v)
            return {"k": "ok"}
        if op == "copy":
            objs.append(o.copy())
            return {"k": "new", "i": len(objs)}
        if op == "update":
            o.update({n: v})
            return {"k": "ok"}
    except KeyError:
        return {"k": "err", "e": "KeyError"}
    except NameError:
        return {"k": "err", "e": "NameError"}
    raise ValueError(op)


def s2c(ctx, maxscopes):
    wd = workdir("scope")
    try:
        open(os.path.join(wd, "MCScope.tla"), "w").write(MC)
        open(os.path.join(wd, "MCScope.cfg"), "w").write(CFG % maxscopes)
        r = run_tlc("MCScope", "MCScope.cfg", wd, workers=1, timeout=1200)
    finally:
        shutil.rmtree(wd, ignore_errors=True)
    if r.violation:
        ctx.violation("TLC: %s violated on ZPTScope" % r.violation, dict(kind="tlc", tail=r.stdout[-3000:]))
        return
    if not r.ok():
        ctx.fail("ZPTScope TLC run failed: %s %s" % (r.error, r.stdout[-1500:]))
        return
    ctx.states += r.distinct
    ctx.transitions += r.states
    n = 0
    for t in r.records:
        if t["op"] == "init":
            continue
        n += 1
        objs = _build(t["pre"])
        res = _apply(objs, t)
        want = dict(t["res"])
        if want.get("k") == "keys":
            want["ks"] = sorted(want["ks"])
        post = _project(objs)
        wpost = [{"loc": {k: v for k, v in sc["loc"].items()}, "root": sc["root"]} for sc in t["post"]]
        if res != want or post != wpost:
            ctx.violation("Scope.%s on %s: spec result %s / post %s, code result %s / post %s" % (
                t["op"], t["pre"], want, wpost, res, post), dict(kind="scope", transition=t))
            if len(ctx.violations) > 5:
                break
    ctx.behaviours += n
    ctx.replays += n
    ctx.nontrivial += n
    if r.records:
        ctx.sample({"scope_transition": {k: r.records[-1][k] for k in ("op", "s", "n", "v", "res", "pre")}})
    ctx.parts.append(dict(tag="ZPTScope.S2C", states=r.states, distinct=r.distinct, transitions_replayed=n,
                          wall_tlc=r.wall))


# ------------------------------------------------------------------ C->S
class TraceRec:
    def __init__(self):
        self.traces = []
        self.cur = None
        self.depth = 0
        self.ids = {}
        self.vals = {}

    def begin(self):
        self.cur = {"ev": [], "bad": False}
        self.ids = {}
        self.vals = {}

    def end(self):
        t = self.cur
        self.cur = None
        if t and not t["bad"] and t["ev"]:
            self.traces.append(t["ev"])

    def sid(self, o, new=False):
        k = id(o)
        if k not in self.ids:
            self.ids[k] = (len(self.ids) + 1, o)
        return self.ids[k][0]

    def vid(self, v):
        k = id(v)
        if k not in self.vals:
            self.vals[k] = (len(self.vals) + 1, v)   # keep alive
        return self.vals[k][0]


def install_recorder():
    import chameleon.utils as U
    import chameleon.template as T
    Orig = U.Scope
    rec = TraceRec()
    marker = object()

    class RecScope(Orig):
        __slots__ = ()

        def __init__(self, *a, **kw):
            Orig.__init__(self)
            if rec.cur is not None and rec.depth == 0:
                if a and isinstance(a[0], Orig):
                    pass            # copy(): the copy event is logged by copy()
                else:
                    if rec.ids:
                        rec.cur["bad"] = True      # a second root in one trace: not modelled
                    rec.sid(self)
            rec.depth += 1
            try:
                d = dict(*a, **kw) if not (a and isinstance(a[0], Orig)) else None
                if d is None:
                    dict.update(self, {k: a[0][k] for k in dict.keys(a[0])})
                else:
                    dict.update(self, d)
            finally:
                rec.depth -= 1
            if rec.cur is not None and rec.depth == 0 and not (a and isinstance(a[0], Orig)):
                for k, v in dict.items(self):
                    rec.cur["ev"].append({"op": "set", "s": rec.sid(self), "n": k, "v": rec.vid(v), "res": {"k": "ok"}})

        def _log(self, op, n, v, res):
            if rec.cur is not None and rec.depth == 0:
                rec.cur["ev"].append({"op": op, "s": rec.sid(self), "n": n, "v": v, "res": res})

        def __setitem__(self, k, v):
            Orig.__setitem__(self, k, v)
            self._log("set", k, rec.vid(v), {"k": "ok"})

        def __delitem__(self, k):
            try:
                Orig.__delitem__(self, k)
            except KeyError:
                self._log("del", k, 0, {"k": "err", "e": "KeyError"})
                raise
            self._log("del", k, 0, {"k": "ok"})

        def get(self, k, default=None):
            rec.depth += 1
            try:
                r = Orig.get(self, k, marker)
            finally:
                rec.depth -= 1
            self._log("get", k, 0, {"k": "default"} if r is marker else {"k": "val", "v": rec.vid(r)})
            return default if r is marker else r

        def __getitem__(self, k):
            rec.depth += 1
            try:
                try:
                    r = Orig.__getitem__(self, k)
                finally:
                    rec.depth -= 1
            except KeyError:
                self._log("getitem", k, 0, {"k": "err", "e": "KeyError"})
                raise
            self._log("getitem", k, 0, {"k": "val", "v": rec.vid(r)})
            return r

        def get_name(self, k):
            rec.depth += 1
            try:
                try:
                    r = Orig.get_name(self, k)
                finally:
                    rec.depth -= 1
            except NameError:
                self._log("getname", k, 0, {"k": "err", "e": "NameError"})
                raise
            self._log("getname", k, 0, {"k": "val", "v": rec.vid(r)})
            return r

        def __contains__(self, k):
            rec.depth += 1
            try:
                r = Orig.__contains__(self, k)
            finally:
                rec.depth -= 1
            self._log("contains", k, 0, {"k": "bool", "b": bool(r)})
            return r

        def copy(self):
            rec.depth += 1
            try:
                inst = Orig.copy(self)
            finally:
                rec.depth -= 1
            if rec.cur is not None and rec.depth == 0:
                self._log("copy", "", 0, {"k": "new", "i": rec.sid(inst)})
            return inst

        def set_global(self, k, v):
            Orig.set_global(self, k, v)
            self._log("setglobal", k, rec.vid(v), {"k": "ok"})

        def update(self, *a, **kw):
            d = dict(*a, **kw)
            rec.depth += 1
            try:
                Orig.update(self, d)
            finally:
                rec.depth -= 1
            for k, v in d.items():
                self._log("update", k, rec.vid(v), {"k": "ok"})

    U.Scope = RecScope
    T.Scope = RecScope
    return rec, (U, T, Orig)


def uninstall_recorder(tok):
    U, T, Orig = tok
    U.Scope = Orig
    T.Scope = Orig


def record_renders(ctx, rnd, nrand):
    """traces of real renders: golden templates of the repository + generated programs"""
    sys.path.insert(0, REPO_SRC)
    rec, tok = install_recorder()
    try:
        from chameleon import PageTemplate
        from chameleon.zpt.template import PageTemplateFile
        from chameleon.zpt.loader import TemplateLoader
        inputs = REPO_SRC + "/chameleon/tests/inputs"
        loader = TemplateLoader(inputs)
        ngold = 0
        for path in sorted(glob.glob(os.path.join(inputs, "*.pt"))):
            try:
                t = loader.load(os.path.basename(path))
                rec.begin()
                try:
                    t.render(literal="<div>Hello world!</div>", content="<div>Hello world!</div>",
                             message="m", load=loader.bind(PageTemplateFile))
                except Exception:
                    pass
                rec.end()
                ngold += 1
            except Exception:
                rec.cur = None
        from .. import families as F
        from ..concretize import concretize
        for _ in range(nrand):
            p = F.random_program(rnd, "quick", depth=3, max_items=10)
            src = concretize(p, 0).source
            try:
                t = PageTemplate(src)
                rec.begin()
                try:
                    t.render(e=lambda k: [1, 2] if k % 2 else "v")
                except Exception:
                    pass
                rec.end()
            except Exception:
                rec.cur = None
    finally:
        uninstall_recorder(tok)
    return rec.traces, ngold


TCFG = """SPECIFICATION TSpec
CONSTANTS
 Names <- TNames
 Vals <- TVals
 MaxScopes = 1000000
CONSTRAINT Progress
POSTCONDITION AllAccepted
CHECK_DEADLOCK FALSE
"""


def validate_traces(ctx, traces, negative_control=True):
    """TLC validates the recorded traces; returns number accepted"""
    if not traces:
        ctx.fail("no Scope traces recorded")
        return
    names = sorted({e["n"] for t in traces for e in t} | {k for t in traces for e in t if e["res"].get("k") == "keys" for k in e["res"]["ks"]})
    maxv = max([e["v"] for t in traces for e in t] + [e["res"].get("v", 0) for t in traces for e in t] + [1])

    def run(trs, tag):
        wd = workdir("scopetr")
        try:
            json.dump(trs, open(os.path.join(wd, "traces.json"), "w"))
            open(os.path.join(wd, "MCScopeTrace.tla"), "w").write(
                "---- MODULE MCScopeTrace ----\nEXTENDS ZPTScopeTrace\nTNames == %s\nTVals == 1..%d\n====\n" % (lit(set(names) | {""}), maxv))
            open(os.path.join(wd, "MCScopeTrace.cfg"), "w").write(TCFG)
            return run_tlc("MCScopeTrace", "MCScopeTrace.cfg", wd, workers=1, timeout=1200,
                           env_extra={"TRACE_FILE": os.path.join(wd, "traces.json")}, deadlock=True)
        finally:
            shutil.rmtree(wd, ignore_errors=True)
    r = run(traces, "real")
    rejected = "REJECTED" in r.stdout
    if rejected:
        line = [ln for ln in r.stdout.splitlines() if "REJECTED" in ln][:1]
        ctx.violation("Scope trace rejected by ZPTScopeTrace: %s" % line, dict(kind="scopetrace", tail=r.stdout[-2000:]))
    elif r.rc != 0 or r.error:
        ctx.fail("ZPTScopeTrace run failed: %s\n%s" % (r.error, r.stdout[-2000:]))
        return
    ctx.traces += len(traces)
    ctx.states += r.distinct
    ctx.transitions += r.states
    ctx.parts.append(dict(tag="ZPTScope.C2S", traces=len(traces), events=sum(len(t) for t in traces), states=r.states,
                          wall_tlc=r.wall))
    ctx.sample({"scope_trace_prefix": traces[0][:6]})
    if negative_control and not rejected:
        # corrupt one logged result: the trace must be rejected (the binding is not vacuous)
        import copy
        bad = copy.deepcopy(traces[:20])
        done = False
        for t in bad:
            for e in t:
                if e["res"].get("k") == "val":
                    e["res"]["v"] = e["res"]["v"] % maxv + 1
                    done = True
                    break
            if done:
                break
        r2 = run(bad, "neg")
        if done and "REJECTED" not in r2.stdout:
            ctx.fail("negative control: a corrupted Scope trace was accepted")
        ctx.notes["scope_negative_control"] = "corrupted trace rejected" if "REJECTED" in r2.stdout else "n/a"


def run(ctx, rnd):
    s2c(ctx, 3 if ctx.tier == "quick" else 4)
    traces, ngold = record_renders(ctx, rnd, 100 if ctx.tier == "quick" else 2000)
    ctx.notes["golden_templates_traced"] = ngold
    validate_traces(ctx, traces)
