"""C15 -- the on-disk module cache is sound and crash-safe.

Spec: specs/ModuleCache.tla.
(a) KeySound: equal keys imply equal code, for all pairs of configurations
    that differ in exactly one option -- an ASSUMEd theorem TLC checks with
    Hashed / Affecting as configured.  Bound to the code: for every option
    (and for body / class / file name) two templates that differ only there are
    compiled in both orders into one cache directory, in one process and in
    two successive processes; each must render exactly as without a cache.
(b) storing an entry: all interleavings of two writer processes and all crash
    points (TLC BFS, dumped schedules); each schedule is FORCED on real
    processes through the env-guarded hooks (a parent releases the writers
    label by label; a crash is os._exit at the label); afterwards every file
    under a final name must be complete Python for its entry and a fresh
    process must render through the cache exactly as without one.
"""
from __future__ import annotations

import json
import multiprocessing
import os
import random
import shutil
import subprocess
import sys
import tempfile

from ..pipeline import workdir
from ..tla import lit, run_tlc, TLASet

DRIVER = os.path.join(os.path.dirname(os.path.dirname(os.path.abspath(__file__))), "cache_driver.py")
PY = "/venv/bin/python"

# option -> (body, kwargs, value A, value B): the two values render differently
OPTIONS = {
    "boolean_attributes": ('<input tal:attributes="checked c" />', {"c": True}, None, []),
    "implicit_i18n_attributes": ('<a title="Hello">x</a>', {}, None, ["title"]),
    "implicit_i18n_translate": ("<a>Hello</a>", {}, False, True),
    "enable_data_attributes": ('<a data-tal-content="\'dyn\'">static</a>', {}, False, True),
    "enable_comment_interpolation": ("<a><!-- ${1 + 1} --></a>", {}, True, False),
    "restricted_namespace": ('<a foo:bar="1">x</a>', {}, True, False),
    "default_expression": ('<a tal:content="x">y</a>', {"x": "val"}, "python", "string"),
    "trim_attribute_space": ('<a  x="1"\n    y="2">z</a>', {}, False, True),
    "strict": ('<a tal:condition="False" tal:content="][">z</a>', {}, True, False),
    "tokenizer": ("<a>@@</a>", {}, False, True),
    "expression_types(partial)": ('<p tal:content="fmt:Hello ${name}!">x</p>', {"name": "World"}, "upper", "lower"),
    # names of extra builtins whose concatenations coincide
    "extra_builtins(names)": ("<p>${ab | 'no-ab'} ${c | 'no-c'} ${a | 'no-a'} ${bc | 'no-bc'} ${abc | 'no-abc'}</p>", {}, "ab|c", "a|bc"),
    # the same names bound to other values: the entry may be shared, the values may not
    "extra_builtins(values)": ("<p>${site} ${shout('Ab')}</p>", {}, "alpha", "beta"),
    # the same names registered in another order (a dictionary built from a set of names): same entry or not, every name
    # keeps its own value
    "extra_builtins(names in another order)": ("<p>${a} ${b} ${c | 'no-c'}</p>", {}, "a|b|c", "c|a|b"),
    "extra_builtins(names 2)": ("<p>${ab | 'no-ab'} ${c | 'no-c'} ${a | 'no-a'} ${bc | 'no-bc'} ${abc | 'no-abc'}</p>", {}, "abc", "a|bc"),
}


def run_driver(cache, job, env_extra=None, timeout=120):
    env = dict(os.environ)
    env["MALTHE_CHAMELEON_VERIF"] = "1"
    env["PYTHONHASHSEED"] = "0"
    if cache:
        env["CHAMELEON_CACHE"] = cache
    else:
        env.pop("CHAMELEON_CACHE", None)
    if env_extra:
        env.update(env_extra)
    p = subprocess.run([PY, DRIVER, json.dumps(job)], env=env, capture_output=True, text=True, timeout=timeout)
    outs = []
    for ln in p.stdout.splitlines():
        try:
            outs.append(json.loads(ln))
        except Exception:
            pass
    return p.returncode, outs, p.stderr[-500:]


def case_for(option, value, body, kwargs, cls="PageTemplate", filename=None):
    opts = {}
    if option == "implicit_i18n_attributes":
        opts = {"implicit_i18n_attributes": value, "_translate": True}
    elif option == "implicit_i18n_translate":
        opts = {"implicit_i18n_translate": value, "_translate": True}
    elif option == "tokenizer":
        opts = {"_tokenizer": True} if value else {}
    elif option == "expression_types(partial)":
        opts = {"_exprtype": value}
    elif option is not None and option.startswith("extra_builtins(names"):
        opts = {"_xb": value}
    elif option == "extra_builtins(values)":
        opts = {"_xbv": value}
    elif option is not None:
        opts = {option: value}
    return {"cls": cls, "body": body, "options": opts, "kwargs": kwargs, "filename": filename}


def _pair(args):
    name, a, b = args
    viol = []
    n = 0
    rc, base, err = run_driver(None, {"cases": [a, b]})
    if len(base) != 2:
        return 0, [("machinery: uncached reference render failed for %s: %s" % (name, err), {})]
    if base[0] == base[1] and "another order" not in name:     # (configurations that must NOT matter render alike, of course)
        return 0, [("machinery: the two configurations of %s render alike without a cache (%s)" % (name, base[0]), {})]
    for order in ((0, 1), (1, 0)):
        cases = [a, b]
        want = [base[order[0]], base[order[1]]]
        # same process
        d = tempfile.mkdtemp(prefix="c15_")
        try:
            rc, outs, err = run_driver(d, {"cases": [cases[order[0]], cases[order[1]]]})
            n += 1
            if outs != want:
                viol.append(("cache key: %s: compiled %s into one cache directory in one process, renderings %s, without cache %s" % (
                    name, "A then B" if order == (0, 1) else "B then A", outs, want), dict(option=name)))
        finally:
            shutil.rmtree(d, ignore_errors=True)
        # two successive processes
        d = tempfile.mkdtemp(prefix="c15_")
        try:
            rc1, o1, _ = run_driver(d, {"cases": [cases[order[0]]]})
            rc2, o2, _ = run_driver(d, {"cases": [cases[order[1]]]})
            rc3, o3, _ = run_driver(d, {"cases": [cases[order[0]], cases[order[1]]]})
            n += 3
            if o1 + o2 != want or o3 != want:
                viol.append(("cache key: %s: %s across processes, renderings %s then %s, without cache %s" % (
                    name, "A then B" if order == (0, 1) else "B then A", o1 + o2, o3, want), dict(option=name)))
        finally:
            shutil.rmtree(d, ignore_errors=True)
    return n, viol


def key_part(ctx):
    wd = workdir("modcache")
    try:
        opts = [o for o in OPTIONS if "another order" not in o]     # (a configuration that must not matter is no option of the key model)
        open(os.path.join(wd, "MCKey.tla"), "w").write(
            "---- MODULE MCKey ----\nEXTENDS ModuleCache\nMCOptions == %s\nMCHashed == %s\nMCAffecting == %s\nMCWriters == {1}\n====\n" % (
                lit(TLASet(opts)), lit(TLASet(opts)), lit(TLASet(opts))))
        open(os.path.join(wd, "MCKey.cfg"), "w").write(
            "SPECIFICATION Spec\nCONSTANTS\n Options <- MCOptions\n Hashed <- MCHashed\n Affecting <- MCAffecting\n Writers <- MCWriters\n MaxCrashes = 0\n"
            "INVARIANT FinalNameAlwaysComplete\n")
        r = run_tlc("MCKey", "MCKey.cfg", wd, workers=4, timeout=900)
    finally:
        shutil.rmtree(wd, ignore_errors=True)
    if not r.ok():
        ctx.fail("ModuleCache (key) run failed: %s %s %s" % (r.violation, r.error, r.stdout[-1200:]))
    ctx.states += r.distinct
    ctx.transitions += r.states
    jobs = []
    for o, (body, kw, va, vb) in OPTIONS.items():
        jobs.append((o, case_for(o, va, body, kw), case_for(o, vb, body, kw)))
    jobs.append(("body", case_for(None, None, "<a>one</a>", {}), case_for(None, None, "<a>two</a>", {})))
    # bodies that differ only slightly (line endings in XML mode, blanks, letter case, a trailing newline, an accent)
    for nm, ba, bb in (("body-xml-crlf", '<?xml version="1.0"?>\r\n<a>x\r\ny</a>', '<?xml version="1.0"?>\n<a>x\ny</a>'),
                       ("body-xml-cr", '<?xml version="1.0"?>\n<a>x\ry</a>', '<?xml version="1.0"?>\n<a>x\ny</a>'),
                       ("body-blanks", "<a>x  y</a>", "<a>x y</a>"), ("body-case", "<a>X</a>", "<a>x</a>"),
                       ("body-trailing-newline", "<a>x</a>\n", "<a>x</a>"), ("body-accent", "<a>\u00e9</a>", "<a>e</a>"),
                       ("body-tab", "<a>x\ty</a>", "<a>x y</a>")):
        jobs.append((nm, case_for(None, None, ba, {}), case_for(None, None, bb, {})))
    jobs.append(("class", case_for(None, None, "<b>${x}</b>&amp;", {"x": "<"}), case_for(None, None, "<b>${x}</b>&amp;", {"x": "<"}, cls="PageTextTemplate")))
    fd = tempfile.mkdtemp(prefix="c15f_")
    try:
        for nm, txt in (("a/t.pt", "<a>A</a>"), ("b/t.pt", "<a>B</a>")):
            os.makedirs(os.path.join(fd, os.path.dirname(nm)), exist_ok=True)
            open(os.path.join(fd, nm), "w").write(txt)
        jobs.append(("filename", case_for(None, None, None, {}, cls="PageTemplateFile", filename=os.path.join(fd, "a/t.pt")),
                     case_for(None, None, None, {}, cls="PageTemplateFile", filename=os.path.join(fd, "b/t.pt"))))
        with multiprocessing.get_context("fork").Pool(8) as pool:
            res = pool.map(_pair, jobs)
    finally:
        shutil.rmtree(fd, ignore_errors=True)
    for n, viol in res:
        ctx.replays += n
        for text, payload in viol:
            if text.startswith("machinery"):
                ctx.fail(text)
            else:
                ctx.violation(text, dict(kind="cachekey", **payload))
    ctx.nontrivial += len(jobs)
    ctx.behaviours += len(jobs) * 2
    ctx.sample({"option_pair": "boolean_attributes: None vs []", "body": OPTIONS["boolean_attributes"][0]})


# ------------------------------------------------------------------ schedules
STEP_LABEL = {"mkstemp": "build.mkstemp", "header": "build.header", "body": "build.body", "closed": "build.closed",
              "renamed": "build.renamed", "compiled": "build.compiled"}
BODY = '<html><p tal:repeat="i range(3)">${i} ${x}</p><b metal:define-macro="m">M</b></html>'
KW = {"x": "<&>"}


class Writer:
    def __init__(self, cache):
        self.r1, self.w1 = os.pipe()     # parent -> child
        self.r2, self.w2 = os.pipe()     # child -> parent
        env = dict(os.environ, MALTHE_CHAMELEON_VERIF="1", CHAMELEON_CACHE=cache, PYTHONHASHSEED="0")
        job = {"cases": [{"cls": "PageTemplate", "body": BODY, "options": {}, "kwargs": KW}], "sync": [self.r1, self.w2]}
        self.p = subprocess.Popen([PY, DRIVER, json.dumps(job)], env=env, stdout=subprocess.PIPE, stderr=subprocess.PIPE,
                                  pass_fds=(self.r1, self.w2), text=True)
        os.close(self.r1)
        os.close(self.w2)
        self.buf = b""
        self.at = None
        self.dead = False

    def wait_label(self, timeout=60):
        """block until the child reports its next label"""
        import select
        while b"\n" not in self.buf:
            r, _, _ = select.select([self.r2], [], [], timeout)
            if not r:
                raise TimeoutError("writer did not reach a label")
            chunk = os.read(self.r2, 4096)
            if not chunk:
                self.at = "eof"
                return self.at
            self.buf += chunk
        line, self.buf = self.buf.split(b"\n", 1)
        self.at = line.decode()
        return self.at

    def release(self):
        os.write(self.w1, b"g")

    def kill(self):
        self.p.kill()
        self.dead = True

    def finish(self):
        try:
            out, err = self.p.communicate(timeout=60)
        except Exception:
            self.p.kill()
            out, err = "", "timeout"
        for fd in (self.w1, self.r2):
            try:
                os.close(fd)
            except OSError:
                pass
        return out, err


def _schedule(args):
    sched, want = args
    d = tempfile.mkdtemp(prefix="c15s_")
    viol = []
    try:
        ws = {}
        order = ["build.locked"] + [STEP_LABEL[s] for s in ("mkstemp", "header", "body", "closed", "renamed", "compiled")]
        # every writer of the schedule has looked the entry up, missed, and is about to store it
        for w in sorted({ev["w"] for ev in sched}):
            ws[w] = Writer(d)
            ws[w].wait_label()              # build.locked: about to create its temporary file
        for ev in sched:
            w = ev["w"]
            wr = ws[w]
            if ev["step"] == "crash":
                wr.kill()
                continue
            if wr.dead:
                continue
            # let the writer perform the step: release it and wait until it reports the step's label
            wr.release()
            lab = wr.wait_label()
            if ev["step"] in STEP_LABEL and lab != STEP_LABEL[ev["step"]]:
                o, e = wr.finish()
                wr.dead = True
                # the writer left the protocol of the specification (it finished or failed before the step)
                viol.append(("schedule %s: writer %s did not perform step %s (it reported %r; its output: %s %s)" % (
                    _fmt(sched), w, ev["step"], lab, o.strip()[-200:], e.strip()[-200:]), dict(schedule=sched)))
                break
        # let every live writer run to completion
        for w, wr in ws.items():
            if not wr.dead:
                try:
                    while wr.at not in ("done", "eof"):
                        wr.release()
                        wr.wait_label()
                except Exception:
                    pass
        for w, wr in ws.items():
            out, err = wr.finish()
            if not wr.dead:
                got = [json.loads(l) for l in out.splitlines() if l.startswith("{")]
                if got != [want]:
                    viol.append(("schedule %s: writer %s rendered %s, without cache %s" % (_fmt(sched), w, got, want), dict(schedule=sched)))
        # directory: every final name holds complete Python; no file that a reader would load is partial
        for fn in os.listdir(d):
            if fn.endswith(".py"):
                src = open(os.path.join(d, fn), encoding="utf-8").read()
                try:
                    compile(src, fn, "exec")
                    if "def render" not in src or "return {" not in src:
                        raise SyntaxError("incomplete module")
                except SyntaxError as e:
                    viol.append(("schedule %s: cache entry %s is not a complete module (%s)" % (_fmt(sched), fn, e), dict(schedule=sched)))
        # a later process renders through the cache exactly as without one
        rc, outs, err = run_driver(d, {"cases": [{"cls": "PageTemplate", "body": BODY, "options": {}, "kwargs": KW}]})
        if outs != [want]:
            viol.append(("schedule %s: a later process renders %s through the cache (rc=%s %s), without cache %s" % (
                _fmt(sched), outs, rc, err[-200:], want), dict(schedule=sched)))
    except Exception as e:
        viol.append(("machinery: schedule %s: %s: %s" % (_fmt(sched), type(e).__name__, e), {}))
    finally:
        shutil.rmtree(d, ignore_errors=True)
    return viol


def _fmt(sched):
    return " ".join("%s:%s" % (e["w"], e["step"]) for e in sched)


def sched_part(ctx, quick, rnd):
    wd = workdir("modcache")
    try:
        opts = ["o"]
        open(os.path.join(wd, "MCSched.tla"), "w").write(
            "---- MODULE MCSched ----\nEXTENDS ModuleCache, Json\nMCOptions == {\"o\"}\nMCWriters == {1, 2}\n"
            "Emit == Quiescent => PrintT(ToJson([sched |-> sched, final |-> final]))\n====\n")
        open(os.path.join(wd, "MCSched.cfg"), "w").write(
            "SPECIFICATION Spec\nCONSTANTS\n Options <- MCOptions\n Hashed <- MCOptions\n Affecting <- MCOptions\n Writers <- MCWriters\n MaxCrashes = 2\n"
            "INVARIANT FinalNameAlwaysComplete\nINVARIANT Emit\nPROPERTY RenameOnlyComplete\n")
        r = run_tlc("MCSched", "MCSched.cfg", wd, workers=1, timeout=1800, java_opts=["-Xmx6g"])
    finally:
        shutil.rmtree(wd, ignore_errors=True)
    if r.violation or not r.ok():
        ctx.fail("ModuleCache (schedules) run failed: %s %s %s" % (r.violation, r.error, r.stdout[-1200:]))
        return
    ctx.states += r.distinct
    ctx.transitions += r.states
    recs = r.records
    ctx.parts.append(dict(tag="ModuleCache.schedules", states=r.states, schedules=len(recs), wall_tlc=r.wall))
    # one writer: every crash point
    wd = workdir("modcache")
    try:
        open(os.path.join(wd, "MCSched1.tla"), "w").write(
            "---- MODULE MCSched1 ----\nEXTENDS ModuleCache, Json\nMCOptions == {\"o\"}\nMCWriters == {1}\n"
            "Emit == Quiescent => PrintT(ToJson([sched |-> sched, final |-> final]))\n====\n")
        open(os.path.join(wd, "MCSched1.cfg"), "w").write(
            "SPECIFICATION Spec\nCONSTANTS\n Options <- MCOptions\n Hashed <- MCOptions\n Affecting <- MCOptions\n Writers <- MCWriters\n MaxCrashes = 1\n"
            "INVARIANT FinalNameAlwaysComplete\nINVARIANT Emit\nPROPERTY RenameOnlyComplete\n")
        r1 = run_tlc("MCSched1", "MCSched1.cfg", wd, workers=1, timeout=600)
    finally:
        shutil.rmtree(wd, ignore_errors=True)
    if r1.violation or not r1.ok():
        ctx.fail("ModuleCache (one writer) run failed: %s %s" % (r1.violation, r1.error))
        return
    ctx.states += r1.distinct
    ctx.transitions += r1.states
    recs = r1.records + recs
    # (schedules in which the storage runs out under a writer are part of the model -- the invariants hold on them -- and are
    # exercised on the real code by storage_part with file size limits, not through the step hooks)
    ctx.notes["schedules_with_write_failure"] = sum(1 for x in recs if any(e["step"] == "writefails" for e in x["sched"]))
    recs = [x for x in recs if not any(e["step"] == "writefails" for e in x["sched"])]
    # every single-writer crash point, plus sampled two-writer interleavings (with and without crashes)
    single = [x for x in recs if len({e["w"] for e in x["sched"]}) == 1 and x["sched"][-1]["step"] == "crash"]
    single = list({json.dumps(x["sched"]): x for x in single}.values())
    double = [x for x in recs if len({e["w"] for e in x["sched"]}) == 2]
    k = 40 if quick else 600
    sample = single[:16] + rnd.sample(double, min(k, len(double)))
    rc, base, err = run_driver(None, {"cases": [{"cls": "PageTemplate", "body": BODY, "options": {}, "kwargs": KW}]})
    if len(base) != 1:
        ctx.fail("reference render failed: %s" % err)
        return
    with multiprocessing.get_context("fork").Pool(8) as pool:
        res = pool.map(_schedule, [(x["sched"], base[0]) for x in sample])
    for viol in res:
        for text, payload in viol[:2]:
            if text.startswith("machinery"):
                ctx.fail(text)
            elif len(ctx.violations) < 8:
                ctx.violation(text, dict(kind="cache-schedule", **payload))
    ctx.behaviours += len(recs)
    ctx.replays += len(sample)
    ctx.nontrivial += len(sample)
    ctx.notes["schedules_enumerated_by_tlc"] = len(recs)
    ctx.notes["schedules_forced_on_processes"] = len(sample)
    ctx.notes["single_writer_crash_points"] = len(single[:16])
    if sample:
        ctx.sample({"schedule": _fmt(sample[-1]["sched"])})


def storage_part(ctx, quick):
    """the storage runs out while a module is stored (file size limit of n bytes on the writing process, writes beyond
    it fail): whatever the writer leaves behind, a later process without the limit renders as without a cache"""
    body = BODY + "<!-- " + "x" * 3000 + " -->"
    case = {"cls": "PageTemplate", "body": body, "options": {}, "kwargs": KW}
    small = {"cls": "PageTemplate", "body": "<p>Hello, world.</p>", "options": {}, "kwargs": {}}
    rc, base, err = run_driver(None, {"cases": [case, small]})
    if len(base) != 2:
        ctx.fail("storage part: reference render failed: %s" % err)
        return
    limits = [1, 40, 64, 200, 1000, 2500, 4096, 5000, 8192] if quick else [1, 10, 40, 64, 100, 200, 500, 1000, 2000, 2500, 3000, 4096, 5000, 6000, 8192, 12000]
    n = 0
    for lim in limits:
        d = tempfile.mkdtemp(prefix="c15s_")
        try:
            run_driver(d, {"cases": [case, small], "fsize_limit": lim})
            # (a) what stands under a final name is a complete module
            for fn in sorted(os.listdir(d)):
                if fn.endswith(".py"):
                    src = open(os.path.join(d, fn), "rb").read()
                    try:
                        compile(src, fn, "exec")
                        complete = b"def initialize" in src
                    except SyntaxError:
                        complete = False
                    if not complete:
                        ctx.violation("storage ran out at %d bytes while a writer stored modules: the entry %s (%d bytes) is not a complete "
                                      "module" % (lim, fn, len(src)), dict(kind="cache-storage", limit=lim))
                        return
            # (b) a later process renders as without a cache
            rc2, outs, err2 = run_driver(d, {"cases": [case, small]})
            n += 2
            if outs != base:
                pyc = os.path.join(d, "__pycache__")
                truncated = []
                for fn in (sorted(os.listdir(pyc)) if os.path.isdir(pyc) else []):
                    import marshal
                    data = open(os.path.join(pyc, fn), "rb").read()
                    try:
                        marshal.loads(data[16:])
                    except Exception:   # noqa
                        truncated.append(fn)
                known = [f for f in ctx.known() if f.get("kind") == "pyc-truncated-when-storage-runs-out"]
                if truncated and known and all(o == b or "exc" in o for o, b in zip(outs, base)):
                    ctx.known_finding(known[0], "limit %d bytes: %s under __pycache__ is truncated; a later process gets %s" % (lim, truncated, outs[-1]))
                    continue
                ctx.violation("storage ran out at %d bytes while a writer stored modules; a later process renders %s, without a cache %s "
                              "(directory: %s)" % (lim, str(outs)[:300], str(base)[:300], sorted(os.listdir(d))), dict(kind="cache-storage", limit=lim))
                return
        finally:
            shutil.rmtree(d, ignore_errors=True)
    ctx.replays += n
    ctx.notes["storage_limits"] = limits


def run(ctx):
    rnd = random.Random(ctx.seed)
    quick = ctx.tier == "quick"
    key_part(ctx)
    storage_part(ctx, quick)
    sched_part(ctx, quick, rnd)
    for f in ctx.known():
        ctx.witness(f)
    ctx.exhaustive = not quick
    ctx.rule = ("cache key: pairs of configurations differing in exactly one of 10 options, in body, class or file name, "
                "compiled in both orders into one directory in one process and across processes; storing: every crash "
                "point of a single writer and %s interleavings of two writer processes (with up to 2 crashes) taken from "
                "TLC's exhaustive enumeration and forced through the hooks; non-trivial = every pair / schedule" % (
                    "40 sampled" if quick else "600 sampled"))
    ctx.assumptions += ["os.rename within one directory is atomic; crashes are process deaths (os._exit / SIGKILL), not power failures",
                        "writers are separate processes (threads of one process are serialised by the loader's lock)"]
