"""C09 -- METAL: using a macro equals inlining it with its slots filled.

Machine: the METAL layer of specs/ZPT.tla (macro functions called with a copy
of the scope, fillers as closures in deques that live in the scope, one filler
popped per defined slot name when a macro function starts, extend-macro adding
to the left end, globals merged back after the call).
Oracles: (1) every behaviour of the machine is replayed on the real code (text,
call log); (2) the language-level statement: harness/inline.py produces the
METAL-free program Inline(caller, libraries); TLC runs the machine WITHOUT the
recorded deviation on both programs and the printed outputs must be equal
(InlineEquivalence, a design-level check), and the real code must render both
identically for every script.
"""
import random

from .. import families as F
from .. import concretize as C
from ..inline import inline
from ..pipeline import run_family

NAMES = ["x", "y", "g", "macroname", "error"]
INVS = ["WellBracketed", "AtMostOncePerReach", "LeaveRestores"]


def run(ctx):
    rnd = random.Random(ctx.seed)
    dev = ctx.known_devs()
    progs = F.c09_family(ctx.tier, rnd)
    # macros whose defining element carries tal:on-error (part of the macro wherever it is used)
    mprogs = F.c13_metal(ctx.tier, rnd)
    # (1) conformance: machine (with recorded deviations) vs real code
    agg = run_family("C09metal", progs, NAMES, dev=dev, invariants=INVS, perms=(0, 1), timeout=3000)
    ctx.add_family(agg)
    agg = run_family("C09onerror", mprogs, NAMES, dev=dev, invariants=INVS, perms=(0,), timeout=3000)
    ctx.add_family(agg)
    # macros and fillers inside / around translations (C10's programs T4m, T6m, T7): the filler's output is part of the
    # message it stands in, a named block written in a filler belongs to the translation opened around the use-macro,
    # and the text and the translate calls are those of the machine -- which renders a macro as its body in place
    tprogs = [p for p in F.c10_family(ctx.tier, rnd) if p["fam"].startswith(("C10:T4m", "C10:T6m", "C10:T7"))]
    agg = run_family("C09i18n", tprogs, NAMES, dev=dev, invariants=INVS, perms=(0, 1), timeout=3000)
    ctx.add_family(agg)
    # (2) inline equivalence on the ideal machine, via TLC on both programs
    # P8 (macroname) and P9 (assignments by code blocks stay inside the macro or filler) are not inline-equivalent by design
    # P10 (the macro is chosen by a variable at every use) has no static inlining; it is checked against the machine
    eq = [p for p in progs if "P8" not in p["fam"] and "P9" not in p["fam"] and "P10" not in p["fam"]]
    inl = [inline(p) for p in eq]
    a = run_family("C09ideal", eq, NAMES, dev=[], invariants=INVS, replay=False, timeout=3000, nshards=8, collect=True)
    b = run_family("C09inlined", inl, NAMES, dev=[], invariants=INVS, replay=False, timeout=3000, nshards=8, collect=True)
    for agg2 in (a, b):
        ctx.states += agg2["distinct"]
        ctx.transitions += agg2["states"]
        ctx.behaviours += agg2["behaviours"]
        if agg2["tlc_error"]:
            ctx.fail("TLC error in %s: %s" % (agg2["tag"], agg2["tlc_error"]))
        if agg2["tlc_violation"]:
            ctx.violation("TLC: invariant %s violated (family %s)" % (agg2["tlc_violation"], agg2["tag"]),
                          dict(kind="tlc", tail=agg2.get("tlc_tail")))
    compare_inline(ctx, eq, inl, a.get("records", {}), b.get("records", {}))
    # (2b) the real code renders the inlined program like the original
    real_inline(ctx, eq, inl, a.get("records", {}))
    macro_versions_part(ctx)
    for f in ctx.known():
        ctx.witness(f)
    # what one template leaves behind (rejected templates, templates with options of their own) does not reach another
    from .. import isolation
    ctx.replays += isolation.run(ctx, "macros")
    ctx.exhaustive = True
    ctx.rule = ("macro libraries with 1-2 macros and 0-3 slots (repeated names), callers filling every subset of slots "
                "plus an unknown name, same-template / other-template / whole-template macros, use inside repeat, macro "
                "locals and globals, fillers that use other macros, macros that use macros, sibling uses, extend-macro "
                "with fillers that define slots; each program also as its hand-inlined METAL-free counterpart; "
                "non-trivial = every behaviour")
    ctx.assumptions += ["use-macro elements carry no TAL statements of their own in the generated programs",
                        "macroname is the text after the last '/' of the use-macro expression (checked against the machine only)"]


def _texts(p, recs):
    from ..concretize import concretize, print_atoms, ValueFactory
    c = concretize(p, 0)
    vf = ValueFactory(object())
    out = {}
    for r in recs:
        key = tuple((e["k"], str(e["r"])) for e in r["log"] if e["ev"] == "call")
        if r["res"] == "ok":
            segs = print_atoms(r["out"], c, p, vf)
            # the whitespace between repetitions depends on where the element stands in its source
            out[key] = "".join("".join(s.split()) if isinstance(s, str) else "" for s in segs)
        else:
            out[key] = "FAIL:" + r["exc"]["c"]
    return out


def compare_inline(ctx, progs, inl, ra, rb):
    n = 0
    for idx, (p, q) in enumerate(zip(progs, inl)):
        ta = _texts(p, ra.get(idx, []))
        tb = _texts(q, rb.get(idx, []))
        n += len(ta)
        if ta != tb:
            k = [k for k in ta if ta.get(k) != tb.get(k)] or list(tb)
            ctx.violation("InlineEquivalence fails on the model for %s: macro program prints %r, inlined program prints %r" % (
                p["fam"], ta.get(k[0]) if k else ta, tb.get(k[0]) if k else tb), dict(kind="inline-model", fam=p["fam"]))
            if len(ctx.violations) > 6:
                break
    ctx.notes["inline_equivalence_behaviours_compared_on_model"] = n


def real_inline(ctx, progs, inl, ra):
    from ..replay import Replayer
    n = 0
    for idx, (p, q) in enumerate(zip(progs, inl)):
        rp = Replayer(p, NAMES, 0)
        rq = Replayer(q, NAMES, 0)
        for rec in ra.get(idx, []):
            outs = []
            for r in (rp, q and rq):
                r.rec.load(rec["log"])
                kw = {"e": r.rec.e, "snap": r.rec.snap, "T0": r.t}
                for m, lt in enumerate(r.libs, 1):
                    kw["T%d" % m] = lt
                for nm, v in p.get("init", {}).items():
                    kw[nm] = r.vf.make(v)
                try:
                    outs.append(r.t.render(**kw))
                except Exception as e:
                    outs.append("EXC:" + type(e).__name__)
            n += 1
            if "".join(outs[0].split()) != "".join(outs[1].split()):
                known = [f for f in ctx.known() if f.get("dev") == "FillerOutlivesUse"]
                if known and any(t in p["fam"] for t in ("P3", "P4", "P5")):
                    ctx.known_finding(known[0], "%s: with macros %r, inlined %r" % (p["fam"], outs[0], outs[1]))
                    continue
                ctx.violation("the real code renders the macro program and its inlined counterpart differently (%s):\n  macros:  %r\n  inlined: %r\n  caller: %r" % (
                    p["fam"], outs[0], outs[1], rp.c.source), dict(kind="inline-real", fam=p["fam"], source=rp.c.srcs, inlined=rq.c.source))
                if len(ctx.violations) > 6:
                    return
    ctx.replays += 2 * n


def macro_versions_part(ctx):
    """use-macro renders what the macro's defining element is NOW: after the defining template got a new body
    (write(), or its file changed under auto_reload -- whoever notices the change first), a use shows the new
    element, its new slots filled, like a use of a freshly made template"""
    import os
    import shutil
    import sys
    import tempfile
    from harness import REPO_SRC
    sys.path.insert(0, REPO_SRC)
    from chameleon import PageTemplate, PageTemplateFile
    V = {1: '<div><p metal:define-macro="m">one <i metal:define-slot="a">da</i></p><p metal:define-macro="gone">g</p></div>',
         2: '<div><ul metal:define-macro="m">two <i metal:define-slot="b">db</i> <u metal:define-slot="a">da2</u></ul><p metal:define-macro="new">n</p></div>',
         3: '<div><ol metal:define-macro="m">three</ol></div>'}
    user_src = ('<x metal:use-macro="lib.macros[\'m\']"><b metal:fill-slot="a">FA</b><b metal:fill-slot="b">FB</b></x>'
                '[${sorted(lib.macros.names)}]')
    n = 0

    def fresh(v):
        return PageTemplate(user_src)(lib=PageTemplate(V[v]))
    d = tempfile.mkdtemp(prefix="c09v_")
    try:
        for order in ((1, 2), (1, 2, 3), (2, 1, 2), (3, 1)):
            for how in ("write", "file-macro-first", "file-render-first", "file-names-first"):
                user = PageTemplate(user_src)
                path = os.path.join(d, "lib.pt")
                lib = None
                for k, v in enumerate(order):
                    if how == "write":
                        if lib is None:
                            lib = PageTemplate(V[v])
                        else:
                            lib.write(V[v])
                    else:
                        open(path, "w").write(V[v])
                        os.utime(path, (1000 + 10 * k, 1000 + 10 * k))
                        if lib is None:
                            lib = PageTemplateFile(path, auto_reload=True)
                        if how == "file-render-first":
                            lib()
                        elif how == "file-names-first":
                            list(lib.macros.names)
                    n += 1
                    try:
                        got = user(lib=lib)
                    except Exception as e:   # noqa
                        got = "EXC %s: %s" % (type(e).__name__, str(e).splitlines()[:1])
                    want = fresh(v)
                    if got != want:
                        ctx.violation("macro library given the versions %s (%s): the use after version %d renders %r; a use of a new "
                                      "template of that version renders %r" % (list(order), how, v, got, want),
                                      dict(kind="macro-versions", order=list(order), how=how))
                        return
    finally:
        shutil.rmtree(d, ignore_errors=True)
    ctx.replays += n
    ctx.notes["macro_version_cases"] = n
