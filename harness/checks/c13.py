"""C13 -- tal:on-error replaces exactly the failed element's output with the fallback.

Machine: specs/ZPT.tla actions SOe / Unwind / SFb.  Families: chains of nested
elements (depth <= 3) with on-error on any subset and omit-tag / repeat /
define / tal: elements between, a raising point before and after the inner
element on every level; TLC explores every subset of raising points and checks
OnErrorReplacesExactly (the stream is cut back to its length at the element's
entry) and WellBracketed.  Replay compares text, handler calls, call log and the
'error' fields read by the fallback expression.
"""
import random

from .. import families as F
from ..pipeline import run_family

NAMES = ["x", "y", "error"]
INVS = ["WellBracketed", "AtMostOncePerReach", "OnErrorReplacesExactly", "LeaveRestores"]


def run(ctx):
    rnd = random.Random(ctx.seed)
    quick = ctx.tier == "quick"
    dev = ctx.known_devs()
    # (thorough: the chain programs of the quick tier's size with four exception classes and three permutations -- the
    # thorough-sized programs have thousands of behaviours each: single shards printed more than the output cap and, before
    # there was a cap, sixteen of them exhausted the memory)
    progs = F.c13_chains("quick", rnd, excs=("ZeroDivisionError", "RecursionError") if quick else ("ZeroDivisionError", "RecursionError", "KeyError", "KeyboardInterrupt"))
    step = len(progs) if quick else 100
    for b in range(0, len(progs), step):
        agg = run_family("C13chain", progs[b:b + step], NAMES, dev=dev, invariants=INVS, perms=(0, 1) if quick else (0, 1, 2), timeout=1800)
        ctx.add_family(agg)
    agg = run_family("C13mode", F.c13_modes(ctx.tier, rnd), NAMES, dev=dev, invariants=INVS, perms=(0, 1), timeout=900)
    ctx.add_family(agg)
    agg = run_family("C13metal", F.c13_metal(ctx.tier, rnd), NAMES + ["macroname"], dev=dev, invariants=INVS, perms=(0, 1), timeout=1800)
    ctx.add_family(agg)
    n3 = 100 if quick else 2000
    f3 = [F.random_program(rnd, ctx.tier, depth=3, max_items=10, onerror=True, raising=True) for _ in range(n3)]
    agg = run_family("C13rand", f3, NAMES, dev=dev, invariants=INVS, perms=(0,),
                     timeout=1800, simulate=(200 if quick else 5000, 600, ctx.seed))
    ctx.add_family(agg)
    fallback_tag_part(ctx)
    for f in ctx.known():
        ctx.witness(f)
    # what one template leaves behind (rejected templates, templates with options of their own) does not reach another
    from .. import isolation
    ctx.replays += isolation.run(ctx, "on-error")
    ctx.exhaustive = True
    ctx.rule = ("chains of <=3 nested elements, each with/without tal:on-error and one of plain/omit-tag/omit-tag expr/"
                "repeat/define/tal:block, fallback const/call/structure/error-fields; every subset of the 2 raising "
                "points per level raising (lazy choice); plus simulated random programs with on-error; non-trivial = "
                "at least one call evaluated")
    ctx.assumptions += ["handler calls are observed through on_error_handler=; 'error' fields through the fallback expression"]


def fallback_tag_part(ctx):
    """the fallback's start tag carries the element's static attributes -- all of them, also those that are translated
    (i18n:attributes, implicit i18n attributes), written valueless, unquoted or with entities: it equals the start tag of
    the same element when nothing fails"""
    import sys
    from harness import REPO_SRC
    sys.path.insert(0, REPO_SRC)
    from chameleon import PageTemplate

    def tr(msgid, domain=None, mapping=None, context=None, target_language=None, default=None):
        return "T(%s)" % msgid
    statics = ['href="/h" title="Get help" alt="x"', "href='/h' title='a &amp; b' alt=x", 'title="t" checked', 'title="Get help"']
    i18ns = [("", {}), (' i18n:attributes="title"', {}), (' i18n:attributes="title tid"', {}), (' i18n:attributes="title; alt"', {}),
             ("", {"implicit_i18n_attributes": ["title"]}), (' i18n:attributes="alt"', {"implicit_i18n_attributes": ["title", "alt"]})]
    n = 0
    for st in statics:
        for ia, opts in i18ns:
            if "alt" in ia and "alt" not in st:
                continue
            for translate in (None, tr):
                for wrap in ('%s', '<div tal:on-error="string:OUTER">%s</div>', '<ul><li tal:repeat="i (1, 2)">%s</li></ul>'):
                    o = dict(opts)
                    if translate:
                        o["translate"] = translate
                    el = '<a %s%s tal:on-error="string:FB">k${%%s}</a>' % (st, ia)
                    bad = "<r>pre" + wrap % (el % "1/0") + "post</r>"
                    good = "<r>pre" + wrap % (el % "''") + "post</r>"
                    n += 1
                    try:
                        got = PageTemplate(bad, **o)()
                        want = PageTemplate(good, **o)().replace(">k</a>", ">FB</a>")
                    except Exception as e:
                        ctx.violation("fallback tag: %r raised %s: %s" % (bad, type(e).__name__, e), dict(kind="fallback-tag", source=bad))
                        continue
                    if got != want:
                        ctx.violation("fallback tag: %r (options %s) renders %r; the element's own start tag with the fallback "
                                      "content is %r" % (bad, sorted(opts), got, want), dict(kind="fallback-tag", source=bad, got=got, want=want))
                        if len(ctx.violations) > 6:
                            return
    ctx.replays += 2 * n
    ctx.notes["fallback_tag_cases"] = n
