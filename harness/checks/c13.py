"""C13 -- tal:on-error replaces exactly the failed element's output with the fallback.

Machine: specs/ZPT.tla actions SOe / Unwind / SFb.  Families: chains of nested
elements (depth <= 3) with on-error on any subset and omit-tag / repeat /
define / tal: elements between, a raising point before and after the inner
element on every level; TLC explores every subset of raising points and checks
OnErrorReplacesExactly (the stream is cut back to its length at the element's
entry) and WellBracketed.  Replay compares text, handler calls, call log and the
'error' fields read by the fallback expression.
"""
import random

from .. import families as F
from ..pipeline import run_family

NAMES = ["x", "y", "error"]
INVS = ["WellBracketed", "AtMostOncePerReach", "OnErrorReplacesExactly", "LeaveRestores"]


def run(ctx):
    rnd = random.Random(ctx.seed)
    quick = ctx.tier == "quick"
    dev = ctx.known_devs()
    progs = F.c13_chains(ctx.tier, rnd, excs=("ZeroDivisionError", "RecursionError") if quick else ("ZeroDivisionError", "RecursionError", "KeyError", "KeyboardInterrupt"))
    agg = run_family("C13chain", progs, NAMES, dev=dev, invariants=INVS, perms=(0, 1) if quick else (0, 1, 2), timeout=1800)
    ctx.add_family(agg)
    agg = run_family("C13metal", F.c13_metal(ctx.tier, rnd), NAMES + ["macroname"], dev=dev, invariants=INVS, perms=(0, 1), timeout=1800)
    ctx.add_family(agg)
    n3 = 100 if quick else 2000
    f3 = [F.random_program(rnd, ctx.tier, depth=3, max_items=10, onerror=True, raising=True) for _ in range(n3)]
    agg = run_family("C13rand", f3, NAMES, dev=dev, invariants=INVS, perms=(0,),
                     timeout=1800, simulate=(200 if quick else 5000, 600, ctx.seed))
    ctx.add_family(agg)
    for f in ctx.known():
        ctx.witness(f)
    ctx.exhaustive = True
    ctx.rule = ("chains of <=3 nested elements, each with/without tal:on-error and one of plain/omit-tag/omit-tag expr/"
                "repeat/define/tal:block, fallback const/call/structure/error-fields; every subset of the 2 raising "
                "points per level raising (lazy choice); plus simulated random programs with on-error; non-trivial = "
                "at least one call evaluated")
    ctx.assumptions += ["handler calls are observed through on_error_handler=; 'error' fields through the fallback expression"]
