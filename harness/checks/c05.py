"""C05 -- variable scoping: locals end with their element, globals persist.

(a) specs/ZPT.tla machine: every nesting <= 3 of define-local / define-global /
    repeat elements over a name pool with builtin and helper names, each name
    initially bound or not; TLC checks LeaveRestores and GlobalsPersist in every
    state; every behaviour is replayed with snapshots of the real variable
    environment (econtext) before / inside / after each element.
(b) specs/ZPTScope.tla: the two-level Scope dictionary; all operation sequences
    up to a bound, each replayed on real chameleon.utils.Scope objects; Scope
    operation traces of real renders validated by TLC (C->S).
(c) reserved names are rejected at compile time, at the name's token.
"""
from harness import REPO_SRC  # noqa: E402
import random

from .. import families as F
from ..pipeline import run_family
from . import scope_check

INVS = ["WellBracketed", "AtMostOncePerReach", "LeaveRestores", "GlobalsPersist"]


def run(ctx):
    rnd = random.Random(ctx.seed)
    dev = ctx.known_devs()
    progs, pool = F.c05_chains(ctx.tier, rnd)
    names = sorted(set(pool) | {"error"})
    agg = run_family("C05chain", progs, names, dev=dev, invariants=INVS, perms=(0,), timeout=900)
    ctx.add_family(agg)
    progs, pool = F.c05_sametext(ctx.tier, rnd)
    agg = run_family("C05same", progs, sorted(set(pool) | {"error"}), dev=dev, invariants=INVS, perms=(0,), timeout=900)
    ctx.add_family(agg)
    agg = run_family("C05multi", F.c05_multiname(ctx.tier, rnd), ["x", "y", "macroname", "error"], dev=dev, invariants=INVS, perms=(0,), timeout=900)
    ctx.add_family(agg)
    progs, pool = F.c05_siblings(ctx.tier, rnd)
    agg = run_family("C05sib", progs, sorted(set(pool) | {"error"}), dev=dev, invariants=INVS, perms=(0, 1), timeout=900)
    ctx.add_family(agg)
    # globals defined (or re-defined) inside macros persist after the macro returns; macro locals do not escape; a local
    # of the macro keeps hiding a global of its name while a slot inside its element is filled (P11-P13), assignments
    # made on a copy of the scope do not come back (P9)
    mprogs = [p for p in F.c09_family(ctx.tier, rnd) if p["fam"].startswith(("C09:P2", "C09:P7", "C09:P9", "C09:P11", "C09:P12", "C09:P13"))]
    agg = run_family("C05macros", mprogs, ["x", "y", "g", "macroname", "error"], dev=dev, invariants=INVS, perms=(0,), timeout=900)
    ctx.add_family(agg)
    # names bound inside an expression (lambda parameters, comprehension variables) are local to it: the template's
    # variables of the same names read the same before and after
    wprogs = [p for p in F.c04_family(ctx.tier, rnd) if p["fam"].startswith("C04:wrap")]
    agg = run_family("C05wraps", wprogs, ["x", "y", "len", "nope", "error"], dev=dev, invariants=INVS, perms=(0,), timeout=900)
    ctx.add_family(agg)
    for f in ctx.known():
        ctx.witness(f)
    scope_check.run(ctx, rnd)
    reserved(ctx)
    # names belong to one template: what another template configured (extra builtins of the same names, ...) does not
    # change how this one resolves them
    from .. import isolation
    ctx.replays += isolation.run(ctx, "variable scope")
    ctx.exhaustive = True
    ctx.rule = ("all chains of <=2 (quick: + 250 sampled of the 3375 chains of 3; thorough: all) nested elements, each "
                "define-local / define-global / repeat over the name pool, x every subset of initially bound names; "
                "one behaviour per outcome combination of the repeat iterables; snapshots of econtext compared at "
                "every probe; plus all Scope operation sequences up to the bound; non-trivial = at least one call")
    ctx.assumptions += ["reading generated-code helper names (translate, decode, convert) back through expressions is unconstrained",
                        "the variable 'error' bound by tal:on-error is outside this property"]


def reserved(ctx):
    """names reserved by the compiler are rejected at compile time, at the token"""
    import sys
    sys.path.insert(0, REPO_SRC)
    from chameleon import PageTemplate
    from chameleon.exc import TemplateError
    n = 0
    for name in ("econtext", "rcontext", "__x", "__stream", "__token"):
        for stmt, tmpl in (("define", '<a>\n  <b tal:define="y 1; %s 2">t</b></a>'),
                           ("define-global", '<b tal:define="global %s 2">t</b>'),
                           ("repeat", '<a>\n <b tal:repeat="%s (1, 2)">t</b></a>')):
            src = tmpl % name
            n += 1
            try:
                PageTemplate(src)
            except TemplateError as e:
                tok = getattr(e, "token", None)
                off = getattr(tok, "pos", None)
                if tok is None or str(tok) != name:
                    ctx.violation("reserved name %r in tal:%s rejected, but the error token is %r" % (name, stmt, tok),
                                  dict(kind="reserved", source=src))
                # (the exactness of the reported offset is C11's subject)
            except Exception as e:
                ctx.violation("reserved name %r in tal:%s raises %s, not a TemplateError" % (name, stmt, type(e).__name__),
                              dict(kind="reserved", source=src))
            else:
                ctx.violation("reserved name %r accepted in tal:%s" % (name, stmt), dict(kind="reserved", source=src))
    ctx.replays += n
    for name in ("len", "str", "get", "getname", "re", "functools", "intern", "translate", "decode", "convert", "_x"):
        src = '<b tal:define="%s 1">${%s}</b>' % (name, "1" if name in ("translate", "decode", "convert") else name)
        n += 1
        try:
            out = PageTemplate(src)()
            if out != "<b>1</b>":
                ctx.violation("defining %r: rendered %r" % (name, out), dict(kind="reserved", source=src))
        except Exception as e:
            ctx.violation("non-reserved name %r rejected: %s" % (name, e), dict(kind="reserved", source=src))
    ctx.replays += 11
