"""Shared machinery of C06 / C20: run specs/Interp.tla, concretise every
enumerated text in its context, render it with the real code and compare text
and evaluation log with the set of behaviours the specification allows."""
from __future__ import annotations

from harness import REPO_SRC  # noqa: E402

import ast
import html
import json
import multiprocessing
import os
import random
import re
import shutil
import sys

from ..pipeline import workdir
from ..tla import lit, run_tlc, TLASet

CH = {"lb": "{", "rb": "}", "dq": '"', "sq": "'", "ent": "&amp;", "x": "x", "sp": " ", "lt": "<", "gt": ">",
      "amp": "&", "nl": "\n", "cr": "\r", "u": "é", "dollar": "$", "sl": "/", "ex": "!", "hy": "-", "eq": "="}

# expression shapes: text with %(k)d and %(q)s (a quote character usable in the context)
SHAPES = {
    "call": ["e(%(k)d)", " e(%(k)d) "],
    "dictlit": ["{%(q)sa%(q)s: e(%(k)d)}[%(q)sa%(q)s]"],
    "dictcomp": ["{1: y for y in [e(%(k)d)]}[1]"],
    "setlit": ["sorted({e(%(k)d)})[0]"],
    "strbrace": ["e(%(k)d, %(q)s}%(q)s)", "e(%(k)d, %(q)s}}{%(q)s)"],
    "strlbrace": ["e(%(k)d, %(q)s{%(q)s)"],
    "strdollar": ["e(%(k)d, %(q)s$%(q)s)", "e(%(k)d, %(q)sa$b%(q)s)"],
    "strquote": ["e(%(k)d, %(q)s%(o)s%(q)s)"],
    "fstring": ["f%(q)s{e(%(k)d)}%(q)s"],
    "entity": ["e(%(k)d, 1 &lt; 2)", "e(%(k)d, 1 &gt; 2 &amp;&amp; 0)".replace("&amp;&amp;", "and"),
               # numeric references, decimal and hexadecimal (digits and letters mixed, either case)
               "e(%(k)d, 1 &#60; 2)", "e(%(k)d, 1 &#x3C; 2)", "e(%(k)d, 2 &#x3e; 1)", "e(%(k)d, 1 &#X3c; 2 &#38; 3)", "e(%(k)d, 1 &#x26; 3)"],
    "subscript": ["{%(q)sa%(q)s: {%(q)sb%(q)s: e(%(k)d)}}[%(q)sa%(q)s][%(q)sb%(q)s]"],
    "stringexpr": ["string:a${e(%(k)d)}b"],
    "pipe": ["nope | e(%(k)d)"],
    "lambda": ["(lambda: {1: e(%(k)d)})()[1]"],
    "multiline": ["e(%(k)d,\n   1)", "\n  e(%(k)d)\n", "e(\n%(k)d\n)"],
    # the very same expression text at every occurrence: each occurrence is an evaluation of its own
    "samecall": ["e(77)"],
    # text that reads like character references inside a string literal of the expression; text mode only: there is no
    # markup layer there, the literal is what is written
    "strent": ["e(%(k)d) + %(q)s&amp;lt;%(q)s", "e(%(k)d) + %(q)s &#38; &lt;b&gt;%(q)s"],
}


def shape_text(shape, k, ctx, rnd):
    q, o = ("'", '"')
    if ctx == "sqattr":
        q, o = ('"', "&#39;")
    elif ctx == "dqattr":
        q, o = ("'", "&quot;")
    t = rnd.choice(SHAPES[shape]) % dict(k=k, q=q, o=o)
    return t


def shape_value(shape, k):
    if shape == "samecall":
        return "v77"
    v = "v%d" % k
    if shape == "strent":
        return None      # (depends on the drawn text: see strent_value)
    if shape == "stringexpr":
        return "a" + v + "b"
    return v


def run_spec(ctx, tag, cfg, timeout=1800):
    wd = workdir(tag)
    try:
        open(os.path.join(wd, "MCInterp.tla"), "w").write(
            "---- MODULE MCInterp ----\nEXTENDS Interp, Json\n"
            "MCLit == %s\nMCShapes == %s\nMCContexts == %s\n"
            "Emit == Done => PrintT(ToJson([parts |-> parts, ctx |-> ctx, stack |-> stack, copt |-> copt, out |-> out, evals |-> evals]))\n====\n"
            % (lit(TLASet(cfg["lit"])), lit(TLASet(cfg["shapes"])), lit(TLASet(cfg["contexts"]))))
        open(os.path.join(wd, "MCInterp.cfg"), "w").write(
            "SPECIFICATION Spec\nCONSTANTS\n LitChars <- MCLit\n Shapes <- MCShapes\n Contexts <- MCContexts\n"
            " MaxParts = %d\n MaxDol = %d\n MaxStack = %d\n"
            "INVARIANT EvalExactlyTheExprParts\nINVARIANT DollarParity\nINVARIANT DeadMeansSilent\nINVARIANT Emit\n"
            % (cfg["maxparts"], cfg["maxdol"], cfg["maxstack"]))
        # (one record per behaviour: the thorough configurations print a few GB)
        r = run_tlc("MCInterp", "MCInterp.cfg", wd, workers=1, timeout=timeout, java_opts=["-Xmx6g"], max_output=12 << 30)
    finally:
        shutil.rmtree(wd, ignore_errors=True)
    if r.violation:
        ctx.violation("TLC: %s violated on Interp" % r.violation, dict(kind="tlc", tail=r.stdout[-2000:]))
        return []
    if not r.ok():
        ctx.fail("Interp TLC run failed: %s %s" % (r.error, r.stdout[-1500:]))
        return []
    ctx.states += r.distinct
    ctx.transitions += r.states
    ctx.parts.append(dict(tag=tag, states=r.states, distinct=r.distinct, behaviours=len(r.records), wall_tlc=r.wall))
    return r.records


def group(recs):
    g = {}
    for r in recs:
        key = json.dumps([r["parts"], r["ctx"], r["stack"], r["copt"]], sort_keys=True)
        g.setdefault(key, []).append(r)
    return list(g.values())


# the class "x" stands for any ordinary character: every input draws its own
ORDINARY = ["x", "x", "%", "%s", "%%", "%(k)s", "\\", "#", "@", ";", ":", "\u00e9", "\u2028", "\x0b", "|", "`", "~", "^", "*", "?", "\t"]


def build(rec, rnd, CH=CH):
    """concrete inner text, list of (part index -> expr source) and skip reason"""
    ctx = rec["ctx"]
    parts = rec["parts"]
    text = ""
    exprs = {}
    for i, p in enumerate(parts, 1):
        if p["k"] == "lit":
            c = p["c"]
            if ctx == "dqattr" and c == "dq":
                text += "&quot;"
            elif ctx == "sqattr" and c == "sq":
                text += "&#39;"
            else:
                text += CH[c]
        elif p["k"] == "dol":
            text += "$" * p["n"]
        else:
            src = shape_text(p["s"], i, ctx, rnd)
            exprs[i] = src
            text += "{" + src + "}"
    return text, exprs


def ambiguous(rec, text, exprs, CH=CH):
    """inputs outside the generator's unambiguity constraint (DESIGN C06):
    a '$' run directly followed by a literal '{', or a brace group after which
    a longer candidate up to a later '}' is itself a valid expression"""
    parts = rec["parts"]
    for i in range(len(parts) - 1):
        if parts[i]["k"] == "dol" and parts[i + 1]["k"] == "lit" and parts[i + 1]["c"] == "lb":
            return True
    for i, p in enumerate(parts):
        if p["k"] == "brace" and "${" in exprs[i + 1]:
            intro = i > 0 and parts[i - 1]["k"] == "dol" and parts[i - 1]["n"] % 2 == 1
            if not intro:
                return True     # the group's own text contains an interpolation
    # candidates: from each introduced group start to every later '}'
    pos = 0
    offs = {}
    t = ""
    for i, p in enumerate(parts, 1):
        if p["k"] == "brace":
            offs[i] = len(t)
            t += "{" + exprs[i] + "}"
        elif p["k"] == "dol":
            t += "$" * p["n"]
        else:
            t += CH[p["c"]] if not (rec["ctx"] in ("dqattr", "sqattr") and p["c"] in ("dq", "sq")) else "?"
    for i, off in offs.items():
        end = off + len(exprs[i]) + 2
        for m in re.finditer(r"}", t[end:]):
            cand = html.unescape(t[off + 1:end + m.start()])
            if cand.strip().startswith("string:"):
                return True      # a string: expression extends to the last closing brace
            try:
                ast.parse(cand.strip(), mode="eval")
                return True
            except SyntaxError:
                pass
            except ValueError:
                pass
    return False


def wrap(rec, text):
    """full template source and the function that extracts the region from the output"""
    ctx = rec["ctx"]
    opens = ""
    closes = ""
    for n, s in enumerate(rec["stack"]):
        opens += "<s%d%s>" % (n, "" if s == "none" else ' meta:interpolation="%s"' % ("true" if s == "on" else "false"))
        closes = "</s%d>" % n + closes
    if ctx == "text":
        body = "x" + text + "y"
    elif ctx == "dqattr":
        body = '<a t="x' + text + 'y"></a>'
    elif ctx == "sqattr":
        body = "<a t='x" + text + "y'></a>"
    elif ctx == "comment":
        body = "<!--x" + text + "y-->"
    elif ctx == "qcomment":
        body = "<!--?x" + text + "y-->"
    elif ctx == "cdata":
        body = "<![CDATA[x" + text + "y]]>"
    elif ctx == "textmode":
        return text
    return "<r>" + opens + body + closes + "</r>"


def expected(rec, beh, exprs, CH=CH):
    out = ""
    for a in beh["out"]:
        if a["a"] == "ch":
            c = a["c"]
            if rec["ctx"] == "dqattr" and c == "dq":
                out += "&quot;"
            elif rec["ctx"] == "sqattr" and c == "sq":
                out += "&#39;"
            else:
                out += CH[c]
        elif a["a"] == "val":
            if rec["parts"][a["j"] - 1]["s"] == "strent":
                # the literal of the drawn text, as written
                out += "v%d" % a["j"] + exprs[a["j"]].split(" + ", 1)[1][1:-1]
                continue
            out += shape_value(rec["parts"][a["j"] - 1]["s"], a["j"])
        else:
            out += "{" + exprs[a["j"]] + "}"
    ctx = rec["ctx"]
    if ctx == "textmode":
        return out.replace("\r\n", "\n").replace("\r", "\n")
    opens = "".join("<s%d>" % n for n in range(len(rec["stack"])))
    closes = "".join("</s%d>" % n for n in reversed(range(len(rec["stack"]))))
    body = {"text": "x%sy", "dqattr": '<a t="x%sy"></a>', "sqattr": "<a t='x%sy'></a>", "comment": "<!--x%sy-->",
            "qcomment": "<!--x%sy-->", "cdata": "<![CDATA[x%sy]]>"}[ctx] % out
    return "<r>" + opens + body + closes + "</r>"


def _chunk(groups, seed, textfile):
    sys.path.insert(0, REPO_SRC)
    from chameleon import PageTemplate, PageTextTemplate
    rnd = random.Random(seed)
    n = skipped = 0
    viol = []
    sample = None
    for g in groups:
        rec = g[0]
        ch = dict(CH, x=rnd.choice(ORDINARY))
        text, exprs = build(rec, rnd, ch)
        if ambiguous(rec, text, exprs, ch):
            skipped += 1
            continue
        src = wrap(rec, text)
        calls = []

        def e(k, *a):
            calls.append(k)
            return "v%d" % k
        try:
            if rec["ctx"] == "textmode":
                t = PageTextTemplate(src)
            else:
                t = PageTemplate(src, enable_comment_interpolation=rec["copt"])
            got = t(e=e)
        except Exception as ex:
            got = "EXC %s: %s" % (type(ex).__name__, str(ex).splitlines()[:1])
        n += 1
        allowed = [(expected(rec, b, exprs, ch), [77 if rec["parts"][j - 1].get("s") == "samecall" else j for j in b["evals"]]) for b in g]
        if rec["ctx"] == "qcomment" and not rec["copt"]:
            # with comment interpolation switched off by option, '<!--?' is no marker: the comment is written as it stands
            allowed = [(w.replace("<!--x", "<!--?x", 1), ev) for w, ev in allowed]
        # element text without any group, rendered once more as an implicitly translated message (option
        # implicit_i18n_translate): a message without placeholders and without white space is its own translation, and
        # '$$' is '$' there too
        if (rec["ctx"] == "text" and not rec["stack"] and all(p["k"] != "brace" for p in rec["parts"])
                and not any(p["k"] == "lit" and (p["c"] in ("sp", "nl", "cr") or (p["c"] == "x" and (ch["x"].strip() != ch["x"] or not ch["x"].strip())))
                            for p in rec["parts"])):
            try:
                got_i = PageTemplate(src, enable_comment_interpolation=rec["copt"], implicit_i18n_translate=True)(e=e)
            except Exception as ex:   # noqa
                got_i = "EXC %s" % type(ex).__name__
            n += 1
            if not any(got_i == w for w, ev in allowed):
                viol.append(("interpolation under implicit_i18n_translate (text without groups): source %r renders %r; the specification "
                             "allows %s" % (src, got_i, [w for w, _ in allowed][:2]), dict(kind="interp-implicit-i18n", source=src, got=got_i)))
        if not any(got == w and calls == ev for w, ev in allowed):
            viol.append(("interpolation (%s, stack=%s, comment option=%s): source %r renders %r with evaluations %s; "
                         "the specification allows %s" % (rec["ctx"], rec["stack"], rec["copt"], src, got, calls, allowed[:2]),
                         dict(kind="interp", source=src, got=got, calls=calls, allowed=allowed, rec=rec)))
        if sample is None:
            sample = dict(source=src, output=got, evaluated=calls)
    return n, skipped, viol, sample


def replay(ctx, recs, label):
    groups = group(recs)
    chunks = [groups[i::16] for i in range(16)]
    with multiprocessing.get_context("fork").Pool(16) as pool:
        res = pool.starmap(_chunk, [(ch, ctx.seed + i, None) for i, ch in enumerate(chunks)])
    tot = sk = 0
    for n, skipped, viol, sample in res:
        tot += n
        sk += skipped
        for text, payload in viol[:2]:
            if len(ctx.violations) < 8:
                ctx.violation(text, payload)
        if len(viol) > 2:
            ctx.notes["unreported_mismatches"] = ctx.notes.get("unreported_mismatches", 0) + len(viol) - 2
        if sample and len(ctx.samples) < 4:
            ctx.sample(sample)
    ctx.behaviours += len(recs)
    ctx.replays += tot
    ctx.nontrivial += tot
    ctx.notes[label + "_inputs"] = len(groups)
    ctx.notes[label + "_skipped_ambiguous"] = sk
