"""C06 -- ${...} interpolation is delimited correctly and $$ escapes it.

Spec: specs/Interp.tla (scanner semantics over parts, lexical liveness).
TLC enumerates (i) every text of <= 3 (quick) / 4 (thorough) parts over the
literal classes { } " ' &amp; x space, runs of 1..4 '$' and 14 expression
shapes rich in braces / quotes / '$' / entities, in a live and a dead context,
and (ii) representative texts in every context (text, both attribute quotes,
comment, <!--? comment, CDATA) under every nesting <= 3 of
meta:interpolation switches and both settings of the comment option, checking
EvalExactlyTheExprParts, DollarParity and DeadMeansSilent.  Every enumerated
text is concretised (2-6 concrete expression texts per shape), rendered by the
real code, and text + evaluation log must be among the behaviours the
specification allows.
"""
from . import interp_common as IC

LIT = ["lb", "rb", "dq", "sq", "ent", "x", "sp", "nl"]


def run(ctx):
    quick = ctx.tier == "quick"
    shapes = [s for s in IC.SHAPES if s != "strent"]      # (strent: text mode only, C20)
    # (i) scanning semantics
    cfg = dict(lit=LIT, shapes=shapes[:7] if quick else shapes, contexts=["text", "dqattr"] if quick else ["text", "dqattr", "sqattr", "cdata"],
               maxparts=3, maxdol=3 if quick else 4, maxstack=0)
    # (thorough: all shapes, four contexts, three parts -- about 10^5 texts; four parts over this alphabet would be 3 * 10^6
    # records of a kilobyte each, which no process here can hold: texts of four parts come over smaller alphabets below)
    recs = IC.run_spec(ctx, "InterpScan", cfg)
    IC.replay(ctx, recs, "scan")
    if not quick:
        cfg = dict(lit=["lb", "rb", "x", "nl"], shapes=["call", "strbrace", "dictlit", "fstring"], contexts=["text", "dqattr", "cdata"],
                   maxparts=4, maxdol=2, maxstack=0)
        recs = IC.run_spec(ctx, "InterpScan4", cfg)
        IC.replay(ctx, recs, "scan4")
    if quick:
        cfg = dict(lit=["x", "rb"], shapes=shapes[7:], contexts=["text", "sqattr", "comment", "cdata"], maxparts=3, maxdol=2, maxstack=0)
        recs = IC.run_spec(ctx, "InterpScan2", cfg)
        IC.replay(ctx, recs, "scan2")
    # (i') longer texts over a small alphabet: '$' runs at the end of a line, interpolations at the start of the next
    cfg = dict(lit=["nl", "x", "sp"], shapes=["call", "samecall"], contexts=["text", "dqattr", "comment", "cdata"], maxparts=4, maxdol=2 if quick else 3, maxstack=0)
    recs = IC.run_spec(ctx, "InterpScan3", cfg)
    IC.replay(ctx, recs, "scan3")
    # (ii) contexts x switch nestings
    cfg = dict(lit=["x"], shapes=["call", "strbrace"], contexts=["text", "dqattr", "sqattr", "comment", "qcomment", "cdata"],
               maxparts=2 if quick else 3, maxdol=2, maxstack=2 if quick else 3)
    recs = IC.run_spec(ctx, "InterpCtx", cfg)
    IC.replay(ctx, recs, "contexts")
    # the interpolation switch belongs to one compilation: a template rejected below meta:interpolation="false" leaves
    # nothing behind for the templates compiled after it
    from .. import isolation
    ctx.replays += isolation.run(ctx, "interpolation state")
    ctx.exhaustive = True
    ctx.rule = ("texts = sequences of parts (literal char class | run of n '$' | brace group of an expression shape), all "
                "sequences up to the bound; contexts x meta:interpolation nestings x comment option; inputs violating "
                "the unambiguity constraint (a longer brace candidate is itself a valid expression, or '$' directly "
                "before a literal '{') are skipped and counted; non-trivial = every replayed input")
    ctx.assumptions += ["whether $$ collapses where interpolation is switched off is left open by the property (both accepted)",
                        "${} (empty) and ${ } are excluded from the generator",
                        "expression values are harmless strings (escaping is C02's subject)"]
