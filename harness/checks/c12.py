"""C12 -- render errors keep their type and name the failing expression and position.

Machine: EvalAt/RaiseAt/Unwind/Fail of specs/ZPT.tla; the exception carries the
site of the expression being evaluated (the running function's last token).
Families: every subset of TAL statements on an element plus text
interpolations on several lines, every evaluation point made to raise each
exception class (builtin, custom with two constructor arguments, custom
__str__, RecursionError, KeyboardInterrupt, SystemExit).  Replay checks: class
preserved, RenderError mixed in exactly for Exception subclasses other than
RecursionError, args preserved, no text returned, and the message's first
(expression, line, column) record equals the failing expression's text and
the position at which the concretiser placed it.
"""
import random

from .. import families as F
from ..pipeline import run_family

NAMES = ["x", "y", "error"]
INVS = ["AtMostOncePerReach"]


def run(ctx):
    rnd = random.Random(ctx.seed)
    quick = ctx.tier == "quick"
    dev = ctx.known_devs()
    progs = F.c12_raising(ctx.tier, rnd)
    agg = run_family("C12raise", progs, NAMES, dev=dev, invariants=INVS, perms=(0, 1, 1001) if quick else (0, 1, 2, 1001, 2003), timeout=1800)
    ctx.add_family(agg)
    agg = run_family("C12metal", F.c12_metal(ctx.tier, rnd), NAMES + ["macroname"], dev=dev, invariants=INVS, perms=(0, 1, 2, 1001), timeout=1800)
    ctx.add_family(agg)
    ctx.exhaustive = True
    ctx.rule = ("programs: subsets of the TAL statements on one element with multi-line text interpolations; every call "
                "may return normally or raise class c, for each c of 8 classes; TLC enumerates every raising point "
                "(the first raise ends the render); non-trivial = at least one call evaluated")
    ctx.assumptions += ["message format ' - Expression: \"..\" / - Location: (line L: col C)' is parsed from str(exc)",
                        "macro / load: call-site chains are covered by the METAL families (C09) when present"]
