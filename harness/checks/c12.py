"""C12 -- render errors keep their type and name the failing expression and position.

Machine: EvalAt/RaiseAt/Unwind/Fail of specs/ZPT.tla; the exception carries the
site of the expression being evaluated (the running function's last token).
Families: every subset of TAL statements on an element plus text
interpolations on several lines, every evaluation point made to raise each
exception class (builtin, custom with two constructor arguments, custom
__str__, RecursionError, KeyboardInterrupt, SystemExit).  Replay checks: class
preserved, RenderError mixed in exactly for Exception subclasses other than
RecursionError, args preserved, no text returned, and the message's first
(expression, line, column) record equals the failing expression's text and
the position at which the concretiser placed it.
"""
import random

from .. import families as F
from ..pipeline import run_family

NAMES = ["x", "y", "error"]
INVS = ["AtMostOncePerReach"]


def run(ctx):
    rnd = random.Random(ctx.seed)
    quick = ctx.tier == "quick"
    dev = ctx.known_devs()
    progs = F.c12_raising(ctx.tier, rnd)
    agg = run_family("C12raise", progs, NAMES, dev=dev, invariants=INVS, perms=(0, 1, 1001) if quick else (0, 1, 2, 1001, 2003), timeout=1800)
    ctx.add_family(agg)
    agg = run_family("C12metal", F.c12_metal(ctx.tier, rnd), NAMES + ["macroname"], dev=dev, invariants=INVS, perms=(0, 1, 2, 1001), timeout=1800)
    ctx.add_family(agg)
    nested_render_part(ctx, rnd, quick)
    ctx.exhaustive = True
    ctx.rule = ("programs: subsets of the TAL statements on one element with multi-line text interpolations; every call "
                "may return normally or raise class c, for each c of 8 classes; TLC enumerates every raising point "
                "(the first raise ends the render); non-trivial = at least one call evaluated")
    ctx.assumptions += ["message format ' - Expression: \"..\" / - Location: (line L: col C)' is parsed from str(exc)",
                        "macro / load: call-site chains are covered by the METAL families (C09) when present"]


# ---------------------------------------------------------------------------------------------------------------------
# Templates rendered from expressions of other templates (and of themselves): the machine's chain of call sites
# (exc.sites: innermost to outermost) continued across render() calls.  A plan is a sequence of template indices
# t0 -> t1 -> ... -> tn: template t_k, rendered at level k, calls t_{k+1} through its call expression; the last one
# evaluates the failing expression.  The same template may occur several times (recursion through one call site).
CALL_FORMS = [
    ('<i tal:condition="level &lt; last"\n     tal:replace="structure: «%s»"/>', "replace"),
    ('<i tal:condition="level &lt; last" tal:content="structure «%s»">c</i>', "content"),
    ('<u tal:condition="level &lt; last">\n   ${structure: «%s»}</u>', "interp"),
]
CALL_EXPR = "plan[level + 1](plan=plan, level=level + 1, last=last, boom=boom, via=via)"
# the same call made through a helper of the application that looks at the exception (logs str(exc)) and re-raises it
CALL_EXPR_VIA = "via(plan[level + 1], plan=plan, level=level + 1, last=last, boom=boom, via=via)"


def _via(t, **kw):
    try:
        return t(**kw)
    except BaseException as e:   # noqa
        str(e)
        repr(e)
        raise


def _nested_templates(rnd, n):
    srcs, marks = [], []
    for t in range(n):
        form, _ = rnd.choice(CALL_FORMS)
        pad = "\n" * rnd.randint(0, 2) + " " * rnd.randint(0, 3)
        cexpr = CALL_EXPR if rnd.random() < 0.5 else CALL_EXPR_VIA
        pat = "<div>%s<p>t%d ${level}</p>\n  %s\n <b tal:condition=\"level == last\">%s${«boom()»}</b>\n</div>" % (
            pad, t, form % cexpr, " " * rnd.randint(0, 2))
        src = pat.replace("«", "").replace("»", "")
        # offsets of the two marked expressions
        offs = []
        clean = ""
        for ch in pat:
            if ch == "«":
                offs.append(len(clean))
            elif ch != "»":
                clean += ch
        assert clean == src
        srcs.append(src)
        marks.append(dict(call=offs[0], fail=offs[1], cexpr=cexpr))
    return srcs, marks


def _linecol(src, off):
    return src.count("\n", 0, off) + 1, off - (src.rfind("\n", 0, off) + 1)


def nested_render_part(ctx, rnd, quick):
    import re
    import sys
    from harness import REPO_SRC
    sys.path.insert(0, REPO_SRC)
    from chameleon import PageTemplate
    from chameleon.exc import RenderError
    from .. import concretize as C
    classes = ["ZeroDivisionError", "KeyError", "Custom2", "RecursionError", "KeyboardInterrupt"]
    plans = [(0,), (0, 0), (0, 1), (0, 0, 0), (0, 1, 0), (0, 1, 1), (0, 0, 0, 0), (0, 1, 2, 1), (1, 0, 0, 1, 1)]
    n = bad = 0
    for rep in range(4 if quick else 16):
        srcs, marks = _nested_templates(rnd, 3)
        tmpls = [PageTemplate(s) for s in srcs]
        for plan in plans:
            for cname in classes:
                orig = C.make_exc(cname)

                def boom():
                    raise orig
                err = None
                try:
                    tmpls[plan[0]](plan=[tmpls[i] for i in plan], level=0, last=len(plan) - 1, boom=boom, via=_via)
                except BaseException as e:   # noqa
                    err = e
                n += 1
                why = None
                want = [("boom()",) + _linecol(srcs[plan[-1]], marks[plan[-1]]["fail"])] + \
                       [(html_unescape(marks[i]["cexpr"]),) + _linecol(srcs[i], marks[i]["call"]) for i in reversed(plan[:-1])]
                if err is None:
                    why = "no exception"
                elif not isinstance(err, type(orig)):
                    why = "exception class %s, raised was %s" % (type(err).__name__, cname)
                elif not isinstance(orig, Exception):
                    if isinstance(err, Exception):
                        why = "%s turned into an Exception subclass" % cname
                elif isinstance(orig, RecursionError):
                    if isinstance(err, RenderError):
                        why = "RecursionError was wrapped"
                elif not isinstance(err, RenderError):
                    why = "not a RenderError"
                elif tuple(err.args) != tuple(orig.args):
                    why = "args %r, original %r" % (err.args, orig.args)
                else:
                    recs = re.findall(r' - Expression: "(.*?)"\n - Filename:   (.*?)\n - Location:   \(line (\d+): col (\d+)\)', str(err), re.S)
                    got = [(r[0], int(r[2]), int(r[3])) for r in recs]
                    if got != want:
                        why = "the message lists %s; the failing expression and its call sites, innermost to outermost, are %s" % (got, want)
                if why:
                    bad += 1
                    if bad <= 3:
                        ctx.violation("templates rendered from expressions, plan %s, %s raised at the last level: %s" % (list(plan), cname, why),
                                      dict(kind="nested-render", sources=srcs, plan=list(plan), exc=cname))
    ctx.replays += n
    ctx.nontrivial += n
    ctx.notes["nested_render_cases"] = n


def html_unescape(s):
    import html
    return html.unescape(s)
