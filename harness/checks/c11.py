"""C11 -- template errors surface as TemplateError with the exact source location.

(a) specs/TokenPos.tla: the position algebra of source tokens (slice, strip,
    split on a separator, split on whitespace); TLC enumerates every source
    string up to a bound and every sequence of <= 3 operations, each result is
    replayed on real chameleon.tokenize.Token objects: same text, same
    position, and the position is faithful (source[pos:pos+len] == text).
    The statement-list splitter (tal.split_parts / parse_defines /
    parse_attributes) is driven over all clause strings up to a bound and
    every part must be faithful.
(b) the error catalogue: single violations of the language's static rules and
    invalid expressions, planted at every site kind in otherwise valid
    generated templates (contexts with preceding clauses, ';;' escapes,
    entities, newlines, non-ASCII); compiling must raise a TemplateError whose
    token is the planted substring at exactly its offset, line and column.
(c) valid templates of all other families are never rejected (checked by
    every replay: a template that does not compile is a mismatch).
"""
from __future__ import annotations

from harness import REPO_SRC  # noqa: E402

import itertools
import json
import multiprocessing
import os
import random
import shutil
import sys

from .. import concretize as C
from .. import families as F
from ..pipeline import workdir
from ..tla import lit, run_tlc, TLASet

CH = {"a": "a", "sp": " ", "sc": ";", "b": "b"}

MC = """---- MODULE MCTok ----
EXTENDS TokenPos, Json
MCAlpha == {"a", "sp", "sc", "b"}
Emit == PrintT(ToJson([src |-> src, ops |-> ops, pos |-> tok.pos, len |-> tok.len]))
====
"""


def tokenpos_part(ctx, quick):
    sys.path.insert(0, REPO_SRC)
    from chameleon.tokenize import Token
    wd = workdir("tokpos")
    try:
        open(os.path.join(wd, "MCTok.tla"), "w").write(MC)
        open(os.path.join(wd, "MCTok.cfg"), "w").write(
            "SPECIFICATION Spec\nCONSTANTS\n Alphabet <- MCAlpha\n MaxLen = %d\n MaxOps = %d\nINVARIANT Faithful\nINVARIANT Emit\n" % (
                4 if quick else 5, 2 if quick else 3))
        r = run_tlc("MCTok", "MCTok.cfg", wd, workers=1, timeout=3000, java_opts=["-Xmx6g"])
    finally:
        shutil.rmtree(wd, ignore_errors=True)
    if r.violation:
        ctx.violation("TLC: %s violated on TokenPos" % r.violation, dict(kind="tlc", tail=r.stdout[-2000:]))
        return
    if not r.ok():
        ctx.fail("TokenPos run failed: %s %s" % (r.error, r.stdout[-1500:]))
        return
    ctx.states += r.distinct
    ctx.transitions += r.states
    n = bad = 0
    for rec in r.records:
        src = "".join(CH[c] for c in rec["src"])
        t = Token(src, 0, src)
        ok = True
        try:
            for op in rec["ops"]:
                k = op["op"]
                if k == "strip":
                    t = t.strip()
                elif k == "lstrip":
                    t = t.lstrip()
                elif k == "rstrip":
                    t = t.rstrip()
                elif k == "slice":
                    t = t[op["i"]:op["j"]]
                elif k == "splitsc":
                    t = t.split(";")[op["k"] - 1]
                elif k == "splitws":
                    t = t.split()[op["k"] - 1]
        except IndexError:
            ok = False
        n += 1
        want_text = src[rec["pos"]:rec["pos"] + rec["len"]]
        if not ok or str(t) != want_text or t.pos != rec["pos"] or src[t.pos:t.pos + len(t)] != str(t):
            bad += 1
            if bad <= 3:
                ctx.violation("Token operations %s on %r: spec gives %r at %d, code gives %r at %s" % (
                    [o["op"] for o in rec["ops"]], src, want_text, rec["pos"], str(t), getattr(t, "pos", None)),
                    dict(kind="tokenpos", rec=rec))
    ctx.behaviours += len(r.records)
    ctx.replays += n
    ctx.nontrivial += sum(1 for rec in r.records if rec["ops"])
    ctx.parts.append(dict(tag="TokenPos", states=r.states, behaviours=len(r.records), wall_tlc=r.wall))
    if r.records:
        ctx.sample({"token_ops": r.records[len(r.records) // 2]})


def splitter_part(ctx, quick):
    """every clause string over a small alphabet: all parts of split_parts / parse_defines faithful"""
    sys.path.insert(0, REPO_SRC)
    from chameleon.tal import split_parts, parse_defines, parse_attributes
    from chameleon.tokenize import Token
    alpha = ["x", " ", ";", "&amp;", "1", "é"]
    n = bad = 0
    for L in range(0, 6 if quick else 7):
        for combo in itertools.product(alpha, repeat=L):
            s = "".join(combo)
            src = 'pre "' + s + '" post'
            tok = Token(s, 5, src)
            n += 1
            for part in split_parts(tok):
                if ";;" in src[part.pos:part.pos + len(part) + 2] and str(part) != src[part.pos:part.pos + len(part)]:
                    continue     # a part containing an escaped semicolon differs from its source by the escape
                if src[part.pos:part.pos + len(part)] != str(part):
                    bad += 1
                    if bad <= 3:
                        ctx.violation("split_parts(%r): part %r has position %d, the source there reads %r" % (
                            s, str(part), part.pos, src[part.pos:part.pos + len(part)]), dict(kind="splitter", clause=s))
            try:
                defs = parse_defines(tok)
            except Exception:
                defs = None
            for d in defs or []:
                expr = d[2]
                if hasattr(expr, "pos") and ";;" not in s and src[expr.pos:expr.pos + len(expr)] != str(expr):
                    bad += 1
                    if bad <= 3:
                        ctx.violation("parse_defines(%r): expression %r has position %d, the source there reads %r" % (
                            s, str(expr), expr.pos, src[expr.pos:expr.pos + len(expr)]), dict(kind="splitter", clause=s))
    ctx.replays += n
    ctx.notes["splitter_clauses"] = n


# ------------------------------------------------------------------ catalogue
def catalogue(rnd, quick):
    """(kind, source, expected token text, expected offset); in the patterns
    below the offending substring is written between « and »"""
    cases = []

    def add(kind, pattern, **opts):
        off = pattern.index("«")
        token = pattern[off + 1:pattern.index("»")]
        src = pattern.replace("«", "").replace("»", "")
        cases.append((kind, src, token, off, opts))
    # (the third context holds characters that str.splitlines() treats as line boundaries but that are ordinary
    # characters of a template: only LF -- and CR, CRLF where not normalised -- end a line)
    ctxs = ["", "<p>é\n  text</p>\n", "<!-- c -->\n\n  ", "<p>a\x0bb\x0cc\x1cd\x1de\x1ef\x85g\u2028h\u2029</p>\n <i title='\u2028'>\x0c</i> ",
            "<p>é\r\n  text</p>\r\n"]
    for pre in ctxs:
        if "\r" in pre:
            # CRLF line endings before the planted error: one kind of its own (the offset then refers to the
            # text after line-ending normalisation)
            _add = add

            def add(kind, src, _add=_add, **opts):   # noqa: F811
                _add("offset-after-crlf", src, _orig=kind, **opts)
        add("unknown-tal-statement", pre + '<a tal:«foo»="x">t</a>')
        add("unknown-metal-statement", pre + '<a metal:«foo»="x">t</a>')
        add("unknown-i18n-statement", pre + '<a i18n:«foo»="x">t</a>')
        add("content+replace", pre + '<a tal:content="«x»" tal:replace="y">t</a>')
        add("content+translate", pre + '<a tal:content="«x»" i18n:translate="msg">t</a>')
        add("attributes-on-ns-element", pre + '<tal:block attributes="«a b»">t</tal:block>')
        add("tal-script", pre + '<a tal:script="«python»">t</a>')
        add("bad-define", pre + '<a tal:define="«1x y»">t</a>')
        add("bad-define-2nd", pre + '<a tal:define="x 1;« 2y z»">t</a>')
        add("dup-attribute", pre + '<a tal:attributes="a 1;« a 2»">t</a>')
        add("dup-statement", pre + '<li tal:content="a" «tal:content»="b">t</li>')
        add("dup-statement-beside-data-statement", pre + '<li tal:content="a" «tal:content»="b" data-tal-define="x 1">t</li>', enable_data_attributes=True)
        add("dup-statement-beside-two-data-statements", pre + '<li data-tal-omit-tag="" tal:define="a 1" «tal:define»="b 2" data-tal-condition="1">t</li>',
            enable_data_attributes=True)
        add("case-without-switch", pre + '<a tal:case="«x»">t</a>')
        add("fill-slot-without-use", pre + '<a metal:fill-slot="«s»">t</a>')
        add("fill-slot-empty", pre + '<b metal:use-macro="m"><a metal:fill-slot="« »">t</a></b>')
        add("fill-slot+define-macro", pre + '<b metal:use-macro="m"><a metal:fill-slot="s" metal:define-macro="«q»">t</a></b>')
        add("bad-interpolation-setting", pre + '<a meta:interpolation="«maybe»">t</a>')
        add("unmatched-end-tag", pre + '<a>t</a>«</b>»')
        # end tags of elements that an earlier end tag has closed implicitly (tag soup), and a second end tag
        add("end-tag-of-implicitly-closed", pre + '<ul><li>one</ul>«</li>»')
        add("end-tag-of-implicitly-closed-far", pre + '<table><tr><td>x</tr></table><p>text«</td>»</p>')
        add("end-tag-of-implicitly-closed-nested", pre + '<p><b><i>x</p>«</i>»</b>')
        add("end-tag-of-implicitly-closed-sibling", pre + '<div><p>a<p>b</div>«</p>»')
        add("end-tag-twice", pre + '<a>t</a>«</a>»')
        add("end-tag-crossed", pre + '<a><b>x</a>y«</b>»z')
        add("double-hyphen-comment", pre + '<!-- a «--» b -->')
        add("reserved-name-define", pre + '<a tal:define="«econtext» 1">t</a>')
        add("reserved-name-2nd-define", pre + '<a tal:define="x 1; «rcontext» 2">t</a>')
        add("dunder-name-define-after-escape", pre + '<a tal:define="y \';;\'; «__x» 2">t</a>')
        add("dunder-name-define", pre + '<a tal:define="y 1; «__x» 2">t</a>')
        add("reserved-name-repeat", pre + '<a tal:repeat="«econtext» (1,)">t</a>')
        # ... with global scope, too
        add("reserved-name-global-define", pre + '<a tal:define="global «econtext» 1">t</a>')
        add("dunder-name-global-define-2nd", pre + '<a tal:define="x 1; global «__x» 2">t</a>')
        add("reserved-name-global-tuple", pre + '<a tal:define="global (a, «rcontext») (1, 2)">t</a>')
        add("reserved-name-global-repeat", pre + '<a tal:repeat="global «econtext» (1,)">t</a>')
        add("dunder-name-global-repeat-tuple", pre + '<a tal:repeat="global (a, «__b») ((1, 2),)">t</a>')
        add("dunder-name-repeat", pre + '<a tal:repeat="«__i» (1,)">t</a>')
        add("i18n-name-outside", pre + '<a i18n:name="«n»">t</a>')
        add("i18n-name-duplicate", pre + '<p i18n:translate=""><a i18n:name="nm">t</a><b i18n:name="«nm»">u</b></p>')
        add("i18n-attributes-comma", pre + '<a title="t" i18n:attributes="«title, alt»">t</a>')
        add("i18n-attributes-3-words", pre + '<a title="t" i18n:attributes="«title a b»">t</a>')
        add("i18n-attributes-3rd-spec", pre + '<a title="t" alt="a" i18n:attributes="title; alt;« longdesc a b»">t</a>')
        add("reserved-name-3rd-in-tuple", pre + '<a tal:define="(a, b, «econtext») (1, 2, 3)">t</a>')
        add("reserved-name-3rd-in-repeat-tuple", pre + '<a tal:repeat="(a, b, «rcontext») ((1, 2, 3),)">t</a>')
        add("unknown-data-statement", pre + '<a data-tal-«foo»="1">t</a>', enable_data_attributes=True)
        add("unknown-data-metal-statement", pre + '<a data-metal-«fill»="s">t</a>', enable_data_attributes=True)
        add("expr-data-statement", pre + '<a data-tal-content="«a b»">t</a>', enable_data_attributes=True)
        add("renamed-prefix-unknown-statement", pre + '<a xmlns:z="http://xml.zope.org/namespaces/tal" z:«nope»="1">t</a>')
        for bad in C.BAD_EXPRS:
            b = "«" + bad + "»"
            add("expr-content", pre + '<a tal:content="%s">t</a>' % b)
            add("expr-define-2nd", pre + '<a tal:define="x 1; y %s">t</a>' % b)
            add("expr-define-after-escape", pre + '<a tal:define="x \';;\'; y %s">t</a>' % b)
            add("expr-define-after-entity", pre + '<a tal:define="x 1 &lt; 2; y %s">t</a>' % b)
            add("expr-attributes-3rd", pre + '<a tal:attributes="a 1; b 2; c %s">t</a>' % b)
            add("expr-condition", pre + '<a tal:condition="%s">t</a>' % b)
            add("expr-repeat", pre + '<a tal:repeat="x %s">t</a>' % b)
            add("expr-omit-tag", pre + '<a tal:omit-tag="%s">t</a>' % b)
            add("expr-switch", pre + '<a tal:switch="%s">t</a>' % b)
            add("expr-on-error", pre + '<a tal:on-error="%s">t</a>' % b)
            add("expr-text", pre + '<a>t\n ${%s} u</a>' % b)
            add("expr-text-2nd", pre + '<a>${1} and\n  ${%s}</a>' % b)
            add("expr-attr-interp", pre + '<a title="é ${%s}">t</a>' % b)
            add("expr-pipe-2nd", pre + '<a tal:content="nope | %s">t</a>' % b)
            add("expr-not", pre + '<a tal:condition="not: %s">t</a>' % b)
            add("expr-string", pre + '<a tal:content="string:a ${%s} b">t</a>' % b)
            add("expr-use-macro", pre + '<a metal:use-macro="%s">t</a>' % b)
    return cases


def _cases(cases):
    sys.path.insert(0, REPO_SRC)
    from chameleon import PageTemplate
    from chameleon.exc import TemplateError
    out = []
    for kind, src, token, off, opts in cases:
        opts = dict(opts)
        orig = opts.pop("_orig", kind)
        try:
            PageTemplate(src, **opts)
        except TemplateError as e:
            tok = e.token
            toff = e.offset
            problems = []
            if src[toff:toff + len(tok)] != str(tok):
                problems.append("source[offset:offset+len(token)] is %r, token is %r" % (src[toff:toff + len(tok)], str(tok)))
            if str(tok).strip() != token.strip():
                problems.append("token %r, offending substring %r" % (str(tok), token))
            elif toff + (len(str(tok)) - len(str(tok).lstrip())) != off + (len(token) - len(token.lstrip())):
                problems.append("offset %d, the offending substring stands at %d" % (toff, off))
            line = src.count("\n", 0, toff) + 1
            col = toff - (src.rfind("\n", 0, toff) + 1)
            if tuple(e.location) != (line, col):
                problems.append("location %s, offset %d is line %d column %d" % (tuple(e.location), toff, line, col))
            if ("line %d: col %d" % tuple(e.location)) not in str(e):
                problems.append("str(exc) does not mention the location")
            if problems:
                out.append((kind, src, "; ".join(problems)))
            if "\r" in src and not src.startswith("<?xml"):
                # outside XML mode the positions refer to the text after line-ending normalisation (the offset against the
                # text as supplied is a recorded finding); token, line and column -- and the token's own source -- are exact
                norm = src.replace("\r\n", "\n").replace("\r", "\n")
                p2 = []
                if norm[toff:toff + len(tok)] != str(tok):
                    p2.append("normalised source at the offset is %r, token is %r" % (norm[toff:toff + len(tok)], str(tok)))
                nl, nc = norm.count("\n", 0, toff) + 1, toff - (norm.rfind("\n", 0, toff) + 1)
                if tuple(e.location) != (nl, nc):
                    p2.append("location %s, the token stands at line %d column %d" % (tuple(e.location), nl, nc))
                tsrc = getattr(tok, "source", None)
                if isinstance(tsrc, str) and tsrc[tok.pos:tok.pos + len(tok)] != str(tok):
                    p2.append("the token's own source does not hold the token at its position")
                if p2:
                    out.append(("crlf-position:" + orig, src, "; ".join(p2)))
        except Exception as e:
            out.append((kind, src, "raised %s (not a TemplateError): %s" % (type(e).__name__, str(e).splitlines()[:1])))
        else:
            out.append((kind, src, "accepted"))
    return out


def catalogue_part(ctx, rnd, quick):
    cases = catalogue(rnd, quick)
    # one process compiles all planted templates of a kind one after the other: the same erroneous statement (same
    # text) stands at a different place in each of them, and what is reported belongs to the template being compiled
    kinds = sorted({c[0] for c in cases})
    chunks = [[c for c in cases if kinds.index(c[0]) % 16 == i] for i in range(16)]
    for ch in chunks[1::2]:
        ch.reverse()
    with multiprocessing.get_context("fork").Pool(16) as pool:
        res = pool.map(_cases, chunks)
    bykind = {}
    for out in res:
        for kind, src, why in out:
            bykind.setdefault(kind, []).append((src, why))
    known = {f.get("kind"): f for f in ctx.known() if f.get("kind")}
    for kind, lst in sorted(bykind.items()):
        if kind.startswith("crlf-position:") and kind.split(":", 1)[1] in known:
            continue      # the kind itself is a recorded finding (reported for the LF contexts)
        if kind in known:
            ctx.known_finding(known[kind], "%d planted templates, e.g. %r: %s" % (len(lst), lst[0][0], lst[0][1]))
            continue
        src, why = lst[0]
        ctx.violation("error kind %s (%d planted templates): %s\n  template: %r" % (kind, len(lst), why, src),
                      dict(kind="catalogue", errkind=kind, source=src, why=why))
    # findings whose kind no longer fails are not reported (they print nothing)
    ctx.replays += len(cases)
    ctx.behaviours += len(cases)
    ctx.nontrivial += len(cases)
    ctx.notes["catalogue_kinds"] = len({c[0] for c in cases})
    ctx.sample({"planted": cases[len(cases) // 2][1], "token": cases[len(cases) // 2][2], "offset": cases[len(cases) // 2][3]})


def _valid_chunk(args):
    progs, perms = args
    sys.path.insert(0, REPO_SRC)
    from chameleon import PageTemplate
    out = []
    n = 0
    for p in progs:
        for perm in perms:
            if perm // 100 == 2 and p.get("libs"):
                continue     # plan 2 declares the prefix on a block that encloses the entry template only
            c = C.concretize(p, perm)
            for eol in ("\n", "\r\n"):
                for src in c.srcs:
                    n += 1
                    try:
                        t = PageTemplate(src.replace("\n", eol), **({"enable_data_attributes": True} if perm // 100 == 3 else {}))
                        t.cook_check()
                    except Exception as e:
                        out.append((p.get("fam"), src.replace("\n", eol), "%s: %s" % (type(e).__name__, str(e).splitlines()[:1])))
    return n, out


def valid_part(ctx, rnd, quick):
    """(c) a template without a language error is never rejected: the valid programs of the machine's families, in every
    spelling plan (prefixes, data- attributes), attribute order, single- and multi-line statement values, LF and CRLF"""
    progs = F.c01_f1("quick") + F.c01_f2("quick", rnd) + F.c07_family("quick", rnd) + F.c08_family("quick", rnd) + \
        F.c09_family("quick", rnd) + F.c10_family("quick", rnd) + F.c01_extras("quick", rnd) + F.c04_family("quick", rnd)
    progs = [p for p in progs if not any(ev.get("x") == "bad" for ev in _exprs(p))]
    if quick:
        # (the few programs that nest statements in unusual but legal ways are always there)
        keep = [p for p in progs if ":cases:" in p.get("fam", "")]
        progs = keep + rnd.sample(progs, min(len(progs), 400))
    perms = (0, 1, 101, 201, 301, 3) if quick else (0, 1, 2, 3, 101, 103, 201, 203, 301, 303)
    chunks = [(progs[i::16], perms) for i in range(16)]
    with multiprocessing.get_context("fork").Pool(16) as pool:
        res = pool.map(_valid_chunk, chunks)
    for n, out in res:
        ctx.replays += n
        for fam, src, why in out[:2]:
            if len(ctx.violations) < 8:
                ctx.violation("a valid template (%s) is rejected: %s\n  template: %r" % (fam, why, src), dict(kind="valid-rejected", source=src, why=why))
    ctx.notes["valid_templates_compiled"] = sum(n for n, _ in res)


def _exprs(p):
    """all expression nodes of a program"""
    out = []

    def walk(e):
        if isinstance(e, dict):
            if "x" in e:
                out.append(e)
            for v in e.values():
                walk(v)
        elif isinstance(e, list):
            for v in e:
                walk(v)
    walk(p["items"])
    return out


def run(ctx):
    rnd = random.Random(ctx.seed)
    quick = ctx.tier == "quick"
    tokenpos_part(ctx, quick)
    splitter_part(ctx, quick)
    catalogue_part(ctx, rnd, quick)
    valid_part(ctx, rnd, quick)
    ctx.exhaustive = True
    ctx.rule = ("token algebra: every source string over {a, b, space, ';'} up to length 4/5 x every sequence of <=2/3 "
                "operations; splitter: every clause over {x, space, ';', &amp;, 1, e-acute} up to length 5/6; catalogue: "
                "43 error kinds x 3 preceding contexts (single line, multi-line with non-ASCII, after a comment) x 4 "
                "invalid expression texts; non-trivial = every case")
    ctx.assumptions += ["for whole-argument errors the token may carry surrounding blanks of the clause; offsets are compared on the stripped text",
                        "a clause that contains an escaped ';;' cannot equal its source slice; only the clauses after it are required to be faithful"]
