"""C18 -- template-language markup never leaks and is independent of prefix spelling.

(a) specs/NsSpelling.tla: namespace maps (stack discipline, declarations apply
    irrespective of attribute order), resolution of prefixed / bare / data-*
    attributes and element tags, Dropped(...).  TLC enumerates every document
    up to the bound, checks NoLeak and ForeignPreserved on the model and dumps
    what must be kept; each document is concretised and rendered by the real
    code (with and without enable_data_attributes); the start tags of the
    output are read back by an independent scanner and must carry exactly the
    kept attributes and declarations, in place.
(b) programs of the render machine (specs/ZPT.tla, families F1/F2) are replayed
    under four spelling plans of their statements -- default prefixes, a
    renamed prefix declared on the element, a renamed prefix declared on an
    enclosing element, data-tal-* attributes -- and must equal the machine's
    output under every plan (hence each other).
"""
from __future__ import annotations

from harness import REPO_SRC  # noqa: E402

import json
import multiprocessing
import os
import random
import re
import shutil
import sys

from .. import families as F
from ..pipeline import run_family, workdir
from ..tla import run_tlc, lit, TLASet

URI = {"TAL": "http://xml.zope.org/namespaces/tal", "METAL": "http://xml.zope.org/namespaces/metal",
       "I18N": "http://xml.zope.org/namespaces/i18n", "META": "http://xml.zope.org/namespaces/meta",
       "FOO": "urn:foo", "XHTML": "http://www.w3.org/1999/xhtml"}
STMT = {"TAL": ("define", "z 1"), "METAL": ("define-macro", "m%d"), "I18N": ("domain", "d"), "META": ("interpolation", "true")}
LANGWORDS = ["xml.zope.org/namespaces", "tal:", "metal:", "i18n:", "meta:", "t:", "data-tal-", "data-t-", "define=", "define-macro", "domain=",
             "interpolation="]


def attr_text(a, ns, n):
    """concrete attribute for abstract attribute a whose namespace (per the spec's maps) is ns"""
    if ns in STMT:
        name, val = STMT[ns]
        val = val % n if "%d" in val else val
    else:
        # (an ordinary data-<prefix>-<name> attribute is spelled like a statement: the same attribute name means a statement
        # where the prefix is bound to a template namespace and nothing where it is not)
        # ... and so is a prefixed attribute: p:define="z 1" is the same tag text under a template binding and a foreign one
        name, val = ("class", "v%d" % n) if a["f"] == "bare" else (("define", "v%d" % n) if a["f"] == "data" else ("define", "z 1"))
    if a["f"] == "pre":
        return '%s:%s="%s"' % (a["p"], name, val)
    if a["f"] == "bare":
        return '%s="%s"' % (name, val)
    return 'data-%s-%s="%s"' % (a["p"], name, val)


def concretize(rec):
    src = []
    exp = []
    stack = []
    for n, it in enumerate(rec["doc"]):
        info = rec["info"][n]
        if it["k"] == "open":
            name = (it["ep"] + ":" if it["ep"] else "") + ("block" if it["ep"] else "div")
            decls = [(d, ('xmlns:%s="%s"' % (d["p"], URI[d["u"]])) if d["p"] else 'xmlns="%s"' % URI[d["u"]]) for d in it["ds"]]
            attrs = [(a, attr_text(a, info["ans"][j], n)) for j, a in enumerate(it["as"])]
            parts = ([t for _, t in decls] + [t for _, t in attrs]) if it["dfirst"] else ([t for _, t in attrs] + [t for _, t in decls])
            kept_d = [t for d, t in decls if d in info["kept"]["ds"]]
            kept_a = [t for (a, t), keep in zip(attrs, info["keepmask"]) if keep]
            kparts = (kept_d + kept_a) if it["dfirst"] else (kept_a + kept_d)
            if it.get("un"):
                # an unclosed start tag (tag soup): no content of its own, closed implicitly by its parent's end tag
                # (its name differs from every element that has an end tag)
                name = (it["ep"] + ":" if it["ep"] else "") + ("ublock" if it["ep"] else "br")
                src.append("<" + name + "".join(" " + t for t in parts) + ">")
                if info["kept"]["tag"]:
                    exp.append("<" + name + "".join(" " + t for t in kparts) + ">")
                continue
            if it.get("sc"):
                src.append("<" + name + "".join(" " + t for t in parts) + " />")
                if info["kept"]["tag"]:
                    exp.append("<" + name + "".join(" " + t for t in kparts) + " />")
                continue
            src.append("<" + name + "".join(" " + t for t in parts) + ">x%d" % n)
            if info["kept"]["tag"]:
                exp.append("<" + name + "".join(" " + t for t in kparts) + ">x%d" % n)
            else:
                exp.append("x%d" % n)
            stack.append((name, info["kept"]["tag"]))
        else:
            name, shown = stack.pop()
            src.append("</%s>" % name)
            exp.append("</%s>" % name if shown else "")
    return "".join(src), "".join(exp)


MC = """---- MODULE MCNs ----
EXTENDS NsSpelling, Json
Info(n) == IF doc[n].k = "open"
           THEN [kept |-> Kept(n), ans |-> [j \\in 1..Len(doc[n].as) |-> AttrNs(n, doc[n].as[j])],
                 keepmask |-> [j \\in 1..Len(doc[n].as) |-> ~AttrDropped(n, doc[n].as[j])]]
           ELSE [kept |-> [tag |-> TRUE, ds |-> {}, as |-> <<>>], ans |-> <<>>, keepmask |-> <<>>]
\\* simulation: one randomly drawn element per step instead of the whole successor set (each step is an AddOpen step)
Pick(S) == RandomElement(S)
RndOpen ==
  /\\ ~fin /\\ Len(doc) < MaxItems /\\ depth < MaxDepth
  /\\ \\E ds \\in {LET r == Pick(1..3) IN IF r = 1 THEN {} ELSE IF r = 2 THEN {Pick(Decl)}
                                          ELSE {Pick([p : {"", "i18n"}, u : Uris])}},    \\* re-declarations of a prefix that is bound by default
         a1 \\in {IF Pick(BOOLEAN) THEN Pick(Attr \\cup {[f |-> "none"]}) ELSE Pick({[f |-> "pre", p |-> "i18n"], [f |-> "bare"]})},
         a2 \\in {Pick(Attr \\cup {[f |-> "none"]})}, sc \\in {Pick(BOOLEAN)}, un \\in {Pick(BOOLEAN)}, ep \\in {Pick(ElemP)}, dfirst \\in {Pick(BOOLEAN)} :
        /\\ doc' = Append(doc, [k |-> "open", ds |-> ds,
                                as |-> SelectSeq(<<a1, IF a1.f = "none" THEN a1 ELSE a2>>, LAMBDA a : a.f # "none"),
                                ep |-> ep, dfirst |-> dfirst, sc |-> sc /\\ ~(un /\\ depth > 0), un |-> un /\\ depth > 0])
        /\\ depth' = IF sc \\/ (un /\\ depth > 0) THEN depth ELSE depth + 1
  /\\ UNCHANGED fin
SimSpec == Init /\\ [][RndOpen \\/ AddClose \\/ Finish]_vars
\\* biased draws: one prefix re-bound from element to element (template namespace here, foreign there), the elements
\\* carrying an attribute of that prefix in data- or prefixed form -- the same attribute NAME means different things
RndOpen2 ==
  /\\ ~fin /\\ Len(doc) < MaxItems /\\ depth < MaxDepth
  /\\ \\E q \\in {Pick({"t", "foo"})} :
     \\E ds \\in {IF Pick(1..4) = 1 \\/ (depth > 0 /\\ Pick(1..3) # 1) THEN {} ELSE {[p |-> q, u |-> Pick({"TAL", "TAL", "FOO", "XHTML", "METAL"})]}},
         a1 \\in {IF Pick(1..3) = 1 THEN [f |-> "pre", p |-> q] ELSE [f |-> "data", p |-> q]},
         a2 \\in {Pick(Attr \\cup {[f |-> "none"]})}, sc \\in {Pick(BOOLEAN)}, un \\in {Pick({FALSE, FALSE, TRUE})}, ep \\in {Pick({"", "", q})},
         dfirst \\in {Pick(BOOLEAN)} :
        /\\ doc' = Append(doc, [k |-> "open", ds |-> ds, as |-> SelectSeq(<<a1, a2>>, LAMBDA a : a.f # "none"),
                                ep |-> ep, dfirst |-> dfirst, sc |-> sc /\\ ~(un /\\ depth > 0), un |-> un /\\ depth > 0])
        /\\ depth' = IF sc \\/ (un /\\ depth > 0) THEN depth ELSE depth + 1
  /\\ UNCHANGED fin
SimSpec2 == Init /\\ [][RndOpen2 \\/ AddClose \\/ Finish]_vars
\\* documents built by the harness (same tag text under two bindings of its prefix): evaluated, not generated
GivenDocs == %(given)s
GivenInit == \\E k \\in 1..Len(GivenDocs) : doc = GivenDocs[k] /\\ depth = 0 /\\ fin = TRUE
GivenSpec == GivenInit /\\ [][FALSE]_vars
Emit == (fin /\\ WellBound) => PrintT(ToJson([doc |-> doc, info |-> [n \\in 1..Len(doc) |-> Info(n)]]))
====
"""


def given_docs():
    """one tag text (same element, same prefixed / data- attribute) under two bindings of its prefix, the bindings made by
    sibling wrappers or by nested ones"""
    import itertools
    docs = []
    for q in ("t", "foo"):
        for form in ("pre", "data"):
            for u1, u2 in itertools.permutations(["TAL", "FOO", "XHTML", "METAL"], 2):
                a = {"f": form, "p": q}
                child = {"k": "open", "ds": TLASet([]), "as": [a], "ep": "", "dfirst": True, "sc": True, "un": False}

                def wrap(u):
                    return {"k": "open", "ds": TLASet([FrozenDict({"p": q, "u": u})]), "as": [], "ep": "", "dfirst": True, "sc": False, "un": False}
                close = {"k": "close"}
                docs.append([wrap(u1), child, close, wrap(u2), child, close])
                docs.append([wrap(u1), child, wrap(u2), child, close, child, close])
    return docs


class FrozenDict(dict):
    def __hash__(self):
        return hash(tuple(sorted(self.items())))

    def __lt__(self, other):
        return sorted(self.items()) < sorted(other.items())


def _chunk(recs, data_opt):
    sys.path.insert(0, REPO_SRC)
    from chameleon import PageTemplate
    viol = []
    n = 0
    for rec in recs:
        src, want = concretize(rec)
        n += 1
        try:
            got = PageTemplate(src, enable_data_attributes=data_opt)()
        except Exception as e:
            got = "EXC %s: %s" % (type(e).__name__, str(e).splitlines()[:1])
        if got != want:
            viol.append(("namespace handling (enable_data_attributes=%s): %r renders %r, expected %r" % (data_opt, src, got, want),
                         dict(source=src, got=got, want=want)))
        else:
            for w in LANGWORDS:
                if w in got and w not in want:
                    viol.append(("template-language markup %r leaks into the output of %r: %r" % (w, src, got), dict(source=src)))
    return n, viol


def ns_part(ctx, quick):
    for data_opt, spec_name in ((False, "SimSpec"), (True, "SimSpec"), (True, "SimSpec2"), (False, "SimSpec2"), (True, "GivenSpec"),
                                (False, "GivenSpec")) if quick else ((False, "Spec"), (True, "Spec"), (True, "SimSpec2"), (True, "GivenSpec"), (False, "GivenSpec")):
        wd = workdir("ns")
        try:
            open(os.path.join(wd, "MCNs.tla"), "w").write(MC % dict(given=lit(given_docs())))
            open(os.path.join(wd, "MCNs.cfg"), "w").write(
                "SPECIFICATION %s\nCONSTANTS\n MaxItems = %d\n MaxDepth = 2\n DataOption = %s\nINVARIANT NoLeak\nINVARIANT ForeignPreserved\nINVARIANT Emit\n"
                % (spec_name, 5 if spec_name != "Spec" else 4, "TRUE" if data_opt else "FALSE"))
            if spec_name == "GivenSpec":
                r = run_tlc("MCNs", "MCNs.cfg", wd, workers=1, timeout=600)
            elif spec_name != "Spec":
                r = run_tlc("MCNs", "MCNs.cfg", wd, workers=1, timeout=1800, simulate="num=%d" % (40000 if spec_name == "SimSpec" else 12000),
                            depth=10, seed=ctx.seed, java_opts=["-Xmx6g"])
            else:
                r = run_tlc("MCNs", "MCNs.cfg", wd, workers=1, timeout=7200, java_opts=["-Xmx8g"])
        finally:
            shutil.rmtree(wd, ignore_errors=True)
        if r.violation:
            ctx.violation("TLC: %s violated on NsSpelling" % r.violation, dict(kind="tlc", tail=r.stdout[-2000:]))
            return
        if not r.ok():
            ctx.fail("NsSpelling run failed: %s %s" % (r.error, r.stdout[-1500:]))
            return
        ctx.states += r.distinct
        ctx.transitions += r.states
        seen = {}
        for rec in r.records:
            seen[json.dumps(rec, sort_keys=True)] = rec
        recs = list(seen.values())
        ctx.behaviours += len(recs)
        chunks = [recs[i::16] for i in range(16)]
        with multiprocessing.get_context("fork").Pool(16) as pool:
            res = pool.starmap(_chunk, [(ch, data_opt) for ch in chunks])
        for n, viol in res:
            ctx.replays += n
            for text, payload in viol[:2]:
                if len(ctx.violations) < 8:
                    ctx.violation(text, dict(kind="ns", **payload))
        ctx.nontrivial += len(recs)
        if recs:
            ctx.sample({"document": concretize(recs[len(recs) // 2])[0], "data_option": data_opt})
        ctx.parts.append(dict(tag="NsSpelling data=%s" % data_opt, states=r.states, docs=len(recs), wall_tlc=r.wall))


def option_per_template(ctx):
    """the data- spelling is an option of the template that was given it -- and of what THAT template loads: file templates
    with and without the option in one directory, in both orders, each loading the same file through load:"""
    import tempfile
    sys.path.insert(0, REPO_SRC)
    from chameleon import PageTemplateFile
    d = tempfile.mkdtemp(prefix="c18o_")
    try:
        open(os.path.join(d, "part.pt"), "w").write('<div data-metal-define-macro="m" data-x="1"><i data-tal-content="x">d</i></div>')
        for nm in ("a.pt", "b.pt"):
            open(os.path.join(d, nm), "w").write('<r><u tal:define="t load: part.pt" metal:use-macro="t" /><s data-tal-replace="x">r</s></r>')
        want = {True: '<r><div data-x="1"><i>X</i></div>X</r>',
                False: '<r><div data-metal-define-macro="m" data-x="1"><i data-tal-content="x">d</i></div><s data-tal-replace="x">r</s></r>'}
        for order in ((False, True), (True, False), (False, True, False), (True, True, False)):
            ts = [PageTemplateFile(os.path.join(d, "a.pt" if k % 2 == 0 else "b.pt"), enable_data_attributes=o) for k, o in enumerate(order)]
            for t, o in zip(ts, order):
                ctx.replays += 1
                try:
                    got = t(x="X")
                except Exception as e:   # noqa
                    got = "EXC %s: %s" % (type(e).__name__, str(e).splitlines()[:1])
                if got != want[o]:
                    ctx.violation("file templates of one directory constructed with enable_data_attributes=%s: the one with %s renders %r, "
                                  "expected %r" % (list(order), o, got, want[o]), dict(kind="ns-option-per-template"))
                    return
    finally:
        shutil.rmtree(d, ignore_errors=True)


def run(ctx):
    rnd = random.Random(ctx.seed)
    quick = ctx.tier == "quick"
    option_per_template(ctx)
    ns_part(ctx, quick)
    dev = ctx.known_devs()
    progs = F.c01_f1(ctx.tier)
    if quick:
        progs = rnd.sample(progs, 40)
    # elements of the template language's own namespace under every statement subset: their tags never show
    nsprogs = F.c01_f1("quick", tag="ns")
    progs += rnd.sample(nsprogs, 40) if quick else nsprogs
    progs += F.c01_f2("quick", rnd)[:60 if quick else 400]
    # recovery paths: the fallback of a tal: element must not emit its tag either
    progs += [p for p in F.c13_chains("quick", rnd) if "ns" in p["fam"]][:25 if quick else 200]
    # statement values that contain character entities (1 &lt; 2, 1 &amp; 3) mean the same under every spelling
    ent = [p for p in F.c12_raising("quick", rnd) if p["fam"].endswith(":entities")]
    progs += rnd.sample(ent, min(len(ent), 12 if quick else 200))
    # what `attrs` holds does not depend on the spelling either (and never a declaration of a template-language namespace)
    progs += [p for p in F.c01_extras("quick", rnd) if "attrs-" in p["fam"]]
    agg = run_family("C18plans", progs, ["x", "y", "error"], dev=dev, invariants=["WellBracketed"],
                     perms=(0, 100, 101, 200, 300, 301), timeout=3000)
    ctx.add_family(agg)
    ctx.exhaustive = not quick
    ctx.rule = ("documents: every sequence of <=4 open/close items (depth <=2) whose elements carry <=1 namespace declaration "
                "(prefix t/foo/i18n -> any of 6 URIs), <=2 attributes in prefixed / bare / data- form and an element prefix "
                "(quick: 4000 simulated per option setting), with enable_data_attributes on and off; programs: statement-"
                "subset and nested programs x 4 spelling plans x permutations; non-trivial = every document / behaviour")
    ctx.assumptions += ["documents using an unbound prefix are outside (the parser rejects them)",
                        "statements used as probes are tal:define, metal:define-macro, i18n:domain, meta:interpolation (no visible effect)"]
