"""C07 -- attribute rendering: static, dynamic, default, None, boolean, dict.

Machine: Prepared / SDicts / SAttr of specs/ZPT.tla (tal.prepare_attributes
merge; attribute dictionaries evaluated first; named entries dropped when a
later source supplies the name; None drops, default keeps the static text;
boolean attributes).  TLC checks AtMostOncePerName on every emitted start tag;
replay compares the rendered start tags (text equality, including position,
quoting and spacing taken from the static attribute).
"""
import random

from .. import families as F
from ..pipeline import run_family

NAMES = ["x", "y", "error"]
INVS = ["WellBracketed", "AtMostOncePerReach", "AttrAtMostOncePerName"]


def run(ctx):
    rnd = random.Random(ctx.seed)
    quick = ctx.tier == "quick"
    dev = ctx.known_devs()
    progs = F.c07_family(ctx.tier, rnd)
    agg = run_family("C07attrs", progs, NAMES, dev=dev, invariants=INVS, perms=(0, 1) if quick else (0, 1, 2), timeout=3000)
    ctx.add_family(agg)
    # the same start tags inside the surroundings the machine models (macro body, slot filler, named block, on-error, ...)
    per = 6 if quick else 40
    cprogs = F.in_contexts(progs, per, rnd)
    agg = run_family("C07ctx", cprogs, NAMES + ["z", "macroname"], dev=dev, invariants=INVS, perms=(0,), timeout=3000)
    ctx.add_family(agg)
    # the same elements with other statements beside tal:attributes, written as data-tal-* attributes (several per element)
    f1 = [p for p in F.c01_f1("quick") if "attrs" in p["fam"]]
    agg = run_family("C07data", rnd.sample(f1, 24 if quick else len(f1)), NAMES, dev=dev, invariants=INVS, perms=(300, 301), timeout=3000)
    ctx.add_family(agg)
    for f in ctx.known():
        ctx.witness(f)
    # what one template leaves behind (rejected templates, templates with options of their own) does not reach another
    from .. import isolation
    ctx.replays += isolation.run(ctx, "attributes")
    ctx.exhaustive = True
    ctx.rule = ("elements with 0-3 static attributes (mixed case, both quotes, spacing around '=') x tal:attributes "
                "lists of <=3 entries over {class, CLASS, id, checked, title, dictionary} x values {None, default, '', "
                "0, False, True, str, hostile str, bytes, __html__} / dictionaries with 0-3 keys x boolean "
                "configurations {HTML default, none, explicit}; non-trivial = at least one call evaluated")
    ctx.assumptions += ["dictionary keys are matched against static names case-sensitively (code behaviour, DESIGN 3.2)",
                        "the position of a dictionary-supplied attribute is the dictionary's position in the statement"]
