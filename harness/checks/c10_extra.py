"""Direct checks of the i18n contract for attributes, dynamic content and
message objects (C10), against the value table of specs/ZPT.tla
(which value classes are offered to the translation function)."""
from harness import REPO_SRC  # noqa: E402
import sys


def run(ctx, rnd):
    sys.path.insert(0, REPO_SRC)
    from chameleon import PageTemplate
    calls = []

    def tr(msgid, domain=None, mapping=None, context=None, target_language=None, default=None):
        calls.append(dict(msgid=msgid, domain=domain, mapping=mapping, context=context, target=target_language, default=default))
        if isinstance(msgid, str):
            out = "T[%s]" % msgid
            for k, v in (mapping or {}).items():
                out = out.replace("${%s}" % k, str(v))
            return out
        if getattr(msgid, "is_msg", False):
            return "M<&>"
        return msgid

    def check(label, src, kw, want_out, want_calls, opts=None):
        del calls[:]
        try:
            got = PageTemplate(src, translate=tr, **(opts or {}))(**kw)
        except Exception as e:
            got = "EXC %s: %s" % (type(e).__name__, str(e).splitlines()[:1])
        ctx.replays += 1
        seen = [(c["msgid"] if isinstance(c["msgid"], str) else type(c["msgid"]).__name__, c["default"] if isinstance(c["default"], (str, type(None))) else "obj",
                 c["domain"], c["context"], c["target"]) for c in calls]
        ok_calls = any(seen == w for w in want_calls)
        if got != want_out or not ok_calls:
            ctx.violation("i18n %s: %r renders %r with translate calls %s; expected %r with %s" % (label, src, got, seen, want_out, want_calls[0]),
                          dict(kind="i18n-extra", source=src))

    class Msg:
        is_msg = True

        def __str__(self):
            return "untranslated"

    class Plain:
        def __str__(self):
            return "plain<"

    class Html:
        def __html__(self):
            return "<i>h</i>"
    # attributes named in i18n:attributes, with and without ids
    check("static attribute, no id", '<a title="Hello" i18n:attributes="title" i18n:domain="d">x</a>', {},
          '<a title="T[Hello]">x</a>', [[("Hello", "Hello", "d", None, None)]])
    check("static attribute, explicit id", '<a title="Hello" alt="A" i18n:attributes="title tid; alt" i18n:context="c">x</a>', {},
          '<a title="T[tid]" alt="T[A]">x</a>', [[("tid", "Hello", None, "c", None), ("A", "A", None, "c", None)]])
    check("dynamic attribute", '<a tal:attributes="title t" i18n:attributes="title" i18n:target="\'fr\'">x</a>', {"t": "Dyn"},
          '<a title="T[Dyn]">x</a>', [[("Dyn", "Dyn", None, None, "fr")]])
    check("interpolated attribute", '<a title="Hi ${n}" i18n:attributes="title">x</a>', {"n": "Bob"},
          '<a title="T[Hi Bob]">x</a>', [[("Hi Bob", "Hi Bob", None, None, None)]])
    check("attribute not named", '<a title="Hello" alt="A" i18n:attributes="alt">x</a>', {},
          '<a title="Hello" alt="T[A]">x</a>', [[("A", "A", None, None, None)]])
    check("implicit attributes option", '<a title="Hello" alt="A">x</a>', {},
          '<a title="T[Hello]" alt="A">x</a>', [[("Hello", "Hello", None, None, None)]], opts={"implicit_i18n_attributes": ["title"]})
    check("implicit attributes option off", '<a title="Hello">x</a>', {}, '<a title="Hello">x</a>', [[]])
    # every combination: attribute {title, alt} x {not named, named without id, named with id} x implicit option
    # {off, title, alt, both} x value {static, tal:attributes, interpolated}
    import itertools
    for spec_t, spec_a, implicit, how in itertools.product(("none", "plain", "id"), ("none", "plain", "id"),
                                                           ((), ("title",), ("alt",), ("title", "alt")), ("static", "dynamic", "interp")):
        specs = {"title": spec_t, "alt": spec_a}
        texts = {"title": "Hello", "alt": "Logo"}
        parts = [n + (" %s-id" % n if specs[n] == "id" else "") for n in ("title", "alt") if specs[n] != "none"]
        ia = ' i18n:attributes="%s"' % "; ".join(parts) if parts else ""
        if how == "static":
            src = '<a title="Hello" alt="Logo"%s i18n:domain="d">x</a>' % ia
        elif how == "dynamic":
            src = '<a title="old" alt="old" tal:attributes="title t; alt a"%s i18n:domain="d">x</a>' % ia
        else:
            src = '<a title="${t}" alt="Lo${g}"%s i18n:domain="d">x</a>' % ia
        want_calls, outs = [], {}
        for n in ("title", "alt"):
            if specs[n] == "id":
                want_calls.append((n + "-id", texts[n], "d", None, None))
                outs[n] = "T[%s-id]" % n
            elif specs[n] == "plain" or (n in implicit and how in ("static", "dynamic")):
                want_calls.append((texts[n], texts[n], "d", None, None))
                outs[n] = "T[%s]" % texts[n]
            elif n in implicit and how == "interp" and n == "alt":
                # (title="${t}" has no static text of its own: nothing to translate implicitly)
                # implicit translation of an interpolated attribute: the message id is the text with its ${name}
                # placeholders, the values travel in the mapping
                want_calls.append(("Lo${g}", "Lo${g}", "d", None, None))
                outs[n] = "T[%s]" % texts[n]
            else:
                outs[n] = texts[n]
        check("attributes %s / implicit %s / %s" % (specs, list(implicit), how), src, {"t": "Hello", "a": "Logo", "g": "go"},
              '<a title="%s" alt="%s">x</a>' % (outs["title"], outs["alt"]), [want_calls],
              opts={"implicit_i18n_attributes": list(implicit)} if implicit else None)
    # dynamic content with i18n:translate=""
    check("dynamic content", '<a tal:content="v" i18n:translate="" i18n:domain="d">old</a>', {"v": "Val"},
          '<a>T[Val]</a>', [[("Val", None, "d", None, None)], [("Val", "Val", "d", None, None)]])
    # implicit translation of text
    check("implicit translate option", '<a>  Hello   world </a>', {}, '<a>  T[Hello world] </a>',
          [[("Hello world", "Hello world", None, None, None)]], opts={"implicit_i18n_translate": True})
    # inserted values: str / number / __html__ are not offered, everything else is
    for site, tmpl in (("interpolation", '<a i18n:domain="d">${v}</a>'), ("content", '<a i18n:domain="d" tal:content="v">x</a>'),
                       ("attribute", '<a i18n:domain="d" tal:attributes="t v">x</a>')):
        def out(s, esc=True):
            s2 = s.replace("&", "&amp;").replace("<", "&lt;").replace(">", "&gt;") if esc else s
            return '<a t="%s">x</a>' % s2 if site == "attribute" else '<a>%s</a>' % s2
        check(site + ": str not offered", tmpl, {"v": "s"}, out("s"), [[]])
        check(site + ": int not offered", tmpl, {"v": 7}, out("7"), [[]])
        check(site + ": float not offered", tmpl, {"v": 1.5}, out("1.5"), [[]])
        check(site + ": __html__ not offered", tmpl, {"v": Html()}, out("<i>h</i>", esc=False), [[]])
        check(site + ": message object offered, translation escaped", tmpl, {"v": Msg()}, out("M<&>"), [[("Msg", None, "d", None, None)]])
        check(site + ": plain object offered, then str()", tmpl, {"v": Plain()}, out("plain<"), [[("Plain", None, "d", None, None)]])
        check(site + ": bool offered", tmpl, {"v": True}, out("True"), [[("bool", None, "d", None, None)]])
        check(site + ": list offered", tmpl, {"v": [1]}, out("[1]"), [[("list", None, "d", None, None)]])
    # errors of the grammar
    for src in ('<p i18n:translate=""><b i18n:name="n">a</b><b i18n:name="n">b</b></p>', '<b i18n:name="n">a</b>'):
        ctx.replays += 1
        try:
            PageTemplate(src)
            ctx.violation("i18n: duplicate / orphan i18n:name accepted: %r" % src, dict(kind="i18n-extra", source=src))
        except Exception as e:
            from chameleon.exc import TemplateError
            if not isinstance(e, TemplateError):
                ctx.violation("i18n: %r raised %s, not a TemplateError" % (src, type(e).__name__), dict(kind="i18n-extra", source=src))


def per_render(ctx):
    """the translation function (and target language) of a rendering are those passed to THAT rendering: on one template
    object, with and without an encoding, constructor default or render argument"""
    import sys
    sys.path.insert(0, REPO_SRC)
    from chameleon import PageTemplate

    def mk(tag):
        def tr(msgid, domain=None, mapping=None, context=None, target_language=None, default=None):
            return "%s(%s|%s)" % (tag, msgid if isinstance(msgid, str) else "obj", target_language)
        return tr
    src = '<p i18n:translate="">Hello</p><a title="T" i18n:attributes="title">k</a>${m}'

    class Msg:
        def __str__(self):
            return "msg"
    for ctor in ({}, {"encoding": "utf-8"}, {"translate": mk("C")}, {"translate": mk("C"), "encoding": "latin-1"}):
        t = PageTemplate(src, **ctor)
        seq = [dict(translate=mk("A")), dict(translate=mk("B"), target_language="de"), dict(translate=mk("A"), encoding="utf-8"),
               dict(translate=mk("B"), encoding="utf-8", target_language="fr"), dict(), dict(translate=mk("D"), encoding="latin-1")]
        for kw in seq:
            ctx.replays += 1
            tag = "C" if "translate" not in kw and "translate" in ctor else None
            if "translate" in kw:
                tag = kw["translate"]("x")[0]
            lang = kw.get("target_language")
            got = t(m=Msg(), **kw)
            if tag is None:
                continue          # the default translation function: nothing to tell renderings apart
            want = "<p>%s(Hello|%s)</p><a title=\"%s(T|%s)\">k</a>%s(obj|%s)" % (tag, lang, tag, lang, tag, lang)
            if got != want:
                ctx.violation("i18n: one template object (constructed with %s) rendered with %s returns %r, expected %r: every rendering "
                              "uses the translation function and target language given to it" % (sorted(ctor), sorted(kw), got, want),
                              dict(kind="i18n-per-render", source=src))
                return
