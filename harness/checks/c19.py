"""C19 -- strict mode changes only when an invalid expression is reported.

Machine: `bad` expressions of specs/ZPT.tla evaluate to ExpressionError at
their site; whether they are reached is decided by the machine.
(a) valid programs: every behaviour is replayed with strict=True and with
    strict=False; both must equal the machine (hence each other).
(b) programs with invalid expressions planted at reachable and unreachable
    sites: strict=True must fail at construction with an ExpressionError
    located at a planted expression; strict=False must construct, and render
    raises that ExpressionError, with the same location, iff the machine
    reaches the planted expression.
"""
from harness import REPO_SRC  # noqa: E402
import os
import random
import sys

from .. import families as F
from .. import concretize as C
from ..pipeline import run_family

NAMES = ["x", "y", "error"]


def run(ctx):
    rnd = random.Random(ctx.seed)
    quick = ctx.tier == "quick"
    dev = ctx.known_devs()
    valid = F.c19_valid(ctx.tier, rnd)
    for strict in (True, False):
        agg = run_family("C19valid_strict%s" % strict, valid, NAMES, dev=dev, invariants=["WellBracketed"],
                         perms=(0,), options={"strict": strict}, timeout=1800)
        ctx.add_family(agg)
    badp = F.c19_bad(ctx.tier, rnd)
    agg = run_family("C19bad_nonstrict", badp, NAMES, dev=dev, invariants=[], perms=(0, 1), options={"strict": False},
                     timeout=1800)
    ctx.add_family(agg)
    strict_compile(ctx, badp)
    # METAL: a filler replaced by a later one of its slot, default content of a filled slot, a filler nobody asks for, a
    # macro nobody uses -- never rendered (non-strict renders), always compiled (strict rejects the template that holds it)
    mbad = F.c19_bad_metal(ctx.tier, rnd)
    agg = run_family("C19bad_metal", mbad, NAMES + ["g", "macroname"], dev=dev, invariants=[], perms=(0,), options={"strict": False},
                     timeout=1800)
    ctx.add_family(agg)
    strict_each_source(ctx, mbad)
    empty_and_crlf(ctx, badp)
    file_history(ctx)
    for f in ctx.known():
        ctx.witness(f)
    ctx.exhaustive = True
    ctx.rule = ("valid: statement-subset programs x all outcomes x strict in {True, False}; invalid: 4 kinds of invalid "
                "expression at each of 11 sites (reached) and under a false condition, empty repeat, unselected case, "
                "non-default content, replaced element, unused fallback, later pipe alternative, and two plants; "
                "non-trivial = at least one call evaluated")
    ctx.assumptions += ["invalid expressions are the four texts ']['  '1 +'  '(a'  'a b'"]


def strict_each_source(ctx, progs):
    """every template of the program (entry template, libraries) that holds a planted expression is rejected by strict
    compilation with the token at the plant; the others compile"""
    sys.path.insert(0, REPO_SRC)
    from chameleon import PageTemplate
    from chameleon.exc import ExpressionError
    n = 0
    for p in progs:
        c = C.concretize(p, 0)
        for k, src in enumerate(c.srcs):
            planted = [info for info in c.sites.values() if info.get("tmpl", 0) == k and any(b in info["text"] for b in C.BAD_EXPRS)]
            n += 1
            try:
                PageTemplate(src, strict=True)
                res = None
            except ExpressionError as e:
                res = e.token
            except Exception as e:   # noqa
                ctx.violation("strict: construction raised %s, not ExpressionError (%s)\n  template: %r" % (type(e).__name__, p["fam"], src),
                              dict(kind="strict", source=src))
                continue
            if planted and res is None:
                ctx.violation("strict: a template with an invalid expression in a part that is never rendered (%s) was accepted\n"
                              "  template: %r" % (p["fam"], src), dict(kind="strict", source=src))
            elif not planted and res is not None:
                ctx.violation("strict: a template without invalid expression (%s) was rejected at %r\n  template: %r" % (p["fam"], str(res), src),
                              dict(kind="strict", source=src))
            elif planted and not any(i["offset"] <= res.pos <= i["offset"] + len(i.get("encoded") or i["text"]) for i in planted):
                ctx.violation("strict: ExpressionError token %r at offset %s is not the planted expression (%s)\n  template: %r" % (
                    str(res), res.pos, p["fam"], src), dict(kind="strict", source=src))
    ctx.replays += n


def strict_compile(ctx, progs):
    sys.path.insert(0, REPO_SRC)
    from chameleon import PageTemplate
    from chameleon.exc import ExpressionError, TemplateError
    n = 0
    for p in progs:
        c = C.concretize(p, 0)
        bads = [(site, info) for site, info in c.sites.items() if any(b in info["text"] for b in C.BAD_EXPRS)]
        n += 1
        try:
            PageTemplate(c.source, strict=True)
        except ExpressionError as e:
            tok = e.token
            ok = False
            for site, info in bads:
                lo, hi = info["offset"], info["offset"] + len(info.get("encoded") or info["text"])
                if lo <= tok.pos <= hi and c.source[tok.pos:tok.pos + len(tok)] == str(tok):
                    ok = True
            if not ok:
                ctx.violation("strict: ExpressionError token %r at offset %s is not a planted expression (%s)\n  template: %r" % (
                    str(tok), tok.pos, [(i["text"], i["offset"]) for _, i in bads], c.source),
                    dict(kind="strict", source=c.source))
        except Exception as e:
            ctx.violation("strict: construction raised %s, not ExpressionError\n  template: %r" % (type(e).__name__, c.source),
                          dict(kind="strict", source=c.source))
        else:
            ctx.violation("strict: template with an invalid expression was accepted\n  template: %r" % c.source,
                          dict(kind="strict", source=c.source))
        try:
            PageTemplate(c.source, strict=False).cook_check()
        except Exception as e:
            ctx.violation("non-strict: construction/compilation raised %s\n  template: %r" % (type(e).__name__, c.source),
                          dict(kind="strict", source=c.source))
    # the same with a module cache shared by both modes: what one mode stored is not what the other mode loads
    import shutil
    import tempfile
    from chameleon.loader import ModuleLoader
    d = tempfile.mkdtemp(prefix="c19_")
    try:
        for k, p in enumerate(progs[::3]):
            c = C.concretize(p, 0)
            sub = os.path.join(d, str(k))
            os.mkdir(sub)
            for order in ((False, True, False), (True, False, True)):
                loader = ModuleLoader(os.path.join(sub, "a" if order[0] else "b"))
                os.makedirs(loader.path, exist_ok=True)
                for strict in order:
                    n += 1
                    try:
                        PageTemplate(c.source, strict=strict, loader=loader).cook_check()
                        res = "compiled"
                    except ExpressionError:
                        res = "ExpressionError"
                    except Exception as e:   # noqa
                        res = type(e).__name__
                    want = "ExpressionError" if strict else "compiled"
                    if res != want:
                        ctx.violation("module cache shared by strict and non-strict compilation (order %s): strict=%s gives %s, expected %s\n"
                                      "  template: %r" % (list(order), strict, res, want, c.source), dict(kind="strict-cache", source=c.source))
                        break
                if len(ctx.violations) > 6:
                    break
    finally:
        shutil.rmtree(d, ignore_errors=True)
    ctx.replays += 2 * n
    ctx.sample({"strict_compile_template": C.concretize(progs[0], 0).source})


def file_history(ctx):
    """the same for a file template whose file is edited (auto_reload): while the file holds an invalid expression every
    use of the strict template fails with the ExpressionError -- it never falls back to what it compiled before --
    and the non-strict template raises it exactly when rendering reaches the expression"""
    import shutil
    import tempfile
    sys.path.insert(0, REPO_SRC)
    from chameleon import PageTemplateFile
    from chameleon.exc import ExpressionError
    good = '<p tal:condition="show">v%d ${1 + 1}</p>'
    bad = '<p tal:condition="show">v%d ${1 +}</p>'
    d = tempfile.mkdtemp(prefix="c19f_")
    try:
        path = os.path.join(d, "t.pt")
        for strict in (True, False):
            t = None
            plan = [("good", 1), ("bad", 2), ("bad", 2), ("good", 3), ("bad", 4), ("bad", 4), ("bad", 4), ("good", 5)]
            stamp = 1000
            last = None
            for kind, v in plan:
                if (kind, v) != last:
                    stamp += 10
                    open(path, "w").write((good if kind == "good" else bad) % v)
                    os.utime(path, (stamp, stamp))
                    last = (kind, v)
                if t is None:
                    t = PageTemplateFile(path, auto_reload=True, strict=strict)
                for show in (False, True):
                    ctx.replays += 1
                    try:
                        got = t(show=show)
                    except ExpressionError:
                        got = "ExpressionError"
                    except Exception as e:   # noqa
                        got = "EXC " + type(e).__name__
                    if kind == "good":
                        want = ("<p>v%d 2</p>" % v) if show else ""
                    else:
                        want = "ExpressionError" if (strict or show) else ""
                    if got != want:
                        ctx.violation("file template (auto_reload, strict=%s), file versions %s: with the file at version %d (%s) and show=%s "
                                      "the call gives %r, expected %r" % (strict, [p[1] for p in plan], v, kind, show, got, want),
                                      dict(kind="strict-file-history"))
                        return
    finally:
        shutil.rmtree(d, ignore_errors=True)


def empty_and_crlf(ctx, progs):
    """(a) empty expressions are invalid expressions too: strict fails when the template is compiled, non-strict when the
    rendering reaches them -- with the same ExpressionError (token, offset, location);
    (b) templates with CRLF line ends: both modes report the same location (that of the text after normalisation)"""
    sys.path.insert(0, REPO_SRC)
    from chameleon import PageTemplate
    from chameleon.exc import ExpressionError

    def err(src, strict, **kw):
        try:
            t = PageTemplate(src, strict=strict)
        except ExpressionError as e:
            return ("compile", str(e.token), e.offset, tuple(e.location))
        except Exception as e:   # noqa
            return ("compile-other", type(e).__name__, None, None)
        try:
            t(**kw)
        except ExpressionError as e:
            return ("render", str(e.token), e.offset, tuple(e.location))
        except Exception as e:   # noqa
            return ("render-other", type(e).__name__, None, None)
        return ("ok", None, None, None)
    empties = ['<p tal:content="">x</p>', '<p tal:replace="">x</p>', '<p\n tal:define="x ">x</p>', '<p tal:condition="not:">x</p>',
               '<p>t\n ${python:}</p>',
               '<p tal:on-error="">${1/0}</p>']
    for src in empties:
        for eol in ("\n", "\r\n"):
            s2 = src.replace("\n", eol)
            a, b = err(s2, True), err(s2, False)
            ctx.replays += 2
            if a[0] != "compile" or b[0] != "render" or a[1:] != b[1:]:
                ctx.violation("empty expression in %r: strict gives %s, non-strict gives %s; expected the same ExpressionError, when "
                              "compiling resp. when rendering" % (s2, a, b), dict(kind="strict-empty", source=s2))
                return
    # (b) planted invalid expressions in CRLF templates
    n = 0
    for p in progs[::4]:
        c = C.concretize(p, 0)
        src = c.source.replace("\n", "\r\n")
        a = err(src, True)
        if a[0] != "compile":
            continue
        # the non-strict template raises the same error if the rendering reaches the expression; find it by trying
        try:
            t = PageTemplate(src, strict=False)
        except Exception as e:   # noqa
            ctx.violation("non-strict compilation of a CRLF template failed: %s\n  template: %r" % (type(e).__name__, src), dict(kind="strict-crlf", source=src))
            return
        n += 1
        norm = src.replace("\r\n", "\n")
        line, col = norm.count("\n", 0, a[2]) + 1, a[2] - (norm.rfind("\n", 0, a[2]) + 1)
        if a[3] != (line, col) or norm[a[2]:a[2] + len(a[1])] != a[1]:
            ctx.violation("strict compilation of a CRLF template reports %r at offset %s, location %s; in the normalised text that "
                          "offset is line %d column %d (%r)\n  template: %r" % (a[1], a[2], a[3], line, col, norm[a[2]:a[2] + len(a[1])], src),
                          dict(kind="strict-crlf", source=src))
            return
    ctx.replays += n
