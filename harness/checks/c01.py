"""C01 -- TAL statements render with the language semantics, in one fixed order.

Spec: specs/ZPT.tla (the render machine).  TLC enumerates, per program of
the families F1 (every subset of the eight statements on one element), F2
(two-level nests and sibling pairs) and F3 (random deeper programs), every
combination of outcomes of the scripted calls that are evaluated, checks the
step invariants, and dumps each terminal state.  Every terminal behaviour is
replayed on the real chameleon in several permutations of the statement
attributes: rendered text == printer(machine stream), call log == machine
log (order normalised inside one element's render group).
"""
import random

from .. import families as F
from ..pipeline import run_family

NAMES = ["x", "y", "error"]
INVS = ["WellBracketed", "AtMostOncePerReach", "LeaveRestores", "GlobalsPersist", "OnErrorReplacesExactly"]
PROPS = ["CaseAtMostOne"]


def run(ctx):
    rnd = random.Random(ctx.seed)
    quick = ctx.tier == "quick"
    dev = ctx.known_devs()
    perms = (0, 1, 2) if quick else (0, 1, 2, 3, 4, 5)
    f1 = F.c01_f1(ctx.tier)
    agg = run_family("C01F1", f1, NAMES, dev=dev, invariants=INVS, properties=PROPS, perms=perms,
                     timeout=600 if quick else 3000)
    ctx.add_family(agg)
    f1n = F.c01_f1(ctx.tier, tag="ns")
    agg = run_family("C01F1ns", f1n, NAMES, dev=dev, invariants=INVS, properties=PROPS, perms=perms[:2],
                     timeout=600 if quick else 3000)
    ctx.add_family(agg)
    f2 = F.c01_f2(ctx.tier, rnd)
    agg = run_family("C01F2", f2, NAMES, dev=dev, invariants=INVS, properties=PROPS, perms=perms[:2] if quick else perms[:4],
                     timeout=600 if quick else 3000)
    ctx.add_family(agg)
    n3 = 150 if quick else 3000
    f3 = [F.random_program(rnd, ctx.tier, depth=3 if quick else 4, max_items=10 if quick else 14) for _ in range(n3)]
    agg = run_family("C01F3", f3, NAMES, dev=dev, invariants=INVS, properties=[], perms=perms[:2],
                     timeout=600 if quick else 3000, simulate=(150 if quick else 6000, 600, ctx.seed))
    ctx.add_family(agg)
    # F6: nested elements whose definitions are spelled with the very same text
    f6, pool6 = F.c05_sametext(ctx.tier, rnd)
    agg = run_family("C01F6", f6, sorted(set(pool6) | {"error"}), dev=dev, invariants=INVS, properties=[], perms=(0,), timeout=600)
    ctx.add_family(agg)
    # F7: statement-subset programs moved into the surroundings the machine models (macro body, slot filler, named
    # block of a translation, on-error element, repeated element, template-namespace element)
    per = 8 if quick else 60
    f7 = F.in_contexts(f1, per, rnd)
    agg = run_family("C01F7", f7, NAMES + ["z", "macroname"], dev=dev, invariants=INVS, properties=[], perms=perms[:2], timeout=900)
    ctx.add_family(agg)
    # F8: the same programs with their statements spelled through a renamed prefix and as data-tal-* attributes -- also
    # programs whose statement values contain character entities
    ent = [p for p in F.c12_raising("quick", rnd) if p["fam"].endswith(":entities")]
    f8 = rnd.sample(f1, 16 if quick else 100) + rnd.sample(ent, min(len(ent), 10 if quick else 100))
    agg = run_family("C01F8", f8, NAMES, dev=dev, invariants=INVS, properties=[], perms=(100, 300, 301), timeout=900)
    ctx.add_family(agg)
    # F9: one name re-bound by nested global / local / repeat elements (every chain of up to three over the name x)
    chains, pool9 = F.c05_chains(ctx.tier, rnd)
    f9 = [p for p in chains if all(part.endswith(":x") for part in p["fam"].split(" ")[0].split(":", 1)[1].split("/"))]
    agg = run_family("C01F9", f9, sorted(set(pool9) | {"error"}), dev=dev, invariants=INVS, properties=[], perms=(0,), timeout=900)
    ctx.add_family(agg)
    f5 = F.c01_extras(ctx.tier, rnd)
    agg = run_family("C01F5", f5, NAMES, dev=dev, invariants=INVS, properties=PROPS, perms=perms[:2] if quick else perms[:4],
                     timeout=600)
    ctx.add_family(agg)
    # F4: large random programs (depth <= 6, up to 40 items); the real code runs them with random outcomes and the
    # recorded traces are validated by TLC against the machine (specs/ZPTTrace.tla)
    from ..tracerun import run_traces
    n4 = 120 if quick else 2500
    f4 = [F.random_program(rnd, ctx.tier, depth=5 if quick else 6, max_items=30 if quick else 40, onerror=True, raising=True, width=4)
          for _ in range(n4)]
    run_traces(ctx, "C01F4", f4, NAMES, dev=dev, invariants=INVS, runs=2 if quick else 3)
    # what one template leaves behind (rejected templates, templates with options of their own) does not reach another
    from .. import isolation
    ctx.replays += isolation.run(ctx, "statements")
    ctx.exhaustive = True
    ctx.rule = ("programs: F1 = every subset of {define,condition,repeat,case(+switch parent),content|replace,"
                "omit-tag,attributes} on one element with one child (192 programs); F2 = nests/sibling pairs "
                "with <=2 statements per element; F3 = seeded random programs of depth <=4. TLC enumerates every "
                "outcome combination of the evaluated calls from the per-statement value classes; each terminal "
                "state is one behaviour; non-trivial = at least one scripted call evaluated; each behaviour is "
                "replayed on the real code in %d attribute permutations" % len(perms))
    ctx.assumptions += [
        "guard order define<case<condition<repeat<switch taken from the code (DESIGN 3.2)",
        "call-log order inside one element's render group (replace/omit/attributes/content) is normalised",
        "value classes are represented by one or two concrete Python objects each (Appendix B)",
        "repeat separator compared exactly only when a text node directly precedes the start tag",
    ]
    return "model_checking"
