"""TLA+ literal emission and TLC invocation.

Everything that talks to TLC goes through this module:

* ``lit(obj)``        Python value  -> TLA+ literal text
* ``run_tlc(...)``    run one TLC job under a timeout with a private metadir,
                      return statistics, PrintT-dumped JSON records and any
                      violated invariant / error text.
"""
from __future__ import annotations

import json
import os
import re
import shutil
import subprocess
import tempfile
import time

VERIF = os.path.dirname(os.path.dirname(os.path.abspath(__file__)))
SPECS = os.path.join(VERIF, "specs")
JAR = "/opt/veriftools/tla/tla2tools.jar"


class TLASet(frozenset):
    """Marks a Python collection to be emitted as a TLA+ set."""


def lit(o) -> str:
    if isinstance(o, bool):
        return "TRUE" if o else "FALSE"
    if isinstance(o, int):
        return str(o)
    if isinstance(o, str):
        assert '"' not in o and "\\" not in o and "\n" not in o, o
        return '"' + o + '"'
    if isinstance(o, (TLASet, set, frozenset)):
        return "{" + ", ".join(sorted(lit(x) for x in o)) + "}"
    if isinstance(o, (list, tuple)):
        return "<<" + ", ".join(lit(x) for x in o) + ">>"
    if isinstance(o, dict):
        if not o:
            return "[x \\in {} |-> 0]"
        if all(isinstance(k, str) and re.match(r"^[A-Za-z][A-Za-z0-9_]*$", k) for k in o):
            return "[" + ", ".join("%s |-> %s" % (k, lit(v)) for k, v in o.items()) + "]"
        # function with arbitrary (string) domain
        return "(" + " @@ ".join("(%s :> %s)" % (lit(k), lit(v)) for k, v in o.items()) + ")"
    raise TypeError(type(o))


class TLCResult:
    def __init__(self):
        self.rc = None
        self.states = 0
        self.distinct = 0
        self.depth = 0
        self.records = []
        self.violation = None      # name of violated invariant / property
        self.error = None          # other error text
        self.wall = 0.0
        self.stdout = ""
        self.timed_out = False
        self.flooded = False
        self.coverage = {}

    def ok(self):
        return self.rc == 0 and self.violation is None and self.error is None and not self.timed_out


_STATS = re.compile(r"(\d+) states generated, (\d+) distinct states found")
_DEPTH = re.compile(r"The depth of the complete state graph search is (\d+)")
_INV = re.compile(r"Invariant (\S+) is violated")
_PROP = re.compile(r"(?:Action property|Temporal properties?) (\S+)? ?(?:is|were) violated")


def parse_records(stdout: str):
    """PrintT(ToJson(rec)) lines look like  "{\\"a\\":1}"  (a TLA+ string
    literal).  Decode twice."""
    recs = []
    for line in stdout.splitlines():
        if line.startswith('"{') or line.startswith('"['):
            try:
                recs.append(json.loads(json.loads(line)))
            except Exception:
                # TLC prints strings with TLA+ escapes which are JSON compatible
                # for our alphabet; anything else is a machinery failure
                raise RuntimeError("cannot decode TLC record line: %r" % line[:200])
    return recs


MAX_OUTPUT = 1536 << 20      # per TLC run; a run whose records are legitimately larger passes max_output


def run_tlc(module: str, cfg: str, workdir: str, *, workers=1, timeout=600,
            simulate: str | None = None, depth: int | None = None, seed: int | None = None,
            env_extra: dict | None = None, java_opts: list | None = None,
            coverage: bool = False, deadlock: bool = False, dfs: bool = False, max_output: int | None = None) -> TLCResult:
    """Run TLC on workdir/module.tla with workdir/cfg.  SPECS is on the path
    through -DTLA-Library."""
    meta = tempfile.mkdtemp(prefix="tlcmeta_", dir=workdir)
    jopts = ["-XX:+UseParallelGC", "-XX:ParallelGCThreads=2", "-Xmx3g", "-Xss1g", "-DTLA-Library=" + SPECS]
    if dfs:
        jopts.append("-Dtlc2.tool.queue.IStateQueue=StateDeque")
    if java_opts:
        jopts += java_opts
    cmd = ["java"] + jopts + ["-cp", JAR + ":/opt/veriftools/tla/CommunityModules-deps.jar", "tlc2.TLC",
                               "-workers", str(workers), "-metadir", meta, "-noGenerateSpecTE",
                               "-config", cfg]
    if not deadlock:
        cmd += ["-deadlock"]
    if simulate:
        cmd += ["-simulate", simulate]
    if depth:
        cmd += ["-depth", str(depth)]
    if seed is not None:
        cmd += ["-seed", str(seed)]
    if coverage:
        cmd += ["-coverage", "1"]
    cmd += [module]
    env = dict(os.environ)
    if env_extra:
        env.update(env_extra)
    r = TLCResult()
    t0 = time.time()
    # TLC's output goes to a file, not through a pipe into memory: after an error in a long behaviour TLC prints
    # every state of it (gigabytes for a program with thousands of iterations), and a reader that swallows that is
    # killed by the kernel -- with a worker pool waiting for it for ever
    outpath = os.path.join(meta, "tlc.out")
    cap = max_output or MAX_OUTPUT
    try:
        with open(outpath, "wb") as fout:
            proc = subprocess.Popen(cmd, cwd=workdir, env=env, stdout=fout, stderr=subprocess.STDOUT)
            deadline = t0 + timeout
            while True:
                try:
                    r.rc = proc.wait(timeout=2)
                    break
                except subprocess.TimeoutExpired:
                    too_big = os.path.getsize(outpath) > cap
                    if time.time() > deadline or too_big:
                        proc.kill()
                        proc.wait()
                        r.rc = -1
                        r.timed_out = not too_big
                        r.flooded = too_big
                        break
        size = os.path.getsize(outpath)
        with open(outpath, "rb") as fin:
            if size <= cap:
                data = fin.read()
            else:
                head = fin.read(4 << 20)
                fin.seek(size - (1 << 20))
                data = head + b"\n...\n" + fin.read()
        r.stdout = data.decode("utf-8", "replace")
    finally:
        shutil.rmtree(meta, ignore_errors=True)
    r.wall = time.time() - t0
    out = r.stdout
    for m in _STATS.finditer(out):
        r.states, r.distinct = int(m.group(1)), int(m.group(2))
    m = _DEPTH.search(out)
    if m:
        r.depth = int(m.group(1))
    m = _INV.search(out)
    if m:
        r.violation = m.group(1)
    m = _PROP.search(out)
    if m and not r.violation:
        r.violation = m.group(1) or "temporal"
    if getattr(r, "flooded", False):
        errs = [ln for ln in out.splitlines() if ln.startswith("Error:")]
        if r.violation is None:
            r.error = "TLC printed more than %d MB and was stopped: %s" % (cap >> 20, " ".join(errs[:3]))
        return r
    if r.rc not in (0, None) and r.violation is None and not r.timed_out:
        errs = [ln for ln in out.splitlines() if ln.startswith("Error:") or "Exception" in ln]
        r.error = "\n".join(errs[:12]) or ("TLC exit %s" % r.rc)
    try:
        r.records = parse_records(out)
    except RuntimeError as e:
        r.error = str(e)
    return r


def tlc_classpath_probe():
    """Returns the classpath on which the `tlc` wrapper runs (for the
    CommunityModules)."""
    try:
        txt = open(shutil.which("tlc")).read()
    except Exception:
        return None
    return txt
