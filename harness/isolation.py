"""Compilation failures leave nothing behind: after a template with a language error has been rejected (the error
standing below elements that switch compiler state: meta:interpolation, i18n:translate, i18n:domain, define-macro,
use-macro / fill-slot, tal:switch, tal:on-error, tal:repeat), templates compiled afterwards render exactly as before.
Used by C06 (interpolation switch), C11 (a template without an error is never rejected) and C14 (separately compiled
instances of the same source render identically)."""
from __future__ import annotations

from harness import REPO_SRC  # noqa: E402

import sys

ERRORS = [
    '<a tal:content="x" tal:replace="y">t</a>',
    '<a tal:foo="x">t</a>',
    '<a tal:define="1x y">t</a>',
    '<a tal:content="][">t</a>',
    '<a>${1 +}</a>',
    '<a i18n:name="n">t</a><b i18n:name="n">u</b>',
    '<a tal:case="x">t</a>',
    '<a metal:fill-slot="">t</a>',
    '<a meta:interpolation="maybe">t</a>',
    '<a tal:repeat="econtext (1,)">t</a>',
    '</b>',
]
CONTEXTS = [
    '%s',
    '<div meta:interpolation="false"><p>${a}</p>%s</div>',
    '<div meta:interpolation="false"><span meta:interpolation="true">${a}%s</span></div>',
    '<div i18n:translate="">Hello <b i18n:name="who">w</b>%s</div>',
    '<div i18n:domain="dom" i18n:context="ctx" i18n:target="\'fr\'">%s</div>',
    '<div metal:define-macro="m"><i metal:define-slot="s">d</i>%s</div>',
    '<div metal:use-macro="template.macros[\'q\']"><b metal:fill-slot="s">%s</b></div><div metal:define-macro="q"><i metal:define-slot="s">d</i></div>',
    '<div tal:switch="a"><p tal:case="1">one%s</p></div>',
    '<div tal:on-error="string:E"><p tal:repeat="x (1, 2)" tal:define="y x">%s</p></div>',
    '<!-- ${a} --><![CDATA[ ${a} ]]><div tal:omit-tag="" tal:attributes="class a">%s</div>',
]
PROBES = [
    ('<p title="${a}">${a} $$ ${\'{}\'} <!-- ${a} --><![CDATA[${a}]]></p>', {}),
    ('<p meta:interpolation="false">${a}<b meta:interpolation="true">${a}</b></p>${a}', {}),
    ('<p i18n:translate="">Hi <b i18n:name="n" tal:content="a">x</b>, bye</p><p i18n:domain="d" i18n:translate="id">t</p>', {}),
    ('<div metal:define-macro="m"><i metal:define-slot="s">d</i></div><u metal:use-macro="template.macros[\'m\']"><b metal:fill-slot="s">${a}</b></u>', {}),
    ('<div tal:switch="a"><p tal:case="1">one</p><p tal:case="default">dflt</p></div><i tal:repeat="x (1, 2)" tal:attributes="class x">${repeat.x.number}</i>', {}),
    ('<p tal:on-error="string:E ${error.type.__name__}">${1/0}</p><a tal:define="global g a" tal:omit-tag="">${g}</a>${g}', {}),
    ('<input checked="${a}" value="${a}" tal:attributes="disabled a == 2" /><tal:block content="structure: \'<b>\'" />', {}),
    ('<a title="T" alt="A" i18n:attributes="title; alt alt-id" tal:attributes="d" class="c" id="i">k</a>', {}),
    ('<ul><li tal:repeat="k sorted(d)" tal:attributes="class repeat.k.odd and \'o\' or None">${k}=${d[k]}</li>'
     '<li tal:repeat="(k, v) sorted(d.items())">${k}:${v}</li></ul>'
     '<p tal:define="x a; global y a" tal:omit-tag="a == 2">${x}${y}</p>${y}${exists: x}', {}),
    # a prefix nobody declared
    ('<p t:content="a" class="c">k</p>', {}),
    ('<p t:content="a" class="c">k</p>', {"restricted_namespace": False}),
]


# valid templates compiled with options of their own: what they configure is theirs alone (names of extra builtins that
# other templates use as variables, boolean attribute sets, translation functions, expression types, a default marker)
def _polluters(PageTemplate):
    from functools import partial
    from chameleon.tales import ProxyExpr

    class Site(PageTemplate):
        expression_types = dict(PageTemplate.expression_types, up=partial(ProxyExpr, "__up"))
    up = {"__up": str.upper}
    return [
        lambda: PageTemplate('<p>${a(1)} ${g} ${x}</p>', extra_builtins={"a": str, "g": "G", "x": "X", "fmt": format, "n": 1, "k": 2, "y": 3, "d": 4})(),
        lambda: PageTemplate('<input checked="${a}" title="${a}" />', boolean_attributes={"title", "value", "class"})(a=1),
        lambda: PageTemplate('<p i18n:translate="">t</p>', translate=lambda msgid, **kw: "POLLUTED")(),
        lambda: Site('<p tal:content="up:abc">x</p>', extra_builtins=up)(),
        lambda: PageTemplate('<p tal:content="default">d</p><i tal:attributes="class default" class="c" />', default_marker="MARK")(),
        lambda: PageTemplate('<p>${a}</p>', default_expression="string")(a=1),
        lambda: PageTemplate('<p tal:content="a">x</p>', strict=False, trim_attribute_space=True, enable_data_attributes=True,
                             restricted_namespace=False, implicit_i18n_translate=True, implicit_i18n_attributes={"title", "class"})(a=1),
        lambda: PageTemplate('<a title="x" class="c">${a}</a>', encoding="latin-1", on_error_handler=lambda e: None)(a=b"\xe9"),
        # namespace declarations are the document's own: a top-level (empty) element that makes the template language the
        # default namespace, or binds a prefix of its own to it
        lambda: PageTemplate('<block xmlns="http://xml.zope.org/namespaces/tal" replace="a" />')(a=1),
        lambda: PageTemplate('<t:block xmlns:t="http://xml.zope.org/namespaces/tal" t:replace="a" /><i18n:x xmlns:i18n="urn:other" />')(a=1),
        lambda: PageTemplate('<p xmlns:t="http://xml.zope.org/namespaces/metal" xmlns:tal="urn:mine" tal:content="a"><br xmlns="urn:x"/></p>')(a=1),
    ]


def _tr(msgid, domain=None, mapping=None, context=None, target_language=None, default=None):
    out = "T[%s|%s|%s|%s]" % (msgid, domain, context, target_language)
    for k, v in (mapping or {}).items():
        out += "{%s=%s}" % (k, v)
    return out


def _render_probes(PageTemplate, PageTextTemplate):
    outs = []
    for src, opts in PROBES:
        try:
            outs.append(PageTemplate(src, translate=_tr, **opts)(a=1, d={"id": "I", "lang": "en"}))
        except Exception as e:   # noqa
            outs.append("EXC %s: %s" % (type(e).__name__, str(e).splitlines()[:1]))
    try:
        outs.append(PageTextTemplate("<a> ${a} $$ $${a} &")(a=1))
    except Exception as e:   # noqa
        outs.append("EXC %s" % type(e).__name__)
    return outs


def run(ctx, label):
    """returns the number of executions; reports violations through ctx"""
    if REPO_SRC not in sys.path:
        sys.path.insert(0, REPO_SRC)
    from chameleon import PageTemplate, PageTextTemplate
    from chameleon.exc import TemplateError
    base = _render_probes(PageTemplate, PageTextTemplate)
    n = len(base)
    for c in CONTEXTS:
        rejected = []
        for e in ERRORS:
            src = c % e
            for opts in ({}, {"strict": False}):
                n += 1
                try:
                    PageTemplate(src, **opts)
                    # (non-strict mode defers expression errors; other contexts may legitimately make a case valid)
                except TemplateError:
                    rejected.append(src)
                except Exception:   # noqa
                    rejected.append(src)    # what is raised is C11's subject, not this check's
        after = _render_probes(PageTemplate, PageTextTemplate)
        n += len(after)
        if after != base:
            k = next(i for i in range(len(base)) if after[i] != base[i])
            ctx.violation("%s: after %d templates with a language error inside %r were rejected (e.g. %r), the template %r renders %r; "
                          "before it rendered %r (a compilation failure leaves compiler state behind)" % (
                              label, len(rejected), c, rejected[0] if rejected else None,
                              (PROBES[k][0] if k < len(PROBES) else "(text template)"), after[k], base[k]),
                          dict(kind="isolation", context=c, probe=(PROBES[k][0] if k < len(PROBES) else "text"), got=after[k], want=base[k]))
            return n
    for k, pol in enumerate(_polluters(PageTemplate)):
        n += 1
        try:
            pol()
        except Exception:   # noqa
            pass
        after = _render_probes(PageTemplate, PageTextTemplate)
        n += len(after)
        if after != base:
            j = next(i for i in range(len(base)) if after[i] != base[i])
            ctx.violation("%s: after a template with options of its own (configuration %d of harness/isolation.py) was compiled and "
                          "rendered, the template %r renders %r; before it rendered %r (a template's configuration reaches other templates)" % (
                              label, k + 1, (PROBES[j][0] if j < len(PROBES) else "(text template)"), after[j], base[j]),
                          dict(kind="isolation", polluter=k + 1, probe=(PROBES[j][0] if j < len(PROBES) else "text"), got=after[j], want=base[j]))
            return n
    return n
