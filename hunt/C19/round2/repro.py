"""Reproduction of the C19 findings (second round).

Run: PYTHONPATH=/tmp/wth2_C19/src /venv/bin/python /tmp/wth2_C19/repro.py
"""
import sys

sys.path.insert(0, '/tmp/wth2_C19/src')

from chameleon import PageTemplate  # noqa: E402
from chameleon.exc import ExpressionError  # noqa: E402


def attempt(source, strict, options=None, **kwargs):
    try:
        template = PageTemplate(source, strict=strict, **(options or {}))
    except ExpressionError as exc:
        return 'COMPILE ExpressionError %r %r at %r in %r' % (
            exc.args[0], str(exc.token), exc.location, exc.filename)
    except Exception as exc:
        return 'COMPILE-ERROR %s: %s' % (
            type(exc).__name__, str(exc).split('\n')[0])
    try:
        return 'OK %r' % template.render(**kwargs)
    except ExpressionError as exc:
        return 'RENDER ExpressionError %r %r at %r in %r' % (
            exc.args[0], str(exc.token), exc.location, exc.filename)
    except Exception as exc:
        return 'RENDER %s: %s' % (
            type(exc).__mro__[1].__name__, str(exc).split('\n')[0])


def show(title, source, options=None, **kwargs):
    print(title)
    print('   source    :', repr(source), options or '')
    print('   strict    :', attempt(source, True, options, **kwargs))
    print('   non-strict:', attempt(source, False, options, **kwargs))
    print()


# 1. An empty metal:use-macro / metal:extend-macro expression is ignored:
#    strict compilation succeeds (and nothing is raised in non-strict mode
#    although the statement is reached), while every other statement
#    reports the empty expression ("No input:"), and so does a blank one.
show('1a. metal:use-macro="" (empty expression) is accepted',
     '<div metal:use-macro="">x</div>')
show('1b. metal:extend-macro="" is accepted as well',
     '<div metal:extend-macro="">x</div>')
show('1c. (reference) a blank expression is reported',
     '<div metal:use-macro=" ">x</div>')
show('1d. (reference) tal:content="" is reported',
     '<div tal:content="">x</div>')

# 2. The error for an unregistered default expression type carries the
#    type name (a plain string) as its token: no line/column in either
#    mode, and the file name is '<string>' (or the path) in strict mode
#    but '' in non-strict mode.
show('2. default_expression is not a registered type: location differs',
     '<div>\n<p tal:content="x">x</p></div>',
     {'default_expression': 'nope'}, x=1)

# 4. (borderline) tal:on-error swallows the deferred ExpressionError.
show('4. (borderline) non-strict: the error is consumed by tal:on-error',
     '<p tal:on-error="string:recovered">${1 +}</p>')

# 3. the deferred error stands for the whole text / attribute
#    value / string: expression: it is raised before the expressions that
#    precede the invalid one are evaluated, so it is raised although
#    rendering never gets to the invalid expression.
show('3a. ${missing} would fail first, yet ExpressionError',
     '<p>${missing} ${1 +}</p>')
show('3b. (reference) the same text with a valid second expression',
     '<p>${missing} ${1 + 1}</p>')

# 5. (borderline) a <?python ?> block that does not parse makes the
#    compilation fail in non-strict mode, too, and with a bare SyntaxError
#    (no template location); a code block is not an expression, though.
show('5. (borderline) code block with a syntax error, under a false condition',
     '<p tal:condition="False"><?python x = 1 + ?></p>')
