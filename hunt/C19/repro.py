"""Reproduction of the C19 findings (strict vs. non-strict compilation).

Run as:  PYTHONPATH=/tmp/wth_C19/src /venv/bin/python repro.py
"""
import pathlib

from chameleon import PageTemplate
from chameleon.exc import ExpressionError
from chameleon.exc import TemplateError


def describe(exc):
    names = [c.__name__ for c in type(exc).__mro__]
    if isinstance(exc, TemplateError):
        return "%s(msg=%r, token=%r, pos=%r, location=%r, filename=%r)" % (
            names[0], exc.args[0], str(exc.token), exc.token.pos,
            exc.location, exc.token.filename)
    return "%s(%s)" % (names[0], str(exc).split("\n")[0])


def compile_(src, strict, **kw):
    try:
        return PageTemplate(src, strict=strict, **kw), None
    except Exception as exc:  # noqa
        return None, exc


def render(t, **kw):
    try:
        return "rendered %r" % t.render(**kw)
    except Exception as exc:  # noqa
        return "raised " + describe(exc)


def show(title, src, bindings=({},), expected="", **kw):
    print("=" * 78)
    print(title)
    print("  input   :", repr(src), ("options=%r" % kw) if kw else "")
    for strict in (True, False):
        t, exc = compile_(src, strict, **kw)
        if exc is not None:
            print("  observed: strict=%-5s compile FAILS with %s" % (
                strict, describe(exc)))
            continue
        print("  observed: strict=%-5s compile succeeds" % strict)
        for b in bindings:
            shown = {k: (v if not callable(v) else "<callable>")
                     for k, v in b.items()}
            print("            render(%r) -> %s" % (shown, render(t, **b)))
    print("  expected:", expected)


# ---------------------------------------------------------------------------
# 1. Unknown expression type prefix: LookupError at compile time, both modes
# ---------------------------------------------------------------------------
show(
    "F1  unknown expression-type prefix is not an ExpressionError",
    '<p tal:condition="c" tal:content="foo: bar">x</p>',
    [dict(c=False)],
    expected="strict: ExpressionError with location at compile time; "
             "non-strict: compile succeeds, render(c=False) -> '' and "
             "render(c=True) raises that ExpressionError",
)
show(
    "F1b same inside ${...} interpolation",
    '<p tal:condition="c">${foo: bar}</p>',
    [dict(c=False)],
    expected="as above",
)

# ---------------------------------------------------------------------------
# 2. Expressions that ast-parse but are rejected by CPython's compiler
# ---------------------------------------------------------------------------
for expr in ("f(a=1, a=2)", "lambda x, x: 1", "await x",
             "[x async for x in y]", "'&#xD800;'"):
    show(
        "F2  invalid Python accepted by the AST parser only: %r" % expr,
        '<p tal:condition="c" tal:content="python: %s">x</p>' % expr,
        [dict(c=False)],
        expected="strict: ExpressionError (with the expression's location) "
                 "at compile time; non-strict: compile succeeds and "
                 "render(c=False) -> '' (site not reached)",
    )

# ---------------------------------------------------------------------------
# 3. Invalid expressions in parts of the template that the program builder
#    throws away are never compiled: strict compilation succeeds
# ---------------------------------------------------------------------------
MACRO = '<div metal:define-macro="m">M<i metal:define-slot="s">d</i></div>'
USE = "template.macros['m']"
for title, src in [
    ("child of a use-macro element outside any fill-slot",
     MACRO + '<div metal:use-macro="%s"><b tal:content="1 +">x</b></div>'
     % USE),
    ("TAL statements / attributes on the use-macro element itself",
     MACRO + '<div metal:use-macro="%s" tal:content="1 +" '
             'tal:attributes="class 2 +" title="${3 +}">x</div>' % USE),
    ("attributes of an element with tal:omit-tag=\"\"",
     '<p tal:omit-tag="" class="${1 +}" tal:attributes="id 2 +">x</p>'),
    ("body of a macro that is overridden by a later macro of the same name",
     '<div metal:define-macro="m" tal:content="1 +">a</div>'
     '<div metal:define-macro="m">ok</div>'),
]:
    show(
        "F3  strict mode accepts an invalid expression: " + title,
        src,
        expected="strict compilation fails with ExpressionError for '1 +' "
                 "(the template contains an invalid expression); "
                 "non-strict compiles and never raises (unreachable site)",
    )

# ---------------------------------------------------------------------------
# 4. Non-strict replaces the whole text node / string expression by the
#    raise: an earlier part that fails first is never evaluated
#    (same granularity problem as the known pipe case, different site)
# ---------------------------------------------------------------------------
def boom():
    raise ZeroDivisionError("boom")


show(
    "F4  ${...} parts of one text node: the invalid one is not reached, "
    "still ExpressionError",
    '<p>${boom()} ${1 +}</p>',
    [dict(boom=boom)],
    expected="non-strict: ZeroDivisionError from ${boom()} (evaluated "
             "first; rendering never reaches ${1 +})",
)
show(
    "F4b same for a string: expression",
    '<p tal:content="string:${boom()} ${1 +}">x</p>',
    [dict(boom=boom)],
    expected="non-strict: ZeroDivisionError from ${boom()}",
)

# ---------------------------------------------------------------------------
# 5. import: expressions are never validated
# ---------------------------------------------------------------------------
for expr in ("import: 1 +", "import:"):
    show(
        "F5  syntactically invalid import expression %r passes strict "
        "compilation" % expr,
        '<p tal:condition="c" tal:content="%s">x</p>' % expr,
        [dict(c=False), dict(c=True)],
        expected="strict: ExpressionError at compile time; non-strict: "
                 "ExpressionError (not ModuleNotFoundError/ValueError) when "
                 "reached",
    )

# ---------------------------------------------------------------------------
# 6. The ExpressionError of non-strict mode is swallowed by tal:on-error
# ---------------------------------------------------------------------------
show(
    "F6  reached invalid expression inside tal:on-error does not raise",
    '<div tal:on-error="string:FALLBACK ${error.type.__name__}">'
    '<p tal:content="1 +">x</p></div>',
    expected="non-strict: render raises ExpressionError('invalid syntax', "
             "'1 +') at (1, 75) because the expression is reached",
)

# ---------------------------------------------------------------------------
# 7. Location: file name of the error differs (str vs. Path)
# ---------------------------------------------------------------------------
print("=" * 78)
print("F7  filename part of the error location differs between the modes")
src = '<p tal:content="1 +">x</p>'
fn = pathlib.Path("/tmp/zz.pt")
print("  input   :", repr(src), "filename=%r" % fn)
_, e1 = compile_(src, True, filename=fn)
t, _ = compile_(src, False, filename=fn)
try:
    t.render()
except ExpressionError as exc:
    e2 = exc
print("  observed: strict     ->", describe(e1))
print("  observed: non-strict ->", describe(e2))
print("            filenames equal:", e1.token.filename == e2.token.filename)
print("  expected: the same ExpressionError with the same location "
      "(including the same filename value)")
