"""Reproduces the C12 findings (render errors keep their type and name the
failing expression and position).

Run as:  PYTHONPATH=/tmp/wth_C12/src /venv/bin/python repro.py
"""
import os
import re
import sys
import tempfile

from chameleon import PageTemplate
from chameleon import PageTemplateFile
from chameleon.exc import RenderError


def boom(cls=ZeroDivisionError, *args):
    raise cls(*args)


def records(message):
    """[(expression text, filename, line, col)] from a render error message."""
    out = []
    for part in message.split('\n - Expression: "')[1:]:
        m = re.match(
            r'(.*?)"\n - Filename:   (.*)\n - Location:   '
            r'\(line (\d+): col (\d+)\)', part, re.S)
        out.append((m.group(1), m.group(2), int(m.group(3)), int(m.group(4))))
    return out


def where(source, text):
    idx = source.index(text)
    before = source[:idx]
    return before.count('\n') + 1, idx - (before.rfind('\n') + 1)


def head(title):
    print()
    print("=" * 78)
    print(title)
    print("=" * 78)


def describe(exc):
    return "%s (RenderError: %s) args=%r" % (
        type(exc).__name__, isinstance(exc, RenderError), exc.args)


tmp = tempfile.mkdtemp(prefix="c12_")


def write(name, data, encoding="utf-8"):
    path = os.path.join(tmp, name)
    with open(path, "wb") as f:
        f.write(data.encode(encoding) if isinstance(data, str) else data)
    return path


# ---------------------------------------------------------------------------
head("F1  tal:on-error around an in-place metal:define-macro: KeyError(None)")
for src in (
    "<div tal:on-error='string:recovered'>"
    "<div metal:define-macro='m'>${boom()}</div></div>",
    "<div metal:define-macro='m' tal:on-error='string:recovered'>"
    "${boom()}</div>",
):
    print("input   :", src)
    try:
        out = PageTemplate(src).render(boom=boom)
        print("observed: output %r" % out)
    except Exception as e:
        print("observed:", describe(e), "| str:", repr(str(e)))
    print("expected: the on-error fallback ('recovered'); in any case never an "
          "exception that is not a ZeroDivisionError/RenderError and names "
          "no expression")

# ---------------------------------------------------------------------------
head("F2  exceptions that cannot be cloned: ExceptionGroup passes through "
     "unwrapped; a failing clone replaces the original exception")


def raise_group():
    raise ExceptionGroup("several", [ValueError(1), KeyError("k")])


class Final(Exception):
    def __init_subclass__(cls, **kw):
        raise TypeError("Final cannot be subclassed")


class Immutable(Exception):
    def __setattr__(self, name, value):
        raise AttributeError("immutable")


for label, func, cls in (
    ("ExceptionGroup('several', [ValueError(1), KeyError('k')])",
     raise_group, ExceptionGroup),
    ("Final('m')  (class forbids subclassing)",
     lambda: boom(Final, "m"), Final),
    ("Immutable('m')  (__setattr__ raises)",
     lambda: boom(Immutable, "m"), Immutable),
):
    src = "<p>\n  ${f()}</p>"
    print("input   : %r with f raising %s" % (src, label))
    try:
        PageTemplate(src).render(f=func)
    except Exception as e:
        print("observed: %s | instance of original class: %s | message names "
              "'f()': %s" % (describe(e), isinstance(e, cls),
                             'Expression: "f()"' in str(e)))
    print("expected: instance of %s and of RenderError, message naming "
          "\"f()\" at line 2 col 4" % cls.__name__)

# ---------------------------------------------------------------------------
head("F3  the clone loses the state of built-in exceptions "
     "(OSError.errno/filename, UnicodeError fields, SyntaxError fields, "
     "ImportError.name, StopIteration.value, slots, __cause__)")


class Slotted(Exception):
    __slots__ = ("code",)

    def __init__(self, msg, code):
        super().__init__(msg)
        self.code = code


def chained():
    try:
        1 / 0
    except ZeroDivisionError as z:
        raise ValueError("wrapped") from z


cases = (
    ("FileNotFoundError(2, 'No such file', 'foo.txt')",
     lambda: FileNotFoundError(2, "No such file", "foo.txt"),
     ("errno", "strerror", "filename")),
    ("UnicodeDecodeError('utf-8', b'\\xff', 0, 1, 'bad')",
     lambda: UnicodeDecodeError("utf-8", b"\xff", 0, 1, "bad"),
     ("encoding", "object", "end", "reason")),
    ("SyntaxError('bad', ('f.py', 3, 4, 'text'))",
     lambda: SyntaxError("bad", ("f.py", 3, 4, "text")),
     ("msg", "filename", "lineno", "offset", "text")),
    ("ImportError('no mod', name='foo', path='/x')",
     lambda: ImportError("no mod", name="foo", path="/x"),
     ("name", "path")),
    ("StopIteration(5)", lambda: StopIteration(5), ("value",)),
    ("Slotted('m', 42)  (custom class, extra argument kept in a slot)",
     lambda: Slotted("m", 42), ("code",)),
)
for label, factory, attrs in cases:
    original = factory()

    def f(original=original):
        raise original

    print("input   : '<p>${f()}</p>' with f raising", label)
    try:
        PageTemplate("<p>${f()}</p>").render(f=f)
    except Exception as e:
        got = []
        for a in attrs:
            try:
                got.append("%s=%r" % (a, getattr(e, a)))
            except Exception as e2:
                got.append("%s -> %s" % (a, type(e2).__name__))
        print("observed: %s: %s" % (type(e).__name__, ", ".join(got)))
        print("expected: " + ", ".join(
            "%s=%r" % (a, getattr(original, a)) for a in attrs))
print("input   : '<p>${f()}</p>' with f doing `raise ValueError('wrapped') "
      "from ZeroDivisionError`")
try:
    PageTemplate("<p>${f()}</p>").render(f=chained)
except ValueError as e:
    print("observed: __cause__=%r __suppress_context__=%r" % (
        e.__cause__, e.__suppress_context__))
    print("expected: __cause__=ZeroDivisionError('division by zero') "
          "__suppress_context__=True")

# ---------------------------------------------------------------------------
head("F4  file template in a declared non-UTF-8 encoding: str(error) raises "
     "UnicodeDecodeError")
for name, data, enc in (
    ("latin1.pt",
     '<?xml version="1.0" encoding="latin-1"?>\n<div>caf\xe9\n ${boom()}</div>',
     "latin-1"),
    ("utf16.pt",
     '<?xml version="1.0" encoding="utf-16"?>\n<div>\n ${boom()}</div>',
     "utf-16"),
):
    path = write(name, data, enc)
    print("input   : file %s (%s) containing %r" % (name, enc, data))
    try:
        PageTemplateFile(path).render(boom=boom)
    except Exception as e:
        print("observed: render raised", type(e).__name__,
              "(RenderError: %s)" % isinstance(e, RenderError))
        try:
            print("          str(e) ->", repr(str(e))[:100])
        except Exception as e2:
            print("          str(e) RAISED %s: %s" % (type(e2).__name__, e2))
    print("expected: str(e) names Expression \"boom()\" at line 3 col 3")

# ---------------------------------------------------------------------------
head("F5  ';;' escape in tal:define / tal:attributes: quoted text is cut "
     "short, nested expressions are reported one column too far left")
for src, text in (
    ("<div tal:define=\"a 'x;;y' + boom()\"/>", "'x;;y' + boom()"),
    ("<div tal:attributes=\"title 'x;;y;;z' + boom()\"/>",
     "'x;;y;;z' + boom()"),
    ("<div tal:define=\"a string:x;;y ${boom()}\"/>", "boom()"),
    ("<div tal:attributes=\"title string:x;;y ${boom()}\"/>", "boom()"),
):
    print("input   :", src)
    try:
        PageTemplate(src).render(boom=boom)
    except Exception as e:
        rec = records(str(e))[0]
        print("observed: Expression %r at line %d col %d" % (
            rec[0], rec[2], rec[3]))
    print("expected: Expression %r at line %d col %d" % (
        (text,) + where(src, text)))

# ---------------------------------------------------------------------------
head("F6  tal:repeat with several names: a failing unpacking of a later "
     "item is attributed to the last expression of the loop body")
src = ("<ul>\n <li tal:repeat='(a, b) items'>${a}-${b}\n"
       "   <i tal:content='fine'/></li>\n</ul>")
print("input   : %r with items=[(1, 2), (3,)], fine='ok'" % src)
try:
    PageTemplate(src).render(items=[(1, 2), (3,)], fine="ok")
except Exception as e:
    rec = records(str(e))[0]
    print("observed: %s; Expression %r at line %d col %d" % (
        describe(e), rec[0], rec[2], rec[3]))
print("expected: Expression 'items' at line %d col %d (as for "
      "items=[(3,)], where the first item fails)" % where(src, "items"))
try:
    PageTemplate(src).render(items=[(3,)], fine="ok")
except Exception as e:
    rec = records(str(e))[0]
    print("          first item failing gives: Expression %r at line %d "
          "col %d" % (rec[0], rec[2], rec[3]))

# ---------------------------------------------------------------------------
head("F7  XML-mode template (starts with <?xml) with CR line ends: "
     "line/column count the whole file as one line")
src = '<?xml version="1.0"?>\r<div>\r ${boom()}</div>'
print("input   : %r" % src)
try:
    PageTemplate(src).render(boom=boom)
except Exception as e:
    rec = records(str(e))[0]
    print("observed: Expression %r at line %d col %d" % (
        rec[0], rec[2], rec[3]))
print("expected: Expression 'boom()' at line 3 col 3 (what the same text "
      "gives without the XML declaration, and what CRLF/LF give)")
try:
    PageTemplate('<div>\r<div>\r ${boom()}</div></div>').render(boom=boom)
except Exception as e:
    rec = records(str(e))[0]
    print("          non-XML '<div>\\r<div>\\r ${boom()}...' gives line %d "
          "col %d" % (rec[2], rec[3]))

# ---------------------------------------------------------------------------
head("F8  a template variable holding a very large int: str(error) raises "
     "ValueError")
src = "<p>${n % 7} ${boom()}</p>"
print("input   : %r with n=10**5000" % src)
try:
    PageTemplate(src).render(boom=boom, n=10 ** 5000)
except Exception as e:
    print("observed: render raised", describe(e))
    try:
        print("          str(e) ->", repr(str(e))[:100])
    except Exception as e2:
        print("          str(e) RAISED %s: %s" % (type(e2).__name__, e2))
print("expected: str(e) names Expression \"boom()\" at line 1 col 15")
