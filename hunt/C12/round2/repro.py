"""Reproduces the C12 findings of the second audit round.

Run:  PYTHONPATH=/tmp/wth2_C12/src /venv/bin/python /tmp/wth2_C12/repro.py

Every section prints "BAD ..." while the defect is present and "OK ..." once
it is gone.
"""
import os
import re
import sys
import tempfile

sys.path.insert(0, '/tmp/wth2_C12/src')

from chameleon import PageTemplate  # noqa: E402
from chameleon import PageTemplateFile  # noqa: E402
from chameleon.exc import RenderError  # noqa: E402


class Boom(Exception):
    def __init__(self, message, extra):
        super().__init__(message, extra)
        self.extra = extra


def boom(*args):
    raise Boom('boom', 42)


RECORD = re.compile(
    r' - Expression: "(.*?)"\n - Filename:   ([^\n]*)\n'
    r' - Location:   \(line (\d+): col (\d+)\)', re.S)


def records(exc):
    return [(t, int(l), int(c)) for t, f, l, c in RECORD.findall(str(exc))]


def failure(template, **kw):
    kw.setdefault('boom', boom)
    try:
        template(**kw)
    except BaseException as exc:  # noqa
        return exc
    return None


def at(source, line, col, length):
    lines = source.split('\n')
    return '\n'.join(lines[line - 1:])[col:col + length]


def section(n, title):
    print()
    print('== %d. %s' % (n, title))


tmp = tempfile.mkdtemp()


def write(name, text):
    path = os.path.join(tmp, name)
    with open(path, 'w') as f:
        f.write(text)
    return path


# ---------------------------------------------------------------------------
section(1, "';;' escape in tal:define / tal:attributes: expression text is "
           "cut short, later sub-expressions are shifted")
src = '<div tal:define="x \'a;;b\' + boom()"/>'
exc = failure(PageTemplate(src))
text, line, col = records(exc)[0]
print('   reported %r at (%d, %d)' % (text, line, col))
print('%s whole expression: reported %r, in the template %r' % (
    'OK' if text == "'a;;b' + boom()" else 'BAD', text, "'a;;b' + boom()"))

src = '<div tal:attributes="title string:a;;b ${boom()}"/>'
exc = failure(PageTemplate(src))
text, line, col = records(exc)[0]
print('   reported %r at (%d, %d); the template has %r there' % (
    text, line, col, at(src, line, col, len('boom()'))))
print('%s sub-expression after the escape: reported %r at col %d, '
      'boom() stands at col %d' % (
          'OK' if (text, col) == ('boom()', src.index('boom()')) else 'BAD',
          text, col, src.index('boom()')))

# ---------------------------------------------------------------------------
section(2, "the token of the enclosing expression is not put back after an "
           "embedded ${...}: a failing load: names the inner variable")
path = write('main2.pt', '<html>\n  <div tal:define="t load: ${name}.pt"/>\n'
                         '</html>')
exc = failure(PageTemplateFile(path), name='missing')
text, line, col = records(exc)[0]
print('   %s: %s' % (type(exc).__name__, exc.args))
print('%s failing expression reported as %r (expected %r)' % (
    'OK' if text == 'load: ${name}.pt' else 'BAD', text, 'load: ${name}.pt'))

# ---------------------------------------------------------------------------
section(3, "'\\|' escape in a load: expression shifts the embedded "
           "sub-expressions")
path = write('main3.pt', '<div tal:define="t load: a\\|b\\|${boom()}.pt"/>')
src = open(path).read()
exc = failure(PageTemplateFile(path))
text, line, col = records(exc)[0]
print('%s reported %r at col %d; boom() stands at col %d' % (
    'OK' if (text, col) == ('boom()', src.index('boom()')) else 'BAD',
    text, col, src.index('boom()')))

# ---------------------------------------------------------------------------
section(4, "exception classes that refuse attribute assignment: the copy "
           "fails and its AttributeError replaces the original")


class Immutable(Exception):
    def __init__(self, message, code):
        super().__init__(message)
        object.__setattr__(self, 'code', code)

    def __setattr__(self, name, value):
        raise AttributeError('%s is read-only' % name)


def immutable():
    raise Immutable('no such user', 404)


exc = failure(PageTemplate('<p tal:content="f()"/>'), f=immutable)
good = isinstance(exc, Immutable) and isinstance(exc, RenderError) and \
    exc.args == ('no such user',) and getattr(exc, 'code', None) == 404 \
    and records(exc)[:1] == [('f()', 1, 16)]
print('%s render() raised %s%r' % (
    'OK' if good else 'BAD', type(exc).__name__, exc.args))

# ---------------------------------------------------------------------------
section(5, "a render error that is raised again in a later rendering "
           "(Future.result(), memoized failure) accumulates the call sites "
           "of every rendering it came through")
inner = PageTemplate('<b tal:content="boom()"/>')
stored = failure(inner)


def result():
    raise stored


outer = PageTemplate('<div>\n<p tal:content="structure result()"/></div>')
counts = []
for i in range(3):
    exc = failure(outer, result=result)
    counts.append([t for t, l, c in records(exc)])
print('   records of the 1st/2nd/3rd rendering: %r' % (
    [len(c) for c in counts],))
print('%s third rendering reports %r' % (
    'OK' if counts[2] == ['boom()', 'result()'] else 'BAD', counts[2]))

# ---------------------------------------------------------------------------
section(6, "tal:on-error inside a slot filler: a failure that comes out of "
           "a nested filler before the filler evaluated an expression of its "
           "own raises UnboundLocalError('__token')")
write('b.pt', '<html metal:define-macro="page">\n'
              '<body><div metal:define-slot="body">B</div></body>\n</html>')
write('a.pt', '<html metal:define-macro="page" '
              'metal:extend-macro="load: b.pt">\n'
              '<body metal:fill-slot="body" tal:on-error="string:oops">'
              '<div metal:define-slot="body">A</div>\n'
              '<p tal:content="later"/></body>\n</html>')
path = write('main6.pt',
             '<html tal:define="a load: a.pt" '
             'metal:use-macro="a.macros[\'page\']">\n'
             '<div metal:fill-slot="body" tal:content="boom()">main</div>\n'
             '</html>')
t = PageTemplateFile(path)
try:
    out = t(boom=boom, later='L')
except Exception as exc:
    good = isinstance(exc, Boom)
    print('%s render() raised %s%r' % (
        'OK' if good else 'BAD', type(exc).__name__, exc.args))
else:
    print('OK the on-error fallback was rendered: %r' % out)

# ---------------------------------------------------------------------------
section(7, "(borderline) tal:on-error swallows RecursionError")
t = PageTemplate(
    '<div metal:define-macro="m" tal:on-error="string:ERR"><p>${n}</p>'
    '<div tal:define="n n+1" metal:use-macro="template.macros[\'m\']"/>'
    '</div>')
try:
    out = t(n=0)
except RecursionError:
    print('OK RecursionError passed through')
else:
    print('BAD (borderline) infinite macro recursion rendered %d characters '
          'of output, no RecursionError' % len(out))

# ---------------------------------------------------------------------------
section(8, "(borderline) a subclass hook that raises something other than "
           "TypeError / ValueError replaces the original exception")


class Registered(Exception):
    def __init_subclass__(cls, **kw):
        # e.g. a registry that requires a class attribute
        cls.registry[cls.__dict__['code']] = cls
    registry = {}


def registered():
    raise Registered('original')


exc = failure(PageTemplate('<p tal:content="f()"/>'), f=registered)
print('%s render() raised %s%r' % (
    'OK' if isinstance(exc, Registered) else 'BAD (borderline)',
    type(exc).__name__, exc.args))
