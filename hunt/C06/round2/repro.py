"""Reproduces the C06 findings of the second audit round (see findings.json).

Run:  PYTHONPATH=/tmp/wth2_C06/src /venv/bin/python /tmp/wth2_C06/repro.py
"""
from chameleon import PageTemplate


def render(src, options=None, **kw):
    try:
        return PageTemplate(src, **(options or {}))(**kw)
    except Exception as exc:  # noqa
        return "EXC:%s" % type(exc).__name__


def show(n, title, src, expected, options=None, **kw):
    got = render(src, options, **kw)
    state = "BAD" if got != expected else "OK "
    print("[%s] #%d %s" % (state, n, title))
    print("      source  : %r %r %r" % (src, options or {}, kw))
    print("      observed: %r" % got)
    print("      expected: %r" % expected)


# 1 -- '$$' is collapsed in element text although interpolation is off
show(1, "text under meta:interpolation=false: '$$' collapsed, '$${x}' -> '${x}'",
     '<div meta:interpolation="false">$$(\'a\') $${x} ${y}'
     '<!-- $$ $${x} --><![CDATA[ $$ $${x} ]]></div>',
     '<div>$$(\'a\') $${x} ${y}<!-- $$ $${x} --><![CDATA[ $$ $${x} ]]></div>')

# 2 -- explicit i18n:translate with i18n:name: the rendered message
#      is interpolated a second time by the translation function
show(2, "i18n:translate + i18n:name: '$$' before a named element swallows it",
     '<p i18n:translate="">cost: $$<b i18n:name="n">5</b></p>',
     '<p>cost: $<b>5</b></p>')
show(2, "i18n:translate + i18n:name: value of ${x} is interpolated again",
     '<p i18n:translate="">${x} <b i18n:name="n">5</b></p>',
     '<p>${n} $n <b>5</b></p>', x='${n} $n')
show(2, "i18n:translate + i18n:name: escaped $${n} is replaced",
     '<p i18n:translate="">$${n} <b i18n:name="n">5</b></p>',
     '<p>${n} <b>5</b></p>')

# 3 -- an attribute whose text holds '${' only in escaped / literal form is
#      treated as computed: a boolean attribute is replaced by its name,
#      the on-error fallback tag drops it
show(3, "boolean attribute with escaped '$${x}' becomes selected=\"selected\"",
     '<option selected="$${x}" class="$${x}">a</option>',
     '<option selected="${x}" class="${x}">a</option>')
show(3, "boolean attribute with literal '${}' / unclosed '${'",
     '<input readonly="${}" multiple="a ${ b">',
     '<input readonly="${}" multiple="a ${ b">')
show(3, "on-error fallback drops a static attribute written with $${",
     '<p u="$${x}" t="$$" tal:on-error="string:E">${1/0}</p>',
     '<p u="${x}" t="$">E</p>')

# 4 (borderline) -- a raw '<' inside ${...} in element text
show(4, "(borderline) raw '<' in a text expression: not evaluated, no error",
     "<p>${1 < 2} ${'<'}</p>", '<p>True &lt;</p>')

# 5 (borderline) -- meta:interpolation on a start tag that is never closed
show(5, "(borderline) meta:interpolation on an unclosed <li> has no effect",
     '<ul><li meta:interpolation="false">${a}<li>${1}</ul>',
     '<ul><li>${a}<li>1</ul>')

# 6 (borderline) -- numeric character references with more than 8 digits
show(6, "(borderline) &#000000039; (9 digits) is not decoded in an expression",
     "<p>${len('&#000000065;')} ${len('&#00000065;')}</p>", '<p>1 1</p>')
