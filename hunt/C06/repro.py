"""Reproduction of C06 findings (${...} interpolation delimiting / $$ escape).

Run as:  PYTHONPATH=/tmp/wth_C06/src /venv/bin/python repro.py
"""
from chameleon import PageTemplate

META = 'xmlns:meta="http://xml.zope.org/namespaces/meta"'
N = [0]


def case(title, src, expected, opts=None, **kw):
    try:
        got = PageTemplate(src, **(opts or {})).render(**kw)
    except Exception as exc:  # noqa
        got = "EXCEPTION %s: %s" % (
            type(exc).__name__, str(exc).splitlines()[0][:100])
    status = "ok (no violation)" if got == expected else "VIOLATION"
    print("  input    : %r" % src)
    if opts:
        print("  options  : %r" % opts)
    if kw:
        print("  values   : %r" % kw)
    print("  observed : %r" % got)
    print("  expected : %r" % expected)
    print("  -> %s" % status)
    print()


def head(title):
    N[0] += 1
    print("=" * 72)
    print("F%d. %s" % (N[0], title))
    print("=" * 72)


# ----------------------------------------------------------------------
head("Longest-candidate-first delimiting swallows text up to the LAST '}' "
     "when the long candidate 'validates' (string:, import:, '| string:' "
     "fallback, python '#' comment)")
case("", "<p>${string:foo} ${string:bar}</p>", "<p>foo bar</p>")
case("", "<script>var a = ${string:foo}; function f(){ return 1; }</script>",
     "<script>var a = foo; function f(){ return 1; }</script>")
case("", "<p>${nonexistent | string:fallback} and {} ${b}</p>",
     "<p>fallback and {} 2</p>", b=2)
case("", "<p>${import: os.path} {}</p>",
     "<p>%s {}</p>" % str(__import__('os').path).replace('<', '&lt;')
     .replace('>', '&gt;'))
case("", "<p>${a #} ${b}</p>", "<p>1 2</p>", a=1, b=2)

# ----------------------------------------------------------------------
head("${string:...${x}...} inserts the inner value escaped twice")
case("", "<p>${string:a ${x} b}</p>", "<p>a &lt;&amp;&gt; b</p>", x="<&>")
case("", "<p a='${string:a ${x} b}'/>", "<p a='a &lt;&amp;&gt; b'/>",
     x="<&>")
print("  (reference: tal:content gives the single-escaped value)")
case("", "<p tal:content='string:a ${x} b'/>", "<p>a &lt;&amp;&gt; b</p>",
     x="<&>")

# ----------------------------------------------------------------------
head("With implicit translation the text is rebuilt as a '${name}' msgid and "
     "re-interpolated: $${x}, $x and $$x are replaced, ${_x} is not, "
     "None prints as 'None'")
T = dict(implicit_i18n_translate=True)
case("", "<p>$${x} is ${x}</p>", "<p>${x} is 5</p>", T, x=5)
case("", "<p>cost $x is ${x}</p>", "<p>cost $x is 5</p>", T, x=5)
case("", "<p>cost $$x is ${x}</p>", "<p>cost $x is 5</p>", T, x=5)
case("", "<p>Hello ${_x}!</p>", "<p>Hello 5!</p>", T, _x=5)
case("", "<p>a ${x} b</p>", "<p>a  b</p>", T, x=None)
case("", "<p title='$${x} is ${x}'/>", "<p title='${x} is 5'/>",
     dict(implicit_i18n_attributes=['title']), x=5)
print("  same mechanism defeats meta:interpolation='off' under i18n:translate")
case("",
     '<div %s meta:interpolation="off" i18n:translate="">${a} and '
     '<b i18n:name="a">B</b></div>' % META,
     '<div>${a} and <b>B</b></div>', a=1)

# ----------------------------------------------------------------------
head("Character entities in the expression that are not decoded: &apos;, "
     "&xi;, &#X41;")
case("", "<p a='${d[&apos;k&apos;]}'/>", "<p a='1'/>", d={'k': 1})
case("", "<p>${'&xi;'} ${'&alpha;'}</p>", "<p>ξ α</p>")
case("", "<p>${'&#X41;'}</p>", "<p>A</p>")

# ----------------------------------------------------------------------
head("tal:attributes 'default' emits the raw template text of the attribute: "
     "${...} is not evaluated and $$ is not collapsed")
case("", '<p a="${x} $$" tal:attributes="a default"/>', '<p a="7 $"/>', x=7)
case("", '<p a="$$5" tal:attributes="a default"/>', '<p a="$5"/>')
print("  (reference: without tal:attributes)")
case("", '<p a="${x} $$"/>', '<p a="7 $"/>', x=7)

# ----------------------------------------------------------------------
head("'<!--?' comments: lstrip('<!-?') eats leading '<', '!', '-', '?' of the "
     "comment text")
case("", "<!--?<b>${x}</b>-->", "<!--<b>${x}</b>-->", x=5)
case("", "<!--?-${x}-->", "<!---${x}-->", x=5)
case("", "<!--?--><p>${x}</p>", "<!----><p>5</p>", x=5)

# ----------------------------------------------------------------------
head("XML mode keeps CR: a multi-line ${...} that works with LF is rejected "
     "with CRLF")
case("", '<?xml version="1.0"?>\n<p>${a +\n b}</p>',
     '<?xml version="1.0"?>\n<p>3</p>', a=1, b=2)
case("", '<?xml version="1.0"?>\r\n<p>${a +\r\n b}</p>',
     '<?xml version="1.0"?>\r\n<p>3</p>', a=1, b=2)

# ----------------------------------------------------------------------
head("(minor) a newline inside a string literal of the expression is turned "
     "into a space")
case("", "<pre>${'''a\nb'''}</pre>", "<pre>a\nb</pre>")

# ----------------------------------------------------------------------
head("(minor) interpolation switched off: '$$' is still collapsed in text, "
     "but kept in comments and CDATA")
case("",
     '<div %s meta:interpolation="off">$${x} $$|<!--$${x} $$-->|'
     '<![CDATA[$${x} $$]]></div>' % META,
     '<div>$${x} $$|<!--$${x} $$-->|<![CDATA[$${x} $$]]></div>', x=5)
