"""Reproduces the C14 findings (determinism / no side effects / thread safety).

Run as:  PYTHONPATH=/tmp/wth_C14/src /venv/bin/python repro.py
Every section prints the input, the observed and the expected result.
"""
import inspect
import os
import subprocess
import sys
import tempfile
import textwrap
import threading

import chameleon
from chameleon import PageTemplate
from chameleon import PageTemplateFile
from chameleon import PageTextTemplateFile

print("chameleon imported from", chameleon.__file__)
VIOLATIONS = []


def section(title):
    print()
    print("=" * 78)
    print(title)
    print("=" * 78)


def verdict(name, violated):
    print("-> %s: %s" % (name, "VIOLATION REPRODUCED" if violated else "not reproduced"))
    if violated:
        VIOLATIONS.append(name)


def run_child(code, env_extra, *argv):
    env = dict(os.environ)
    env["PYTHONPATH"] = os.pathsep.join(
        [os.path.dirname(os.path.dirname(chameleon.__file__))]
        + [p for p in env.get("PYTHONPATH", "").split(os.pathsep) if p])
    env.update(env_extra)
    out = subprocess.run([sys.executable, "-c", code] + list(argv), env=env,
                         capture_output=True, text=True)
    if out.returncode:
        print(out.stderr)
    return out.stdout.strip()


# ---------------------------------------------------------------------------
section("F1  'attrs' is one module-level dict per element: state leaks from "
        "one render to the next (and between threads)")
src = ('<p class="a" tal:define="n attrs.setdefault(\'count\', 0); '
       'dummy attrs.update(count=n + 1)">${attrs[\'count\']}</p>')
t = PageTemplate(src)
outs = [t.render() for _ in range(3)]
fresh = PageTemplate(src).render()
print("template :", src)
print("observed : three render() calls on one instance ->", outs)
print("expected : the identical string each time        ->", [fresh] * 3)
verdict("F1 attrs dict shared across renders", len(set(outs)) != 1)

src2 = ('<p tal:define="dummy attrs.setdefault(\'seen\', []).append(who)">'
        '${attrs[\'seen\']}</p>')
t = PageTemplate(src2)
print("template :", src2)
print("observed : render(who='alice') ->", t.render(who='alice'))
print("observed : render(who='bob')   ->", t.render(who='bob'),
      "  (alice's value from the previous render is visible)")
print("expected : <p>['bob']</p>")


# ---------------------------------------------------------------------------
section("F2  i18n:name mapping is built from a set: its order (visible to the "
        "translate function) depends on PYTHONHASHSEED, i.e. on the process")
child = textwrap.dedent('''
    from chameleon import PageTemplate
    def tr(msgid, domain=None, mapping=None, default=None, context=None,
           target_language=None):
        if mapping:
            return ", ".join("%s=%s" % kv for kv in mapping.items())
        return default if default is not None else msgid
    t = PageTemplate('<p i18n:translate=""><b i18n:name="alpha">1</b> '
                     '<b i18n:name="beta">2</b> <b i18n:name="gamma">3</b> '
                     '<b i18n:name="delta">4</b></p>', translate=tr)
    print(t.render())
''')
print('template : <p i18n:translate=""><b i18n:name="alpha">1</b> <b i18n:name="beta">2</b> '
      '<b i18n:name="gamma">3</b> <b i18n:name="delta">4</b></p>')
print("translate: a function that lists mapping.items() in dict order")
outs = []
for seed in ("1", "2", "3", "4"):
    o = run_child(child, {"PYTHONHASHSEED": seed})
    outs.append(o)
    print("observed : PYTHONHASHSEED=%s -> %s" % (seed, o))
print("expected : the same string in every process (document order alpha, beta, gamma, delta)")
verdict("F2 mapping order differs across processes", len(set(outs)) > 1)


# ---------------------------------------------------------------------------
section("F3  compiled-module cache key ignores expression_types / default_marker: "
        "an instance gets the code compiled for a differently configured one")
child = textwrap.dedent('''
    import sys
    from chameleon import PageTemplate
    from chameleon.tales import StringExpr
    body = '<p tal:content="x">d</p>'
    if sys.argv[1] == 'A':
        t = PageTemplate(body)
    else:
        types = dict(PageTemplate.expression_types)
        types['python'] = StringExpr      # default expression type now reads as string:
        t = PageTemplate(body, expression_types=types)
    print(t.render(x='VALUE'))
''')
cache = tempfile.mkdtemp(prefix="chameleon-cache-")
print("template : <p tal:content=\"x\">d</p>")
print("config A : defaults;   config B : expression_types['python'] = StringExpr")
b_alone = run_child(child, {}, "B")
a_cached = run_child(child, {"CHAMELEON_CACHE": cache}, "A")
b_cached = run_child(child, {"CHAMELEON_CACHE": cache}, "B")
print("observed : B, no cache directory                       ->", b_alone)
print("observed : A, CHAMELEON_CACHE=dir (fills the cache)    ->", a_cached)
print("observed : B, same CHAMELEON_CACHE, after A            ->", b_cached)
print("expected : B renders", b_alone, "whatever was compiled before it")
verdict("F3a digest ignores expression_types (cache directory)", b_alone != b_cached)

# Same root cause inside one process, no cache directory: debug=True
d = tempfile.mkdtemp()
fn = os.path.join(d, "t.pt")
with open(fn, "w") as f:
    f.write('<p tal:content="x">d</p>')
from chameleon.tales import StringExpr  # noqa: E402
types = dict(PageTemplateFile.expression_types)
types['python'] = StringExpr
alone = PageTemplateFile(fn, expression_types=types).render(x='VALUE')
a = PageTemplateFile(fn, debug=True).render(x='VALUE')
b = PageTemplateFile(fn, debug=True, expression_types=types).render(x='VALUE')
print("observed : one process, PageTemplateFile(debug=True): A ->", a, "; then B ->", b)
print("expected : B ->", alone)
verdict("F3b same digest -> stale sys.modules entry (debug=True)", b != alone)

# default_marker (a documented option) is missing from the digest as well
moddir = tempfile.mkdtemp()
with open(os.path.join(moddir, "c14markers.py"), "w") as f:
    f.write("from chameleon.utils import ImportableMarker\n"
            "MINE_MARKER = ImportableMarker(__name__, 'MINE')\n")
child = textwrap.dedent('''
    import sys
    sys.path.insert(0, sys.argv[2])
    import c14markers
    from chameleon import PageTemplate
    from chameleon.astutil import Symbol
    body = '<p tal:content="x">static default</p>'
    if sys.argv[1] == 'A':
        t = PageTemplate(body)
    else:
        t = PageTemplate(body, default_marker=Symbol(c14markers.MINE_MARKER))
    print(t.render(x=c14markers.MINE_MARKER))
''')
cache2 = tempfile.mkdtemp(prefix="chameleon-cache-")
b_alone = run_child(child, {}, "B", moddir)
run_child(child, {"CHAMELEON_CACHE": cache2}, "A", moddir)
b_cached = run_child(child, {"CHAMELEON_CACHE": cache2}, "B", moddir)
print("observed : default_marker=custom, value x=custom marker; alone ->", b_alone,
      "; after a default-configured instance filled the cache ->", b_cached)
print("expected :", b_alone)
verdict("F3c digest ignores default_marker", b_alone != b_cached)


# ---------------------------------------------------------------------------
section("F4  two threads re-cooking a reloaded file template: the second 'del' of a "
        "vanished macro raises KeyError out of render()")
from chameleon.template import BaseTemplate  # noqa: E402

d = tempfile.mkdtemp()
fn = os.path.join(d, "page.pt")
v1 = '<html><p metal:define-macro="old">m</p>v1</html>'
v2 = '<html>v2</html>'
with open(fn, "w") as f:
    f.write(v1)
os.utime(fn, (1000, 1000))
t = PageTemplateFile(fn, auto_reload=True)
first = t.render()
with open(fn, "w") as f:
    f.write(v2)
os.utime(fn, (2000, 2000))          # the file changed BEFORE both concurrent calls

cook_code = BaseTemplate.cook.__code__
lines, start = inspect.getsourcelines(BaseTemplate.cook)
del_line = start + [i for i, l in enumerate(lines) if "del self.__dict__[name]" in l][0]
b_at_del = threading.Event()
a_done = threading.Event()
results = {}


def local_trace(frame, event, arg):
    # Thread B yields to thread A just before executing the ``del`` statement.
    if event == "line" and frame.f_lineno == del_line and not b_at_del.is_set():
        b_at_del.set()
        a_done.wait(30)
    return local_trace


def global_trace(frame, event, arg):
    return local_trace if frame.f_code is cook_code else None


def thread_b():
    sys.settrace(global_trace)
    try:
        results["B"] = t.render()
    except BaseException as e:
        results["B"] = "raised %r" % (e,)
    finally:
        sys.settrace(None)


def thread_a():
    b_at_del.wait(30)
    try:
        results["A"] = t.render()
    except BaseException as e:
        results["A"] = "raised %r" % (e,)
    finally:
        a_done.set()


tb = threading.Thread(target=thread_b)
ta = threading.Thread(target=thread_a)
tb.start(), ta.start()
tb.join(), ta.join()
print("file v1  :", v1, " (rendered once ->", first, ")")
print("file v2  :", v2, " (written before the two concurrent render() calls; auto_reload=True)")
print("schedule : B reaches 'del self.__dict__[name]' in cook(); A runs render() to the end; B resumes")
print("observed : thread A ->", results["A"])
print("observed : thread B ->", results["B"])
print("expected : both threads ->", v2)
verdict("F4 concurrent re-cook raises KeyError", results["B"] != v2 or results["A"] != v2)

# the same without a forced schedule (randomised preemption)
old_interval = sys.getswitchinterval()
sys.setswitchinterval(1e-6)
N = 100
v1 = "<html>" + "".join('<p metal:define-macro="m%d">x</p>' % i for i in range(N)) + "v1</html>"
hit = None
for attempt in range(300):
    with open(fn, "w") as f:
        f.write(v1)
    os.utime(fn, (3000 + 2 * attempt, 3000 + 2 * attempt))
    t = PageTemplateFile(fn, auto_reload=True)
    t.render()
    with open(fn, "w") as f:
        f.write(v2)
    os.utime(fn, (3001 + 2 * attempt, 3001 + 2 * attempt))
    barrier = threading.Barrier(2)
    res = [None, None]

    def run(i):
        barrier.wait()
        try:
            res[i] = t.render()
        except BaseException as e:
            res[i] = "raised %r" % (e,)
    ths = [threading.Thread(target=run, args=(i,)) for i in range(2)]
    [x.start() for x in ths]
    [x.join() for x in ths]
    if res != [v2, v2]:
        hit = (attempt, res)
        break
sys.setswitchinterval(old_interval)
print("random   : %d vanished macros, switch interval 1e-6, free-running threads ->" % N,
      ("attempt %d: %r" % hit) if hit else "no failure in 300 attempts (timing dependent)")


# ---------------------------------------------------------------------------
section("F5  shared TemplateLoader: the registry key ignores the bound template class")
from chameleon.loader import TemplateLoader  # noqa: E402

d = tempfile.mkdtemp()
with open(os.path.join(d, "a.txt"), "w") as f:
    f.write("<b>${x}</b>")
alone = TemplateLoader(search_path=[d]).bind(PageTextTemplateFile)("a.txt")
alone_out = alone.render(x="<1>")
shared = TemplateLoader(search_path=[d])
load_xml = shared.bind(PageTemplateFile)
load_txt = shared.bind(PageTextTemplateFile)
first = load_xml("a.txt").render(x="<1>")
second_t = load_txt("a.txt")
second = second_t.render(x="<1>")
print("file a.txt: <b>${x}</b>   value x='<1>'")
print("observed : text loader alone               -> %r (%s)" % (alone_out, type(alone).__name__))
print("observed : shared loader, xml load first   -> %r" % (first,))
print("observed : shared loader, then text load   -> %r (%s)" % (second, type(second_t).__name__))
print("expected : the text load returns %r whatever was loaded before" % (alone_out,))
verdict("F5 loader returns template of the wrong class", second != alone_out)


# ---------------------------------------------------------------------------
section("F6  a caller-supplied 'repeat' object keeps the repeat items of the previous render")
from chameleon.tal import RepeatDict  # noqa: E402

src = ("<ul>[${repeat['i'].number | 'no repeat item yet'}]"
       "<li tal:repeat='i items' tal:replace='i'/></ul>")
t = PageTemplate(src)
store = {}
args = dict(items=[1, 2, 3], repeat=RepeatDict(store))
o1 = t.render(**args)
keys_after = sorted(store)
o2 = t.render(**args)
print("template :", src)
print("arguments: items=[1, 2, 3], repeat=RepeatDict(store) with store = {} (the same objects twice)")
print("observed : 1st render ->", o1)
print("observed : caller's store afterwards has keys", keys_after)
print("observed : 2nd render ->", o2)
print("expected : store unchanged ({}), and the 2nd render identical to the 1st")
verdict("F6 repeat entries survive the render in the caller's object", o1 != o2 or bool(keys_after))


# ---------------------------------------------------------------------------
print()
print("Reproduced %d violation checks:" % len(VIOLATIONS))
for v in VIOLATIONS:
    print("  *", v)
