"""C14 second round: reproductions.

Run:  PYTHONPATH=/tmp/wth2_C14/src /venv/bin/python /tmp/wth2_C14/repro.py
Each section prints BAD while the defect is present, OK otherwise.
"""
import os
import sys
import tempfile
import threading

os.environ.setdefault("MALTHE_CHAMELEON_VERIF", "1")   # before the import

from chameleon import PageTemplate  # noqa: E402
from chameleon.zpt.template import PageTemplateFile  # noqa: E402


def put(fn, text, t):
    with open(fn, "w") as f:
        f.write(text)
    os.utime(fn, (t, t))


# ---------------------------------------------------------------------------
# 1. A reload that overlaps another reload publishes the older version last:
#    the template keeps rendering the stale version although the file (and
#    the remembered modification time) are newer.
# ---------------------------------------------------------------------------
def finding_1():
    d = tempfile.mkdtemp()
    fn = os.path.join(d, "t.pt")
    reached = threading.Event()
    hold = threading.Event()

    class T(PageTemplateFile):
        def read(self):
            body = super().read()
            if threading.current_thread().name == "T1" \
               and not reached.is_set():
                # T1 is preempted between reading the file and cooking
                reached.set()
                hold.wait(10)
            return body

    put(fn, "<p>v1</p>", 1000)
    t = T(fn, auto_reload=True)
    assert t.render() == "<p>v1</p>"
    put(fn, "<p>v2!</p>", 2000)

    res = {}

    def w(name):
        res[name] = t.render()

    t1 = threading.Thread(target=w, args=("T1",), name="T1")
    t1.start()
    reached.wait(10)
    put(fn, "<p>v3!!</p>", 3000)   # changes again while T1 is reloading
    t2 = threading.Thread(target=w, args=("T2",), name="T2")
    t2.start()
    t2.join(1)        # (a serialising fix makes T2 wait for T1)
    hold.set()
    t1.join()
    t2.join()
    later = t.render()     # nobody else is running any more
    fresh = PageTemplateFile(fn, auto_reload=True).render()
    print("  T1=%r T2=%r later=%r fresh instance=%r" % (
        res["T1"], res["T2"], later, fresh))
    print("1:", "BAD" if later != fresh or res["T2"] != fresh else "OK")


def finding_1b():
    # the same race, other timing: T2 (which read and cooked v3) is
    # preempted between cook_check() and the fetch of self._render
    d = tempfile.mkdtemp()
    fn = os.path.join(d, "t.pt")
    reached, hold = threading.Event(), threading.Event()
    t2_checked, t2_go = threading.Event(), threading.Event()

    class T(PageTemplateFile):
        def read(self):
            body = super().read()
            if threading.current_thread().name == "T1" \
               and not reached.is_set():
                reached.set()
                hold.wait(10)
            return body

        def output_stream_factory(self):
            # called by render() right after cook_check()
            if threading.current_thread().name == "T2":
                t2_checked.set()
                t2_go.wait(10)
            return []

    put(fn, "<p>v1</p>", 1000)
    t = T(fn, auto_reload=True)
    t.render()
    put(fn, "<p>v2!</p>", 2000)
    res = {}

    def w(name):
        res[name] = t.render()

    t1 = threading.Thread(target=w, args=("T1",), name="T1")
    t1.start()
    reached.wait(10)
    put(fn, "<p>v3!!</p>", 3000)
    t2 = threading.Thread(target=w, args=("T2",), name="T2")
    t2.start()
    t2_checked.wait(1)    # T2 has cooked v3 (unless it has to wait for T1)
    hold.set()
    t1.join()             # T1 publishes v2
    t2_go.set()
    t2.join()
    fresh = PageTemplateFile(fn, auto_reload=True).render()
    print("  T1=%r T2=%r fresh instance=%r" % (res["T1"], res["T2"], fresh))
    print("1b:", "BAD" if res["T2"] != fresh else "OK")


# ---------------------------------------------------------------------------
# 2. macros.names is read off the live instance dictionary
#    a) order: a re-cooked instance lists the macros in another order than a
#       newly compiled instance of the same source
#    b) thread: with keep_body the dictionary grows after the template is
#       flagged as cooked; a concurrent macros.names raises RuntimeError
# ---------------------------------------------------------------------------
def finding_2a():
    names = '${", ".join(macros.names)}'
    v1 = ('<div><p metal:define-macro="a">A</p>'
          '<p metal:define-macro="b">B</p>' + names + '</div>')
    v2 = ('<div><p metal:define-macro="b">B</p>'
          '<p metal:define-macro="a">A</p>' + names + '</div>')
    t = PageTemplate(v1)
    t.render()
    t.write(v2)                 # (a file template that reloads does the same)
    recooked = t.render()
    fresh = PageTemplate(v2).render()
    print("  recooked=%r\n  fresh   =%r" % (recooked, fresh))
    print("2a:", "BAD" if recooked != fresh else "OK")


def finding_2b():
    from chameleon import _verif
    if not _verif.ENABLED:
        print("2b: skipped (run with MALTHE_CHAMELEON_VERIF=1)")
        return
    d = tempfile.mkdtemp()
    fn = os.path.join(d, "t.pt")
    with open(fn, "w") as f:
        f.write('<div><p metal:define-macro="a">A</p>'
                '<p metal:define-macro="b">B</p>'
                '${", ".join(macros.names)}</div>')
    solo = PageTemplateFile(fn, keep_body=True).render()
    t = PageTemplateFile(fn, keep_body=True)
    hold = threading.Event()
    reached = threading.Event()

    def cb(label, info):
        # T1 is preempted after ``_cooked = True``, before ``self.body = ...``
        if label == "cook.flagged" and \
           threading.current_thread().name == "T1":
            reached.set()
            hold.wait(10)

    _verif.set_callback(cb)
    res = {}

    def w(name):
        try:
            res[name] = t.render()
        except Exception as e:
            res[name] = "EXC %s: %s" % (
                type(e).__name__, str(e).splitlines()[0])

    t1 = threading.Thread(target=w, args=("T1",), name="T1")
    t1.start()
    reached.wait(10)

    def tracer(frame, event, arg):
        # T2 is preempted inside the loop of Macros.names; T1 runs on
        # (the loop variable is bound: an iteration is in progress)
        if frame.f_code.co_name == 'names' and event == 'line' \
           and not hold.is_set() and 'name' in frame.f_locals:
            hold.set()
            t1.join()
        return tracer

    def w2():
        sys.settrace(tracer)
        w("T2")

    t2 = threading.Thread(target=w2, name="T2")
    t2.start()
    t2.join()
    hold.set()
    t1.join()
    _verif.set_callback(None)
    print("  solo=%r\n  T2  =%r" % (solo, res["T2"]))
    print("2b:", "BAD" if res["T2"] != solo else "OK")


if __name__ == "__main__":
    finding_1()
    finding_1b()
    finding_2a()
    finding_2b()
