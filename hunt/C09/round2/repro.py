"""Reproduces the C09 findings of the second audit round (see findings.json).

Run:  PYTHONPATH=/tmp/wth2_C09/src /venv/bin/python repro.py
Each case prints the output of the macro version, of the hand-inlined
version (the property's reference) and DIFF/same.
"""
from chameleon import PageTemplate


def render(src, _opts=None, **kw):
    try:
        return PageTemplate(src, **(_opts or {}))(**kw)
    except Exception as e:  # noqa
        return 'EXC:%s: %s' % (type(e).__name__, str(e).split('\n')[0][:120])


def case(n, title, src, inline, **kw):
    a = render(src, **kw)
    b = inline if kw.pop('_literal', False) else render(inline, **kw)
    print('--- %s %s' % (n, title))
    print('  macro : %r' % a)
    print('  inline: %r' % b)
    print('  %s' % ('DIFF (defect present)' if a != b else 'same'))


# 1. filler of a use-macro that sits inside an i18n:translate / i18n:name
#    element writes to the caller's translation stream, not to the stream
#    of the slot (macro slot inside its own i18n:translate).
lib1 = PageTemplate(
    '<p metal:define-macro="m" i18n:translate="">A '
    '<span metal:define-slot="s">dflt</span> B</p>')
case(1, 'filler under a translation writes to the wrong stream',
     '<p i18n:translate="">X <div metal:use-macro="lib[\'m\']">'
     '<b metal:fill-slot="s">FILL</b></div> Y</p>',
     '<p i18n:translate="">X <p i18n:translate="">A <b>FILL</b> B</p> Y</p>',
     lib=lib1)
case('1b', 'same, use-macro inside i18n:name, on-error in the filler',
     '<p i18n:translate="">X <i i18n:name="c"><div metal:use-macro="lib[\'m\']">'
     '<b metal:fill-slot="s" tal:on-error="string:E">F${1/0}</b></div></i> Y</p>',
     '<p i18n:translate="">X <i i18n:name="c"><p i18n:translate="">A '
     '<b tal:on-error="string:E">F${1/0}</b> B</p></i> Y</p>',
     lib=lib1)

# 2. global definitions of a macro (or of a slot filler) are lost for the
#    caller when the macro fails afterwards and a tal:on-error recovers.
lib2 = PageTemplate(
    '<m metal:define-macro="m" tal:define="global g 7">${1/0}</m>')
case(2, 'global definition of a macro that fails under on-error',
     '<div><div tal:on-error="string:ERR"><x metal:use-macro="lib[\'m\']"/>'
     '</div>[${g}]</div>',
     '<div><div tal:on-error="string:ERR"><m tal:define="global g 7">${1/0}</m>'
     '</div>[${g}]</div>', lib=lib2)
lib2b = PageTemplate(
    '<m metal:define-macro="m"><t tal:on-error="string:ERR">'
    '<s metal:define-slot="s"/></t>[${g}]</m>')
case('2b', 'global definition of a filler that fails under the macro\'s on-error',
     '<x metal:use-macro="lib[\'m\']"><s metal:fill-slot="s" '
     'tal:define="global g 7">${1/0}</s></x>',
     '<m><t tal:on-error="string:ERR"><s tal:define="global g 7">${1/0}</s></t>'
     '[${g}]</m>', lib=lib2b)

# 3. extend-macro leaves its own filler behind in the caller's scope when
#    the caller's filler took precedence; a later use of the extending
#    macro renders that stale filler, whose nested define-slot is still
#    bound to the filler of the FIRST use.
base = PageTemplate(
    '<a metal:define-macro="base">[<s metal:define-slot="s">base-d</s>]</a>')
mid = PageTemplate(
    '<a metal:define-macro="mid" metal:extend-macro="base[\'base\']">'
    '<s metal:fill-slot="s">mid(<t metal:define-slot="t">mid-t</t>)</s></a>')
case(3, 'second use of an extending macro shows a filler of the first use',
     '<r><x metal:use-macro="mid[\'mid\']"><s metal:fill-slot="s">F</s>'
     '<t metal:fill-slot="t">T1</t></x>|<x metal:use-macro="mid[\'mid\']"/></r>',
     '<r><a>[<s>F</s>]</a>|<a>[<s>mid(<t>mid-t</t>)</s>]</a></r>',
     _literal=True, base=base, mid=mid)

# 4. a macro's global definition that binds the SAME object as the global
#    already has does not override a local of the caller (identity test
#    in the publishing step).
case(4, 'global re-defined to the identical object does not reach the caller',
     '<div><m metal:define-macro="m" tal:define="global x 1"/>'
     '<div tal:define="x 2"><m metal:use-macro="macros[\'m\']"/>[${x}]</div></div>',
     '<div><m tal:define="global x 1"/>'
     '<div tal:define="x 2"><m tal:define="global x 1"/>[${x}]</div></div>')

# ---- borderline ---------------------------------------------------------
mid5 = PageTemplate(
    '<a metal:define-macro="mid" metal:extend-macro="base[\'base\']">'
    '<s metal:fill-slot="s">mid-s</s></a>')
case(5, '[borderline] caller fills a slot the extending macro filled without re-offering it',
     '<x metal:use-macro="mid[\'mid\']"><s metal:fill-slot="s">caller-s</s></x>',
     '<a>[<s>mid-s</s>]</a>', _literal=True, base=base, mid=mid5)
case(6, '[borderline] two define-macro of one name: the first element renders the second body',
     '<div><p metal:define-macro="m">first</p><p metal:define-macro="m">second</p></div>',
     '<div><p>first</p><p>second</p></div>')
case(7, '[borderline] macro name with a character outside [A-Za-z0-9_-] cannot be used',
     '<r><m metal:define-macro="a.b">M</m>|<x metal:use-macro="macros[\'a.b\']"/></r>',
     '<r><m>M</m>|<m>M</m></r>')


def tr(msgid, domain=None, mapping=None, default=None, context=None,
       target_language=None):
    return 'T[%s|%s]' % (msgid, sorted((mapping or {}).items()))


lib8 = PageTemplate(
    '<p metal:define-macro="m" i18n:translate="">Hi '
    '<s metal:define-slot="s">d</s></p>')
case(8, '[borderline] i18n:name on the fill-slot element is dropped',
     '<x metal:use-macro="lib[\'m\']"><b metal:fill-slot="s" i18n:name="who">W</b></x>',
     '<p i18n:translate="">Hi <b i18n:name="who">W</b></p>',
     lib=lib8, translate=tr)
case(9, '[borderline, probably part of the recorded tal:case finding] '
     'tal:case on a define-macro element, switch on the parent',
     '<div tal:switch="1"><p tal:case="1" metal:define-macro="m">x</p></div>',
     '<div tal:switch="1"><p tal:case="1">x</p></div>')
