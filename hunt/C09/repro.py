"""Reproductions for the C09 audit (METAL: use-macro == inlining).

Run as:  PYTHONPATH=/tmp/wth_C09/src /venv/bin/python repro.py

For every finding the script prints the input, what the library renders
("observed") and what the property demands ("expected").  Where possible
the expected text is computed by rendering the hand-inlined template with
the same library, so the comparison is apples to apples.
"""
import os
import re
import tempfile

from chameleon import PageTemplate
from chameleon import PageTemplateFile


def render(src, **kw):
    try:
        return PageTemplate(src).render(**kw)
    except Exception as e:  # noqa
        msg = str(e).splitlines()[0] if str(e) else ''
        return "EXCEPTION %s: %s" % (type(e).__name__, msg)


def render_files(files, main, **kw):
    td = tempfile.mkdtemp()
    for name, src in files.items():
        with open(os.path.join(td, name), 'w') as f:
            f.write(src)
    try:
        return PageTemplateFile(os.path.join(td, main)).render(**kw)
    except Exception as e:  # noqa
        msg = str(e).splitlines()[0] if str(e) else ''
        return "EXCEPTION %s: %s" % (type(e).__name__, msg)


def squeeze(s):
    return re.sub(r'\s+', ' ', s).strip()


RESULTS = []


def show(n, title, inp, observed, expected):
    bad = squeeze(observed) != squeeze(expected)
    RESULTS.append((n, title, bad))
    print("=" * 78)
    print("Finding %s: %s" % (n, title))
    print("-" * 78)
    print("input:")
    print(inp)
    print("observed: ", squeeze(observed))
    print("expected: ", squeeze(expected))
    print("VIOLATION REPRODUCED" if bad else "not reproduced")


HIDE = '<tal:hide condition="False">%s</tal:hide>'

# ---------------------------------------------------------------------------
# 1. econtext.update(rcontext) after a macro call clobbers caller locals
# ---------------------------------------------------------------------------
src = ('<r><tal:g define="global x \'G\'"/>'
       + HIDE % '<m metal:define-macro="m">M</m>' +
       '<div tal:define="x \'L\'">[${x}]'
       '<u metal:use-macro="template.macros[\'m\']"/>[${x}]</div>'
       '<p tal:repeat="x \'ab\'">'
       '<u metal:use-macro="template.macros[\'m\']"/>${x}</p></r>')
inl = ('<r><tal:g define="global x \'G\'"/>'
       '<div tal:define="x \'L\'">[${x}]<m>M</m>[${x}]</div>'
       '<p tal:repeat="x \'ab\'"><m>M</m>${x}</p></r>')
show('1a', "use-macro resets the caller's local / loop variables to the value "
     "of an unrelated, earlier global of the same name",
     src, render(src), render(inl))

# same thing observed *inside* the region rendered by a use-macro (in a filler)
src = ('<r><tal:g define="global x \'G\'"/>'
       + HIDE % ('<m metal:define-macro="m">M[<s metal:define-slot="s">d</s>]</m>'
                 '<n metal:define-macro="n">N</n>') +
       '<u metal:use-macro="template.macros[\'m\']">'
       '<f metal:fill-slot="s" tal:define="x \'L\'">'
       '<v metal:use-macro="template.macros[\'n\']"/>${x}</f></u></r>')
inl = ('<r><tal:g define="global x \'G\'"/>'
       '<m>M[<f tal:define="x \'L\'"><n>N</n>${x}</f>]</m></r>')
show('1b', "same, inside a filler (nested use)", src, render(src), render(inl))

# ---------------------------------------------------------------------------
# 2. a filler is consumed by the first *function* that defines the slot name
# ---------------------------------------------------------------------------
src = ('<r>' + HIDE % (
    '<a metal:define-macro="a">A[<s metal:define-slot="s">da</s>'
    '<b metal:define-macro="b">B[<s metal:define-slot="s">db</s>]</b>]</a>') +
    '<u metal:use-macro="template.macros[\'a\']">'
    '<f metal:fill-slot="s">F</f></u></r>')
inl = '<r><a>A[<f>F</f><b>B[<f>F</f>]</b>]</a></r>'
show('2a', "same-named slot inside a nested define-macro is not filled",
     src, render(src), render(inl))

lib = ('<lib><a metal:define-macro="a">A[<s metal:define-slot="s">da</s>]</a>'
       '<b metal:define-macro="b">B[<s metal:define-slot="s">db</s>]</b></lib>')
main = '<u metal:use-macro="load: lib.pt"><f metal:fill-slot="s">F</f></u>'
show('2b', "whole template used as macro: only the first macro's slot 's' "
     "is filled",
     "lib.pt:  " + lib + "\nmain.pt: " + main,
     render_files({'lib.pt': lib, 'main.pt': main}, 'main.pt'),
     '<lib><a>A[<f>F</f>]</a><b>B[<f>F</f>]</b></lib>')

# ---------------------------------------------------------------------------
# 3. definitions made by a filler never reach the rest of the macro
# ---------------------------------------------------------------------------
src = ('<r>' + HIDE % (
    '<m metal:define-macro="m"><s metal:define-slot="s">d</s>'
    '[${g | \'unset\'}]</m>') +
    '<u metal:use-macro="template.macros[\'m\']">'
    '<f metal:fill-slot="s" tal:define="global g \'G\'">F</f></u></r>')
inl = ('<r><m><f tal:define="global g \'G\'">F</f>[${g | \'unset\'}]</m></r>')
show('3', "a global defined in a filler is not visible in the macro body "
     "that follows the slot", src, render(src), render(inl))

# ---------------------------------------------------------------------------
# 4. filler output goes to the wrong stream when the slot is inside i18n
# ---------------------------------------------------------------------------
src = ('<r>' + HIDE % (
    '<m metal:define-macro="m"><p i18n:translate="">Hi '
    '<span i18n:name="n"><s metal:define-slot="s">d</s></span>!</p></m>') +
    '<u metal:use-macro="template.macros[\'m\']">'
    '<f metal:fill-slot="s">F</f></u></r>')
inl = ('<r><m><p i18n:translate="">Hi <span i18n:name="n"><f>F</f></span>!'
       '</p></m></r>')
show('4a', "slot inside i18n:name of the macro: filler is emitted at the "
     "wrong place, the named block stays empty",
     src, render(src), render(inl))
src = ('<r>' + HIDE % (
    '<m metal:define-macro="m"><p i18n:translate="">Hi '
    '<s metal:define-slot="s">d</s>!</p></m>') +
    '<u metal:use-macro="template.macros[\'m\']">'
    '<f metal:fill-slot="s">F</f></u></r>')
inl = '<r><m><p i18n:translate="">Hi <f>F</f>!</p></m></r>'
show('4b', "slot inside i18n:translate of the macro", src,
     render(src), render(inl))

# ---------------------------------------------------------------------------
# 5. tal:switch / tal:case across the filler (or nested macro) boundary
# ---------------------------------------------------------------------------
M = HIDE % '<m metal:define-macro="m">M[<s metal:define-slot="s">d</s>]</m>'
src = ('<r>' + M + '<div tal:switch="1">'
       '<u metal:use-macro="template.macros[\'m\']">'
       '<f metal:fill-slot="s"><i tal:case="1">one</i><i tal:case="2">two</i>'
       '</f></u></div></r>')
inl = ('<r><div tal:switch="1"><m>M[<f><i tal:case="1">one</i>'
       '<i tal:case="2">two</i></f>]</m></div></r>')
show('5a', "tal:case inside a filler whose tal:switch is outside the "
     "use-macro", src, render(src), render(inl))
src = ('<r>' + HIDE % (
    '<m metal:define-macro="M" tal:switch="1">M['
    '<n metal:define-macro="N"><i tal:case="1">one</i></n>]</m>') +
    '<u metal:use-macro="template.macros[\'M\']"/></r>')
inl = '<r><m tal:switch="1">M[<n><i tal:case="1">one</i></n>]</m></r>'
show('5b', "tal:switch in a macro, tal:case inside a nested define-macro",
     src, render(src), render(inl))
src = ('<r><div tal:switch="1"><n metal:define-macro="N" tal:case="1">one</n>'
       '</div></r>')
inl = '<r><div tal:switch="1"><n tal:case="1">one</n></div></r>'
show('5c', "define-macro on a tal:case element: template does not compile",
     src, render(src), render(inl))

# ---------------------------------------------------------------------------
# 6. i18n:name inside a filler, i18n:translate around the use-macro
# ---------------------------------------------------------------------------
src = ('<r>' + M + '<p i18n:translate="">Hi '
       '<u metal:use-macro="template.macros[\'m\']">'
       '<f metal:fill-slot="s"><b i18n:name="n">F</b></f></u>!</p></r>')
inl = ('<r><p i18n:translate="">Hi <m>M[<f><b i18n:name="n">F</b></f>]</m>!'
       '</p></r>')
show('6', "i18n:name block inside a filler is lost", src,
     render(src), render(inl))

# ---------------------------------------------------------------------------
# 7. name mangling: 'a-b' and 'a_b' are the same macro / the same slot
# ---------------------------------------------------------------------------
src = ('<r>' + HIDE % ('<m metal:define-macro="a-b">dash</m>'
                       '<m metal:define-macro="a_b">underscore</m>') +
       '<u metal:use-macro="template.macros[\'a-b\']"/>|'
       '<u metal:use-macro="template.macros[\'a_b\']"/></r>')
show('7a', "macros 'a-b' and 'a_b' collide (the later definition wins)",
     src, render(src), '<r><m>dash</m>|<m>underscore</m></r>')
src = ('<r>' + HIDE % (
    '<m metal:define-macro="m">[<s metal:define-slot="a-b">d</s>]</m>') +
    '<u metal:use-macro="template.macros[\'m\']">'
    '<f metal:fill-slot="a_b">F</f></u></r>')
show('7b', "fill-slot 'a_b' fills the slot 'a-b' (it names no slot and "
     "should be discarded)", src, render(src), '<r><m>[<s>d</s>]</m></r>')

# ---------------------------------------------------------------------------
# 8. extend-macro is never popped from the parser's use-macro stack
# ---------------------------------------------------------------------------
lib = ('<lib><a metal:define-macro="A">A[<s metal:define-slot="s">dAs</s>|'
       '<t metal:define-slot="t">dAt</t>]</a>'
       '<q metal:define-macro="Q">Q[<s metal:define-slot="q">dQq</s>|'
       '<t metal:define-slot="t">dQt</t>]</q></lib>')
main = ('<tal:x define="lib load: lib.pt">'
        '<x metal:use-macro="lib[\'A\']">'
        '<f metal:fill-slot="s">Ps '
        '<d metal:define-macro="D" metal:extend-macro="lib[\'Q\']">'
        '<g metal:fill-slot="q">Dq</g></d></f>'
        '<h metal:fill-slot="t">Pt</h></x></tal:x>')
show('8', "a fill-slot that follows a nested extend-macro element is given "
     "to the extend-macro instead of its own use-macro",
     "lib.pt:  " + lib + "\nmain.pt: " + main,
     render_files({'lib.pt': lib, 'main.pt': main}, 'main.pt'),
     '<a>A[<f>Ps <q>Q[<g>Dq</g>|<t>dQt</t>]</q></f>|<h>Pt</h>]</a>')

# ---------------------------------------------------------------------------
# 9. tal:on-error around a macro rendered in place -> KeyError(None)
# ---------------------------------------------------------------------------
src = ('<r><div tal:on-error="string:oops">'
       '<m metal:define-macro="m">${nope}</m></div></r>')
inl = '<r><div tal:on-error="string:oops"><m>${nope}</m></div></r>'
show('9a', "on-error around a defining element rendered in place", src,
     render(src), render(inl))
src = ('<r>' + HIDE % (
    '<m metal:define-macro="M"><div tal:on-error="string:oops">x'
    '<n metal:define-macro="N">${nope}</n></div></m>') +
    '<u metal:use-macro="template.macros[\'M\']"/></r>')
inl = '<r><m><div tal:on-error="string:oops">x<n>${nope}</n></div></m></r>'
show('9b', "same, reached through use-macro", src, render(src), render(inl))

# ---------------------------------------------------------------------------
# 10. tal:on-error on the define-macro / fill-slot element is dropped
# ---------------------------------------------------------------------------
lib = '<lib><m metal:define-macro="m" tal:on-error="string:oops">${nope}</m></lib>'
main = ('<tal:x define="lib load: lib.pt">'
        '<u metal:use-macro="lib[\'m\']"/></tal:x>')
show('10a', "on-error of the macro's defining element is not part of the "
     "macro", "lib.pt:  " + lib + "\nmain.pt: " + main,
     render_files({'lib.pt': lib, 'main.pt': main}, 'main.pt'),
     render('<m tal:on-error="string:oops">${nope}</m>'))
src = ('<r>' + M + '<u metal:use-macro="template.macros[\'m\']">'
       '<f metal:fill-slot="s" tal:on-error="string:oops">${nope}</f></u></r>')
inl = '<r><m>M[<f tal:on-error="string:oops">${nope}</f>]</m></r>'
show('10b', "on-error of the fill-slot element is not part of the filler",
     src, render(src), render(inl))

# ---------------------------------------------------------------------------
# 11. macroname: the expression text is cut at the last '/'
# ---------------------------------------------------------------------------
lib = '<lib><m metal:define-macro="m">[${macroname}]</m></lib>'
main = ('<tal:x define="lib load: lib.pt; n 2">'
        '<u metal:use-macro="lib[\'m\' if n/2 else \'x\']"/></tal:x>')
show('11', "macroname is neither the macro name nor the expression used",
     "lib.pt:  " + lib + "\nmain.pt: " + main,
     render_files({'lib.pt': lib, 'main.pt': main}, 'main.pt'),
     "<m>[m]</m>   (or at least the full expression text)")

print("=" * 78)
for n, title, bad in RESULTS:
    print("%-4s %-20s %s" % (n, "REPRODUCED" if bad else "not reproduced", title))
