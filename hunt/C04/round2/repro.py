"""Reproduces the findings of findings.json against the library at HEAD.

Run:  PYTHONPATH=/tmp/wth2_C04/src /venv/bin/python /tmp/wth2_C04/repro.py
Each block prints the finding number, what was observed and whether the
defect shows (DEFECT) or not (ok).
"""
import sys
sys.path.insert(0, '/tmp/wth2_C04/src')
from chameleon import PageTemplate

LOG = []


def t(name, value=None, exc=None):
    LOG.append(name)
    if exc is not None:
        raise exc(name)
    return value


def render(source, options=None, **kw):
    del LOG[:]
    try:
        return PageTemplate(source, **(options or {}))(t=t, **kw)
    except Exception as e:  # noqa
        return "EXC:%s: %s" % (type(e).__name__, str(e).split('\n')[0][:90])


def show(n, source, expected, options=None, **kw):
    out = render(source, options, **kw)
    bad = out != expected if not callable(expected) else not expected(out)
    print("[%2d] %s %s" % (n, "DEFECT" if bad else "ok    ", source))
    print("        observed: %r  log=%r" % (out, list(LOG)))
    if not callable(expected):
        print("        expected: %r" % (expected,))


# 1 -- get / getname captured
show(1, "<p>${[len(get) for get in xs]}</p>", "<p>[1, 2]</p>", xs=[[1], [1, 2]])
show(1, "<p>${(lambda get: len(get))([1,2])}</p>", "<p>2</p>")
show(1, "<p>${[getname + x for getname in ['a']]}</p>", "<p>['a1']</p>", x='1')

# 2 -- walrus
show(2, "<p>${(y := 5)} ${y}</p>", "<p>5 5</p>")
show(2, "<p>${[y for x in [1,2] if (y := x)]}</p>", "<p>[1, 2]</p>")
show(2, "<p tal:define='f lambda: (y := 1) + y'>${f()}</p>", "<p>2</p>")

# 3 -- def / import of a code block hide template variables
show(3, '<p><?python def f(): return 1 ?><span tal:define="f 5">${f + 1}</span></p>',
     "<p><span>6</span></p>")
show(3, "<div><m metal:define-macro='m'><?python def f(): return 1 ?>${f()}</m><p>${f}</p></div>",
     "<div><m>1</m><p>2</p></div>", f=2)
show(3, '<p><?python import os ?><span tal:define="os 5">${os}</span></p>',
     "<p><span>5</span></p>")
show(3, "<p><?python import os.path ?>${os.path.basename('a/b')}</p>", "<p>b</p>")

# 4 -- structure:
class H:
    def __html__(self):
        return "<b>h</b>"

    def __str__(self):
        return "<i>s</i>"


show(4, '<p tal:content="structure: x">d</p>', "<p></p>", x=None)
show(4, '<p tal:content="structure: default">d</p>', "<p>d</p>")
show(4, '<p tal:content="structure: nope | default">d</p>', "<p>d</p>")
show(4, '<p tal:attributes="a structure: default" a="1"/>', '<p a="1"/>')
show(4, '<p>${structure: x}</p>', "<p><b>h</b></p>", x=H())
show(4, '<p>${structure: x}</p>', "<p><b></p>", x=b'<b>')

# 5 -- NFKC
show(5, "<p tal:define='µ 5'>${µ}</p>", "<p>5</p>")
show(5, "<p tal:repeat='ﬁ [1,2]'>${ﬁ}</p>", "<p>1</p>\n<p>2</p>")

# 6 -- data attributes: statement given twice
show(6, """<p tal:content="t('a','A')" data-tal-content="t('b','B')">x</p>""",
     lambda out: out.startswith("EXC:LanguageError"), dict(enable_data_attributes=True))
show(6, """<p data-tal-content="t('a','A')" data-tal-content="t('b','B')">x</p>""",
     lambda out: out.startswith("EXC:LanguageError"), dict(enable_data_attributes=True))

# 7 -- tal:case in a macro whose switch is outside
show(7, '<div tal:switch="1"><p metal:define-macro="m" tal:case="t(\'c\',1)">one</p></div>',
     "<div><p>one</p></div>")
show(7, '<div tal:switch="1"><div metal:define-macro="m"><p tal:case="1">one</p></div></div>',
     "<div><div><p>one</p></div></div>")

# borderline ----------------------------------------------------------
show(8, """<p tal:content="exists: int('x')"/>""", "<p>0</p>")
show(8, """<p tal:content="int('x') | 'alt'"/>""", "<p>alt</p>")
show(9, '<p tal:attributes="a string:${x}" a="1"/>', '<p a=""/>', x=None)
show(9, '<p tal:attributes="a string:${x} " a="1"/>', '<p a=" "/>', x=None)
show(10, """<div meta:interpolation="false"><p a="${t('attr',1)}">${t('text',1)}</p></div>""",
     """<div><p a="${t('attr',1)}">${t('text',1)}</p></div>""")
show(11, "<p>${[1,2].foo}</p>", lambda out: out.startswith("EXC:AttributeError"))
show(12, "<p>${t('a',1)} ${bad syntax(} ${t('b',1)}</p>",
     lambda out: out.startswith("EXC:ExpressionError") and LOG == ['a'], dict(strict=False))
