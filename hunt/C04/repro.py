"""Reproduces the C04 findings (TALES semantics / exactly-once / document order).

Run as:  PYTHONPATH=/tmp/wth_C04/src /venv/bin/python repro.py
"""
from chameleon import PageTemplate
from chameleon import PageTextTemplate


class Log:
    """Callable ``f(tag, val=None, exc=None)``: records the call, then
    raises ``exc(tag)`` or returns ``val`` (``tag`` when ``val`` is None)."""

    def __init__(self):
        self.calls = []

    def __call__(self, tag, val=None, exc=None):
        self.calls.append(tag)
        if exc is not None:
            raise exc(tag)
        return tag if val is None else val


def render(src, cls=PageTemplate, options=None, **kw):
    log = Log()
    try:
        out = cls(src, **(options or {})).render(f=log, **kw)
    except Exception as e:  # noqa
        msg = (str(e).splitlines() or [''])[0]
        out = "RAISED %s: %s" % (type(e).__name__, msg[:100])
    return out, log.calls


def show(fid, title, src, expected, cls=PageTemplate, options=None, **kw):
    out, calls = render(src, cls, options, **kw)
    print("=" * 78)
    print("%s %s" % (fid, title))
    print("  input    : %s" % src.replace("\n", "\\n"))
    if kw:
        print("  values   : %r" % (kw,))
    if options:
        print("  options  : %r" % (options,))
    print("  observed : output=%r calls=%r" % (out, calls))
    print("  expected : %s" % expected)


# 1
show("F01", "nested lambda cannot see the enclosing lambda's parameter",
     "<p>${(lambda x: (lambda y: x + y)(1))(2)}</p>",
     "output '<p>3</p>' (Python closure semantics)")

# 2
show("F02", "lambda default value naming a template variable of the same name",
     "<p tal:define=\"x 5\">${(lambda x=x: x)()}</p>",
     "output '<p>5</p>' (the default 'x' is the template variable x)")

# 3
show("F03", "python expression starting with 'lambda:' is dispatched as an "
     "expression type",
     "<p tal:define=\"g python: lambda: 1\">${g()}</p>",
     "'python: lambda: 1' is a Python expression (a zero-argument lambda); "
     "instead: Unknown expression type 'lambda'")
show("F03b", "  (same, as a pipe alternative)",
     "<p tal:define=\"g nope | lambda: 1\">${g()}</p>",
     "output '<p>1</p>'")

# 4
show("F04", "comprehension variable is written into the template variables",
     "<ul><li tal:repeat=\"x (1, 2)\">${x}:${[x for x in 'ab']}:${x}</li></ul>",
     "'1:['a', 'b']:1' and '2:['a', 'b']:2' (comprehension variables are "
     "local to the comprehension)")
show("F04b", "  (same root cause: assignment expression does not compile)",
     "<p>${(y := 5) + y}</p>",
     "output '<p>10</p>'")

# 5
show("F05", "tal:attributes: dict expression evaluated before the named "
     "attributes that precede it",
     "<a tal:attributes=\"class f('1'); f('d', {'x': 'y'}); id f('3')\" />",
     "calls ['1', 'd', '3'] (document order)")

# 6
show("F06", "attribute that is filtered out by a dict attribute is evaluated "
     "although it is not rendered",
     "<a class=\"${f('static-class')}\" tal:attributes=\"f('d', {'class': 'x'})\"/>",
     "calls ['d'] only: the static class attribute is not rendered, so "
     "f('static-class') must not be called")

# 7
show("F07", "same-element order: tal:switch runs after condition/repeat (once per "
     "iteration), tal:case before them",
     "<div tal:switch=\"f('s')\" tal:condition=\"f('c')\" "
     "tal:repeat=\"i f('r', (1, 2))\"><p tal:case=\"f('s')\">x</p></div>",
     "documented order define, switch, condition, repeat, case: calls "
     "['s', 'c', 'r', 's', 's'] (switch evaluated once)")
show("F07b", "  (case before condition/repeat)",
     "<div tal:switch=\"1\"><p tal:case=\"f('k', 1)\" tal:condition=\"f('c')\" "
     "tal:repeat=\"i f('r', (1,))\">x</p></div>",
     "calls ['c', 'r', 'k'] per the documented order")

# 8
show("F08", "template variables named decode / translate / on_error_handler are "
     "not resolved",
     "<p tal:define=\"decode 5; translate 6\">${decode} ${translate}</p>",
     "output '<p>5 6</p>' (template variables come first)")

# 9
show("F09", "'default' for an attribute whose static text has an interpolation "
     "emits the raw source, expression never evaluated",
     "<p x=\"${f('s')}\" tal:attributes=\"x f('a', exc=K) | default\">t</p>",
     "output '<p x=\"s\">t</p>' with calls ['a', 's']", K=KeyError)

# 10
show("F10", "tal:case inside a metal:fill-slot below the tal:switch element",
     "<div tal:switch=\"1\"><u metal:use-macro=\"macros['m']\">"
     "<s metal:fill-slot=\"s\"><p tal:case=\"1\">${f('one')}</p>"
     "<p tal:case=\"2\">${f('two')}</p></s></u></div>"
     "<m metal:define-macro=\"m\"><s metal:define-slot=\"s\"/></m>",
     "case 1 is rendered (calls [... 'one' ...]); instead UnboundLocalError "
     "on the switch cache variable")

# 11
show("F11", "tal:case and tal:switch on the same element (nested switch)",
     "<div tal:switch=\"f('outer', 1)\"><div tal:case=\"f('c1', 1)\" "
     "tal:switch=\"f('inner', 2)\"><p tal:case=\"f('c2', 2)\">in</p></div></div>",
     "case binds to the parent switch: calls ['outer', 'c1', 'inner', 'c2'], "
     "output contains 'in'; instead the template does not compile")

# 12
show("F12", "parameter names of a function defined in a code block leak into the "
     "expression name scope",
     "<div><?python def foo(a): return a * 2 ?>${foo(3)} ${a}</div>",
     "output '<div>6 tmplvar</div>'", a='tmplvar')

# 13
show("F13", "'${string:...}' swallows the rest of the text including later "
     "interpolations",
     "<p>${string:a} and ${f('b')}</p>",
     "output '<p>a and b</p>' with calls ['b']")

# 14
show("F14", "newlines inside a Python expression are replaced by spaces, also "
     "inside string literals",
     "<p tal:content=\"len('''x\ny''')\"/><p tal:content=\"'''x\ny'''.split(chr(10))\"/>",
     "3 and ['x', 'y'] (the literal contains a newline)")

# 15
show("F15", "entities are decoded inside expressions where there is no XML layer "
     "(text templates, CDATA)",
     "${len('&amp;')} ${'&lt;' == '<'}",
     "'5 False'", cls=PageTextTemplate)
show("F15b", "  (CDATA)",
     "<s><![CDATA[${len('&amp;')}]]></s>",
     "'<s><![CDATA[5]]></s>'")

# 16
show("F16", "a local variable is overwritten by the global of the same name after "
     "a macro call",
     "<div tal:define=\"global x 'g'\"><div tal:define=\"x 'local'\">"
     "${x}<u metal:use-macro=\"macros['m']\"/>${x}</div></div>"
     "<m metal:define-macro=\"m\" tal:omit-tag=\"\">-</m>",
     "'local-local' inside the inner div")

# 17
show("F17", "strict=False: a syntax error in a later alternative / later "
     "interpolation suppresses evaluation of the valid earlier ones",
     "<p tal:content=\"f('a') | bad syntax(\"/>",
     "calls ['a'], output '<p>a</p>' (the second alternative is never "
     "reached; expressions need only be valid when evaluated)",
     options={'strict': False})
show("F17b", "  (interpolation)",
     "<p>${f('a')} ${bad syntax(}</p>",
     "calls ['a'] before the error of the second expression is raised",
     options={'strict': False})
