"""Reproduction script for the C01 audit (TAL statements render with the
language semantics, in one fixed order).

Run as:  PYTHONPATH=/tmp/wth_C01/src /venv/bin/python repro.py
"""
from chameleon import PageTemplate


def render(src, _cfg=None, **values):
    try:
        return PageTemplate(src, **(_cfg or {})).render(**values)
    except Exception as exc:  # noqa
        msg = (str(exc).splitlines() or [""])[0]
        return "EXC %s: %s" % (type(exc).__name__, msg[:100])


def show(title, src, expected, _values_repr=None, **values):
    observed = render(src, **values)
    print("  input   :", src)
    if values:
        print("  values  :", _values_repr or values)
    print("  observed:", repr(observed))
    print("  expected:", expected)
    print()


def head(n, title):
    print("=" * 78)
    print("F%02d %s" % (n, title))
    print("=" * 78)


# ---------------------------------------------------------------------------
head(1, "guards run as define, case, condition, repeat, switch "
        "(documented: define, switch, condition, repeat, case)")
show("", '<ul tal:switch="2"><li tal:repeat="i (1,2,3)" tal:case="i">${i}</li></ul>',
     "'<ul><li>2</li></ul>' (tal:repeat runs before tal:case, so the case "
     "may use the loop variable)")
show("", '<ul tal:switch="1"><li tal:condition="False" tal:case="1">A</li>'
         '<li tal:case="1">B</li></ul>',
     "'<ul><li>B</li></ul>' (the first <li> is removed by its condition "
     "before its case is looked at, so the switch is still open)")
show("", '<ul tal:switch="next(it)" tal:condition="False">x</ul>${next(it)}',
     "'2' (tal:switch is evaluated before tal:condition)",
     _values_repr="it=iter([1, 2])", it=iter([1, 2]))

# ---------------------------------------------------------------------------
head(2, "tal:case and tal:switch on the same element: AssertionError "
        "while compiling")
show("", '<div tal:switch="1"><div tal:case="1" tal:switch="2">'
         '<p tal:case="2">x</p></div></div>',
     "'<div><div><p>x</p></div></div>' (case matches the PARENT switch, "
     "then opens a new switch for the children)")

# ---------------------------------------------------------------------------
head(3, "`default` is not available in tal:condition / tal:omit-tag / "
        "tal:define / tal:repeat")
show("", '<p tal:condition="default">orig</p>',
     "'<p>orig</p>' (docs: default has the same effect as a true value)")
show("", '<p tal:omit-tag="default">orig</p>',
     "'orig' (docs: all other values are true, including default)")
show("", '<p tal:define="x default" tal:content="x">orig</p>',
     "'<p>orig</p>' (docs: the variable has the value default)")
show("", '<p tal:repeat="x default">orig</p>',
     "'<p>orig</p>' (docs: element is left unchanged, no variables defined)")
show("", '<p tal:content="default"><b tal:repeat="i default">orig</b></p>',
     "'<p><b>orig</b></p>' (here the name is bound, but repeat does not "
     "know the marker)")

# ---------------------------------------------------------------------------
head(4, "tal:attributes expressions are entity-decoded twice")
show("", '''<p tal:attributes="title 'use &amp;lt; here'">o</p>'''
         '''|<p tal:content="'use &amp;lt; here'">o</p>''',
     "'<p title=\"use &amp;lt; here\">o</p>|<p>use &amp;lt; here</p>' "
     "(the Python string is 'use &lt; here' in both statements)")

# ---------------------------------------------------------------------------
head(5, "';' after '&amp;name' is not a separator (entity protection is "
        "applied to the already decoded text)")
show("", '<p tal:define="x a&amp;b; c 1" tal:content="x + c">o</p>',
     "'<p>2</p>'", a=3, b=1)
show("", '<p tal:attributes="a a&amp;b; c 1">o</p>',
     "'<p a=\"1\" c=\"1\">o</p>'", a=3, b=1)

# ---------------------------------------------------------------------------
head(6, "two dictionary expressions in one tal:attributes are rejected")
show("", '<p tal:attributes="d; e">o</p>',
     "'<p a=\"1\" b=\"2\">o</p>' (grammar: attribute_statement ::= "
     "attribute_name expression | expression, repeated)",
     d={'a': '1'}, e={'b': '2'})

# ---------------------------------------------------------------------------
head(7, "dict vs. named attribute: who wins depends on the presence of a "
        "static attribute")
show("", '<p tal:attributes="d; a 1">o</p>|<p a="s" tal:attributes="d; a 1">o</p>',
     "'<p a=\"1\">o</p>|<p a=\"1\">o</p>' (later definition overrides the "
     "earlier one in both elements)", d={'a': 'da'})

# ---------------------------------------------------------------------------
head(8, "tal:attributes `default` on a static attribute with ${...} or $$ "
        "emits the raw source text")
show("", '<p a="x${1+1}" tal:attributes="a default">o</p>|<p a="x${1+1}">o</p>',
     "'<p a=\"x2\">o</p>|<p a=\"x2\">o</p>' (default keeps the original "
     "markup, i.e. what the element renders without the statement)")
show("", '<p a="x$$y" tal:attributes="a default">o</p>|<p a="x$$y">o</p>',
     "'<p a=\"x$y\">o</p>|<p a=\"x$y\">o</p>'")

# ---------------------------------------------------------------------------
head(9, "global define with tuple unpacking records the whole tuple as the "
        "global value")
show("", '<div tal:define="a 5"><p tal:define="global (a,b) (1,2)">${a},${b}</p>'
         '</div>[${a},${b}]',
     "'<div><p>1,2</p></div>[1,2]' (same as "
     "tal:define=\"global a 1; global b 2\")")

# ---------------------------------------------------------------------------
head(10, "comprehension variables overwrite template variables")
show("", '<ul tal:define="x 9"><li tal:content="[x for x in xs]">o</li>'
         '<li tal:content="x">x</li></ul>',
     "'<ul><li>[1, 2, 3]</li><li>9</li></ul>'", xs=[1, 2, 3])
show("", '<li tal:repeat="x (1,2)"><b tal:content="sum(x for x in (10,20))">'
         's</b>${x}</li>',
     "'<li><b>30</b>1</li>\\n<li><b>30</b>2</li>'")
show("", '<p tal:content="[y for y in (1,2)]">o</p>[${y|nothing}]',
     "'<p>[1, 2]</p>[]'")

# ---------------------------------------------------------------------------
head(11, "an object with an attribute named `default` is rendered as that "
         "attribute")


class Field:
    def __init__(self, default):
        self.default = default

    def __str__(self):
        return 'Field-object'


show("", '<p tal:content="x">o</p>|<p tal:attributes="a x">o</p>',
     "'<p>Field-object</p>|<p a=\"Field-object\">o</p>'",
     _values_repr="x=Field(default='dflt'), str(x) == 'Field-object'",
     x=Field('dflt'))
show("", '<p tal:content="x">o</p>',
     "'<p>Field-object</p>'",
     _values_repr="x=Field(default=5)", x=Field(5))

# ---------------------------------------------------------------------------
head(12, "tal:content is evaluated after tal:omit-tag and tal:attributes")
show("", '<p tal:content="next(it)" tal:omit-tag="next(it) &gt; 5" '
         'tal:attributes="a next(it)">o</p>',
     "'<p a=\"3\">1</p>' (content, then omit-tag, then attributes)",
     _values_repr="it=iter([1, 2, 3])", it=iter([1, 2, 3]))

# ---------------------------------------------------------------------------
head(13, "a statement spelled twice on a tal: element: the last one in the "
         "start tag wins")
show("", '<tal:block tal:content="x" content="y">o</tal:block>'
         '|<tal:block content="y" tal:content="x">o</tal:block>',
     "the same text for both spellings (or a LanguageError for both)",
     x=1, y=2)

# ---------------------------------------------------------------------------
head(14, "tal:content=\"default\" on an empty-element tag does not keep the "
         "markup")
show("", '<br tal:content="default" />|<br tal:replace="default" />',
     "'<br />|<br />'")

# ---------------------------------------------------------------------------
head(15, "tal:attributes on a minimized (value-less) attribute")
show("", '<input checked tal:attributes="checked x" />'
         '|<p title tal:attributes="title t">o</p>',
     "'<input checked=\"checked\" />|<p title=\"T\">o</p>' (or the "
     "minimized form for the boolean one)", x=1, t='T')

# ---------------------------------------------------------------------------
head(16, "non-ASCII Python identifiers are rejected as variable names")
show("", '<p tal:define="café 1" tal:content="café">o</p>',
     "'<p>1</p>' (docs: valid variable names are any Python identifier)")
