"""Second-round findings for property C01 (TAL statements, one fixed order).

Run:  PYTHONPATH=/tmp/wth2_C01/src /venv/bin/python /tmp/wth2_C01/repro.py
Every block prints the template, what HEAD renders and what is expected.
"""
from chameleon import PageTemplate


def render(source, options=None, **kwargs):
    try:
        return PageTemplate(source, **(options or {}))(**kwargs)
    except BaseException as exc:  # SyntaxError etc. included
        text = str(exc).strip().splitlines()
        return "EXC:%s: %s" % (type(exc).__name__, text[0][:90] if text else "")


def show(n, title, source, expected, options=None, **kwargs):
    observed = render(source, options, **kwargs)
    bad = observed != expected
    print("--- %d. %s" % (n, title))
    print("    source  :", source)
    if options:
        print("    options :", options)
    if kwargs:
        print("    kwargs  :", kwargs)
    print("    observed:", repr(observed))
    print("    expected:", repr(expected))
    print("    ->", "VIOLATION" if bad else "ok")
    return bad


MACRO = (
    '<div metal:define-macro="m">'
    '<span metal:define-slot="s">S</span>'
    '<span metal:define-slot="t">T</span></div>'
)

results = []

# 1. tal:case in a slot filler, tal:switch outside of the metal:use-macro
results.append(show(
    1, "tal:case inside metal:fill-slot, tal:switch outside the use-macro",
    MACRO + '<div tal:switch="x"><div metal:use-macro="template.macros[\'m\']">'
    '<p metal:fill-slot="s" tal:case="1">one</p>'
    '<p metal:fill-slot="t" tal:case="1">two</p></div></div>',
    '<div><span>S</span><span>T</span></div>'
    '<div><div><p>one</p></div></div>',
    x=1))

# 2. minimized attribute + tal:attributes
results.append(show(
    2, "tal:attributes on an attribute written in minimized form",
    '<a foo tal:attributes="foo x">t</a>',
    '<a foo="v">t</a>', x='v'))
results.append(show(
    2, "... the common HTML case",
    '<input checked tal:attributes="checked x">',
    '<input checked="checked">', x=True))

# 3. enable_data_attributes: statement given twice
opts = {'enable_data_attributes': True}
results.append(show(
    3, "statement given twice through data attributes (a)",
    '<a data-tal-content="1" data-tal-content="2">t</a>',
    'EXC:LanguageError: Statement given twice on the same element.', opts))
results.append(show(
    3, "statement given twice through data attributes (b, order swapped)",
    '<a data-tal-content="2" data-tal-content="1">t</a>',
    'EXC:LanguageError: Statement given twice on the same element.', opts))
results.append(show(
    3, "tal:content next to data-tal-content",
    '<a tal:content="1" data-tal-content="2">t</a>',
    'EXC:LanguageError: Statement given twice on the same element.', opts))

# 4. attrs holds the expression source of a dynamic-only attribute
results.append(show(
    4, "attrs lists the source text of a tal:attributes expression",
    '<a old="o" tal:attributes="new 1+1" tal:content="sorted(attrs.items())">t</a>',
    '<a old="o" new="2">[(\'old\', \'o\')]</a>'))

# 5. names that differ in case only inside one tal:attributes clause
results.append(show(
    5, "tal:attributes=\"HREF 1; href 2\" silently drops the first",
    '<?xml version="1.0"?><a tal:attributes="HREF 1; href 2">t</a>',
    '<?xml version="1.0"?><a HREF="1" href="2">t</a>'))

# 6. hyphenated variable names
results.append(show(
    6, "local tal:define of a hyphenated name (global works)",
    '<a tal:define="x-y 1" tal:content="econtext[\'x-y\']">t</a>',
    '<a>1</a>'))
results.append(show(
    6, "... tal:repeat",
    '<a tal:repeat="x-y (1,2)" tal:content="econtext[\'x-y\']">t</a>',
    '<a>1</a>\n<a>2</a>'))

# 7. scope restore decided by object identity
T7 = ('<a tal:define="global x %s"><b tal:define="x %s"><c tal:define="x 2">'
      '<d tal:define="global x 3"/></c>${x}</b></a>')
results.append(show(
    7, "local that is the same object as the global is lost when an inner "
    "scope ends", T7 % ('1', '1'), '<a><b><c><d/></c>1</b></a>'))
results.append(show(
    7, "... control: equal but distinct objects render correctly "
    "(this one is expected to be ok)",
    T7 % ('[1]', '[1]'), '<a><b><c><d/></c>[1]</b></a>'))

# 8. nesting depth: 19 nested tal:repeat
n = 19
source = ''.join('<e tal:repeat="i%d (1,)">' % i for i in range(n)) + 'x' + \
    '</e>' * n
results.append(show(
    8, "19 nested tal:repeat elements", source, '<e>' * n + 'x' + '</e>' * n))

# 9. (borderline) on-error fallback of an element with a tal:omit-tag expression
results.append(show(
    9, "borderline: tal:omit-tag=\"nothing\" + tal:on-error loses the tag",
    '<a href="h" tal:omit-tag="nothing" tal:on-error="string:err">${1/0}</a>',
    '<a href="h">err</a>'))

# 10. (borderline) default content of an empty element
results.append(show(
    10, "borderline: <br tal:content=\"default\" /> is rewritten",
    '<br tal:content="default" />', '<br />'))

# 11. (borderline) dictionary expression that is None
results.append(show(
    11, "borderline: tal:attributes dictionary expression evaluating to None",
    '<a href="h" tal:attributes="d">t</a>', '<a href="h">t</a>', d=None))

# 12. (borderline) tal:case in a macro, tal:switch around the macro definition
results.append(show(
    12, "borderline: tal:case in define-macro, switch outside: AssertionError",
    '<div tal:switch="x"><div metal:define-macro="m">'
    '<p tal:case="1">one</p></div></div>',
    '<div><div><p>one</p></div></div>', x=1))

print()
print("%d of %d checks show a violation (one control check is expected "
      "to be ok)" % (sum(results), len(results)))
