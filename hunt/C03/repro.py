"""Reproduces the C03 findings (unmarked markup is reproduced verbatim).

Run as:  PYTHONPATH=/tmp/wth_C03/src /venv/bin/python repro.py
"""
from chameleon import PageTemplate

TAL = "http://xml.zope.org/namespaces/tal"


def run(source, options=None, **variables):
    try:
        return PageTemplate(source, **(options or {})).render(**variables)
    except Exception as exc:  # noqa
        return "%s: %s" % (type(exc).__name__, str(exc).split("\n")[0])


def show(title, source, expected, options=None, **variables):
    observed = run(source, options, **variables)
    if title.startswith("control"):
        verdict = ("control case behaves as expected" if observed == expected
                   else "control case FAILS too")
    else:
        verdict = ("ok (NOT reproduced)" if observed == expected
                   else "VIOLATION")
    print("  [%s]" % title)
    print("  input   : %r%s" % (source, "  options=%r" % options if options else ""))
    print("  observed: %r" % observed)
    print("  expected: %r" % expected)
    print("  -> %s" % verdict)
    print()


def section(n, title):
    print("=" * 78)
    print("F%d. %s" % (n, title))
    print("=" * 78)


# ---------------------------------------------------------------------------
section(1, "static attributes dropped / statement left in output when two "
           "attributes share one (namespace, name) key")
# xml:lang and lang both map to (XML_NS, 'lang') when no default xmlns is set
show("xml:lang + lang",
     '<p xml:lang="de" lang="de" tal:define="x 1">y</p>',
     '<p xml:lang="de" lang="de">y</p>')
show("lang + xml:lang + tal:content",
     '<p lang="de" xml:lang="de" tal:content="\'x\'">y</p>',
     '<p lang="de" xml:lang="de">x</p>')
# duplicate attribute (tag soup)
show("duplicate attribute",
     '<p class="a" class="b" tal:define="x 1" id="i">y</p>',
     '<p class="a" class="b" id="i">y</p>')
# Vue shorthand with restricted_namespace=False (the documented use case)
show(":class + class",
     '<a :class="c" class="btn" tal:condition="True">x</a>',
     '<a :class="c" class="btn">x</a>',
     options=dict(restricted_namespace=False))

# ---------------------------------------------------------------------------
section(2, "namespace scope leaks past the end tag when a tag inside was "
           "left unclosed: unmarked elements after it lose their tags")
show("control: no unclosed tag inside",
     '<p xmlns="%s">a</p><b>hi</b>' % TAL,
     'a<b>hi</b>')
show("unclosed <br> inside",
     '<p xmlns="%s">a<br></p><b>hi</b>' % TAL,
     'a<b>hi</b>')
show("nested",
     '<div><p xmlns="%s">a<img></p><b class="k">hi</b></div>' % TAL,
     '<div>a<b class="k">hi</b></div>')

# ---------------------------------------------------------------------------
section(3, "'%' in the attribute area of a tag is taken as a format directive")
show("one percent sign lost", '<a b==x %% c>y</a>', '<a b==x %% c>y</a>')
show("ERB/ASP style tag soup", '<a href=<%= url %>>x</a>',
     '<a href=<%= url %>>x</a>')
show("stray percent", '<a b==x 100% d=e>y</a>', '<a b==x 100% d=e>y</a>')
show("inside <?xml ...?>", '<?xml version="1.0" %?><a/>',
     '<?xml version="1.0" %?><a/>')

# ---------------------------------------------------------------------------
section(4, "'<!--?' comments lose more than the documented single '?'")
show("empty", '<!--?-->', '<!---->')
show("markup in comment", '<!--?<b>bold</b>-->', '<!--<b>bold</b>-->')
show("bang", '<!--?!important-->', '<!--!important-->')
show("hyphen", '<!--?- item -->', '<!--- item -->')

# ---------------------------------------------------------------------------
section(5, "processing instructions whose target starts with 'xml' are "
           "dissected as element tags and lose text")
show("text after ' >'", '<?xml-stylesheet >x?><a/>', '<?xml-stylesheet >x?><a/>')
show("text after ' >' (2)", '<?xml-foo > bar?><a/>', '<?xml-foo > bar?><a/>')
show("control: other target", '<?foo-stylesheet >x?><a/>',
     '<?foo-stylesheet >x?><a/>')

# ---------------------------------------------------------------------------
section(6, "processing instructions whose target merely starts with 'python' "
           "are executed as code blocks")
show("python-version", '<?python-version 3.11?><a/>', '<?python-version 3.11?><a/>')
show("python.exe", '<?python.exe x = 1?>ok', '<?python.exe x = 1?>ok')
show("control: pythonista", '<?pythonista x?>ok', '<?pythonista x?>ok')

# ---------------------------------------------------------------------------
section(7, "incomplete end-tag tokens crash with internal errors, the "
           "corresponding incomplete start-tag tokens are reproduced")
show("control: '<' as text", '<p>1 < 2</p>', '<p>1 < 2</p>')
show("'</' as text", '<p>1 </ 2</p>', '<p>1 </ 2</p>')
show("classic script idiom",
     '<script>document.write("<scr"+"ipt src=x></"+"script>")</script>',
     '<script>document.write("<scr"+"ipt src=x></"+"script>")</script>')
show("control: truncated start tag", '<p>x<p', '<p>x<p')
show("truncated end tag", '<p>x</p', '<p>x</p  (or a ParseError)')
show("end tag followed by junk", '<p>x</p <b>', '<p>x</p <b>  (or a ParseError)')

# ---------------------------------------------------------------------------
section(8, "implicit_i18n_translate: a processing instruction is "
           "whitespace-normalised and offered for translation")
seen = []


def translate(msgid, **kw):
    seen.append(msgid)
    return kw.get("default") or msgid


src = '<div><?php // init\n  echo 1;\n?><!-- a\n b --><![CDATA[ a\n b ]]></div>'
show("php", src, src,
     options=dict(implicit_i18n_translate=True, translate=translate))
print("  msgids offered to the translation function: %r" % seen)
