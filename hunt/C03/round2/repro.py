"""Reproduces the C03 round-2 findings (see findings.json).

Run:  PYTHONPATH=/tmp/wth2_C03/src /venv/bin/python /tmp/wth2_C03/repro.py
Each line is  BAD/OK  n  input -> observed  (expected ...)
"""
from chameleon import PageTemplate
from chameleon.tokenize import Token


def render(source, options=None, **kwargs):
    try:
        return PageTemplate(source, **(options or {}))(**kwargs)
    except Exception as exc:  # noqa
        return "EXC:%s" % type(exc).__name__


def check(n, source, expected, options=None, **kwargs):
    observed = render(source, options, **kwargs)
    flag = "OK " if observed == expected else "BAD"
    print("%s %2d  %r -> %r   (expected %r)" % (
        flag, n, source, observed, expected))


# 1. lone surrogate in a tag name
check(1, '<\ud800p>', '<\ud800p>')
check(1, '<p\udfff a="1">x</p\udfff>', '<p\udfff a="1">x</p\udfff>')
check(1, '<p \ud800="\ud800">\ud800</p>', '<p \ud800="\ud800">\ud800</p>')  # fine

# 2. '${' without a closing brace in an attribute
check(2, '<a b=${ c=1>', '<a b=${ c=1>')
check(2, '<a href=x${y>', '<a href=x${y>')
check(2, '<input checked="${">', '<input checked="${">')
check(2, '<input checked="a ${ b" />', '<input checked="a ${ b" />')
check(2, '<p title="a ${ b">a ${ b<!-- ${ --></p>',
      '<p title="a ${ b">a ${ b<!-- ${ --></p>')  # fine

# 3. <?python + non-ASCII space
check(3, '<?python\xa0?>', '<?python\xa0?>')
check(3, '<?python x ?>', '<?python x ?>')
check(3, '<?php\xa0echo ?><?pythonx ?>', '<?php\xa0echo ?><?pythonx ?>')  # fine

# 4. quote character inside an unquoted value, statement next to it
check(4, '<a b=it\'s tal:content="z">q</a>', '<a b=it\'s>1</a>', z=1)
check(4, '<a b=x"y" i18n:translate="">q</a>', '<a b=x"y">q</a>')
check(4, '<a b=it\'s tal:attributes="c z">q</a>', '<a b=it\'s c="1">q</a>', z=1)
check(4, '<a b=it\'s c="1">q</a>', '<a b=it\'s c="1">q</a>')  # fine

# 5. unmatched text in the attribute area before a statement
check(5, '<a b="c tal:content=\'x\'>q</a>', '<a b="c>1</a>', x=1)
check(5, '<a b=\'c i18n:domain="d">q</a>', '<a b=\'c>q</a>')
check(5, '<input value="unterminated tal:attributes=\'id x\' name=n>',
      '<input value="unterminated name=n id="1">', x=1)
check(5, '<a b="c d=\'x\'>q</a>', '<a b="c d=\'x\'>q</a>')  # fine

# --- borderline ---------------------------------------------------------
# 6. '=', '`' or a Unicode blank in an unquoted value
check(6, '<a href=x?a=1>link</a>', '<a href=x?a=1>link</a>')
check(6, '<a title=\xa0 tal:content="y">q</a>', '<a title=\xa0>1</a>', y=1)
check(6, '<i class=` tal:omit-tag="">q</i>', 'q')

# 7. meta:interpolation="false"
check(7, '<div meta:interpolation="false"><a b="${x}"/></div>',
      '<div><a b="${x}"/></div>')
check(7, '<div meta:interpolation="false"><script>$$("div")</script></div>',
      '<div><script>$$("div")</script></div>')
check(7, '<div meta:interpolation="false"><!-- $$ ${x} --><![CDATA[$$ ${x}]]></div>',
      '<div><!-- $$ ${x} --><![CDATA[$$ ${x}]]></div>')  # fine

# 8. implicit_i18n_translate and raw-text elements
check(8, '<script>var a = 1; // c\nvar b;</script>',
      '<script>var a = 1; // c\nvar b;</script>',
      {'implicit_i18n_translate': True})

# 9. nesting depth
for depth in (150, 200):
    doc = '<a>' * depth + 'x' + '</a>' * depth
    out = render(doc)
    print("%s  9  depth %d -> %s" % (
        "OK " if out == doc else "BAD", depth,
        'itself' if out == doc else out))

# 10. macro names differing in '-' / '_'
check(10, '<p metal:define-macro="a-b">X</p><p metal:define-macro="a_b">Y</p>',
      '<p>X</p><p>Y</p>')

# 11. Token slice with a negative start
pos = Token('abcdef', 10)[-2:].pos
print("%s 11  Token('abcdef', 10)[-2:].pos -> %r   (expected 14)" % (
    "OK " if pos == 14 else "BAD", pos))
