"""Reproductions for property C02 (inserted values are escaped and cannot
change document structure).

Run as:  PYTHONPATH=/tmp/wth_C02/src /venv/bin/python repro.py
"""
import xml.dom.minidom

from chameleon import PageTemplate

HOSTILE = '<&>"\''


def render(src, _opts=None, **kw):
    try:
        return PageTemplate(src, **(_opts or {}))(**kw)
    except Exception as e:  # pragma: no cover
        return 'EXC %s: %s' % (type(e).__name__, str(e).split('\n')[0])


def show(title, src, values, observed, expected, reproduced):
    print('=' * 78)
    print(title)
    print('  template :', repr(src))
    print('  values   :', values)
    print('  observed :', repr(observed))
    print('  expected :', repr(expected))
    print('  VIOLATION REPRODUCED:', bool(reproduced))


# ---------------------------------------------------------------------------
# 1. "${name}" / "$name" inside a value is re-interpolated by i18n:translate
# ---------------------------------------------------------------------------
src = ('<p i18n:translate="">Hi ${user}, <a href="${url}">link</a> '
       '<b i18n:name="x" onclick="f()">bold</b></p>')
out = render(src, user='$x', url='${x}')
exp = ('<p>Hi $x, <a href="${x}">link</a> '
       '<b onclick="f()">bold</b></p>')
show('1. i18n:name placeholder in a value is substituted (element injected, '
     'also inside a quoted attribute)',
     src, "user='$x', url='${x}'", out, exp,
     out.count('<b onclick') == 3 and 'href="<b' in out)

# ---------------------------------------------------------------------------
# 2. conversion result that is not a str skips the escape step
# ---------------------------------------------------------------------------


class Option:
    """Any object that happens to have a non-str ``default`` attribute."""
    default = ['<script>alert(1)</script>']

    def __str__(self):
        return 'option'


src = '<p title="${x}">${x}</p>'
out = render(src, x=Option())
show('2a. object with a non-str "default" attribute (default translate '
     'function): value inserted raw',
     src, 'x=Option()  (Option.default = ["<script>alert(1)</script>"])',
     out,
     'no raw < > in the inserted regions (e.g. &lt;script&gt;...)',
     '<script>' in out)


class Msg(str):
    default = None
    mapping = None


class Lazy:
    """Lazy translation proxy (not a str, has __str__)."""

    def __init__(self, s):
        self.s = s

    def __str__(self):
        return self.s


def lazy_translate(msgid, domain=None, mapping=None, context=None,
                   target_language=None, default=None):
    if isinstance(msgid, Msg):
        return Lazy(HOSTILE)          # hostile translation of the message
    return default if default is not None else msgid


src = '<p title="t: ${x}">t: ${x}</p>'
out = render(src, dict(translate=lazy_translate), x=Msg('msgid'))
show('2b. message object whose translation is a lazy (non-str) object: '
     'translation inserted raw',
     src, "x=Msg('msgid'), translate returns Lazy('<&>\"\\'')", out,
     '<p title="t: &lt;&amp;&gt;&quot;\'">t: &lt;&amp;&gt;"\'</p>',
     'title="t: <&>"' in out)

# ---------------------------------------------------------------------------
# 3. ${string:...${x}...} inside an interpolation is escaped twice
# ---------------------------------------------------------------------------
src = ('<p title="${string:a ${x}}"><i>${string:a ${x}}</i>'
       '<b>${y | string:${x}}</b></p>')
out = render(src, x=HOSTILE)
exp = ('<p title="a &lt;&amp;&gt;&quot;\'"><i>a &lt;&amp;&gt;"\'</i>'
       '<b>&lt;&amp;&gt;"\'</b></p>')
show('3. nested string: expression in ${...}: value escaped twice '
     '(un-escaping does not give the value back)',
     src, "x='<&>\"\\''", out, exp, '&amp;lt;' in out)
print('  (control) tal:content="string:a ${x}" ->',
      repr(render('<p tal:content="string:a ${x}"/>', x=HOSTILE)))

# ---------------------------------------------------------------------------
# 4. whitespace of a value is collapsed inside i18n:translate
# ---------------------------------------------------------------------------
src = '<pre i18n:translate="">${x}</pre>'
val = ' line 1\n  line 2\t<end> '
out = render(src, x=val)
exp = '<pre> line 1\n  line 2\t&lt;end&gt; </pre>'
show('4. value inserted in an i18n:translate body is whitespace-normalised '
     'and stripped', src, 'x=%r' % val, out, exp, out != exp)
print('  (control) without i18n:translate ->',
      repr(render('<pre>${x}</pre>', x=val)))

# ---------------------------------------------------------------------------
# 5. attribute without quotes / without value: quote character ''
# ---------------------------------------------------------------------------
src = '<p foo tal:attributes="foo x">t</p>'
out1 = render(src, x='v w=1')
out2 = render(src, x='a<b')
show('5a. (borderline: unquoted) tal:attributes on a value-less attribute '
     'glues the value to the name, a space in the value adds an attribute',
     src, "x='v w=1'", out1, '<p foo="v w=1">t</p>', out1 == '<p foov w=1>t</p>')
show('5b. (borderline: unquoted) empty quote character: '
     '"".replace inserts &#0; between all characters, entity ampersands '
     'are broken up',
     src, "x='a<b'", out2, '<p foo="a&lt;b">t</p>', '&#0;' in out2)
src = '<a href=s tal:attributes="href x">t</a>'
out = render(src, x='a<b')
show('5c. same for an unquoted static attribute', src, "x='a<b'", out,
     '<a href="a&lt;b">t</a> (or at least a&lt;b)', '&#0;' in out)

# ---------------------------------------------------------------------------
# 6. attribute dictionary: keys are written verbatim
# ---------------------------------------------------------------------------
src = '<p tal:attributes="d">t</p>'
d = {'title="x" onclick="evil()" data-x': 'v'}
out = render(src, d=d)
show('6. (borderline: names, not values) dict attribute name is not '
     'validated or escaped', src, 'd=%r' % d, out,
     'an error, or exactly one attribute', 'onclick="evil()"' in out)

# ---------------------------------------------------------------------------
# 7. XML comment: "--" from a value
# ---------------------------------------------------------------------------
src = '<?xml version="1.0"?>\n<r><!-- note: ${x} --></r>'
out = render(src, x='a -- b')
try:
    xml.dom.minidom.parseString(out)
    err = None
except Exception as e:
    err = e
show('7. (borderline: not one of & < >) "--" from a value makes an XML '
     'comment ill-formed (the template parser itself rejects "--" in '
     'comments)', src, "x='a -- b'", out,
     'a well-formed document, as for x="safe"', err is not None)
print('  XML parser says:', err)

# ---------------------------------------------------------------------------
# 8. object with a str "default" attribute is rendered as that attribute
# ---------------------------------------------------------------------------


class Field:
    default = 'D'

    def __str__(self):
        return 'the field'


src = '<p>${x}</p>'
out = render(src, x=Field())
show('8. (minor) any object with a "default" attribute is taken for a '
     'message: inserted text is not str(value)', src,
     "x=Field()  (str(x) == 'the field', x.default == 'D')", out,
     '<p>the field</p>', out == '<p>D</p>')
