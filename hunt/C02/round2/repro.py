"""Reproduces the C02 findings of the second audit round (run with
PYTHONPATH=/tmp/wth2_C02/src /venv/bin/python repro.py)."""
import sys
sys.path.insert(0, '/tmp/wth2_C02/src')
from chameleon import PageTemplate

H = '<&>"\''


def show(n, title, src, opts=None, **kw):
    out = PageTemplate(src, **(opts or {}))(**kw)
    print('--- %s: %s' % (n, title))
    print('    template:', repr(src))
    print('    vars:    ', {k: v for k, v in kw.items()})
    print('    output:  ', repr(out))
    return out


# 1. valueless attribute given a computed value: no '=' and no quotes
out = show(1, 'valueless attribute + tal:attributes',
           '<input foo tal:attributes="foo x">', x='a b=c')
assert out == '<input fooa b=c>', out
out = show(1, 'valueless attribute + tal:attributes (markup characters)',
           '<input foo tal:attributes="foo x">', x=H)
assert '"' in out and '&#0;' in out, out
out = show(1, 'unquoted attribute + i18n:attributes (translation is split)',
           '<input foo=v i18n:attributes="foo">',
           {'translate': lambda msgid, **kw: {'v': 'V W'}.get(msgid, msgid)})
assert out == '<input foo=V W>', out

# 2. a start tag with an HTML attribute name that is no XML name is not
#    recognised as a tag: the rest of it is interpolated as element text
out = show(2, 'Angular style attribute name on a void element',
           '<input (click)="${x}">', x='" onmouseover="alert(1)')
assert out == '<input (click)="" onmouseover="alert(1)">', out
out = show(2, 'same, later attribute of the tag',
           '<input type="text" #ref value="${x}">', x=H)
assert out.endswith('value="&lt;&amp;&gt;"\'">'), out

# 3. (borderline) keys of an attribute dictionary are written as they are
out = show(3, 'dictionary key', '<p tal:attributes="x"/>',
           x={'a><script>alert(1)</script': 'v'})
assert '<script>' in out, out

# 4. (borderline) NUL is the stand-in quote of text interpolation
out = show(4, 'NUL in ${...} text', '<p>${x}</p>', x='a\0<')
assert out == '<p>a&#0;&lt;</p>', out
out = show(4, 'NUL in tal:content (for comparison)',
           '<p tal:content="x"/>', x='a\0<')
assert out == '<p>a\0&lt;</p>', out

# 5. (borderline) hyphens from a value inside a comment
out = show(5, 'comment', '<!-- ${x}> -->', x='--')
assert out == '<!-- --> -->', out

# 6. (borderline) the translation of an attribute is not escaped
out = show(6, 'translated attribute',
           '<p tal:attributes="title x" i18n:attributes="title"/>',
           {'translate': lambda msgid, **kw: {'m': 'say "hi"'}.get(
               msgid, kw.get('default') or msgid)}, x='m')
assert out == '<p title="say "hi""/>', out
print('all reproduced')
