"""Reproduces the findings of findings.json (C05, second round).

Run:  PYTHONPATH=/tmp/wth2_C05/src /venv/bin/python repro.py
Each line: finding number, BAD (defect present) or OK, details.
"""
import functools

from chameleon import PageTemplate


def render(source, options=None, **kwargs):
    try:
        return PageTemplate(source, **(options or {}))(**kwargs)
    except Exception as exc:
        return "EXC:%s" % type(exc).__name__


def check(n, expected, source, options=None, **kwargs):
    observed = render(source, options, **kwargs)
    ok = observed == expected if not callable(expected) else expected(observed)
    print("%2d %-3s %r -> %r%s" % (
        n, "OK" if ok else "BAD", source, observed,
        "" if ok or callable(expected) else " (expected %r)" % expected))


# 1 nested i18n:target
check(1, "<a><b>x</b></a>[en]",
      "<a i18n:target=\"'de'\"><b i18n:target=\"'fr'\">x</b></a>"
      "[${target_language}]", target_language='en')
# 2 walrus on reserved names
check(2, "EXC:TranslationError", "${(econtext := 5)}")
check(2, "EXC:TranslationError",
      '${(translate := 5)}<p i18n:translate="">hi</p>')
# 3 reserved names bound by def/import/except in code blocks
check(3, "EXC:TranslationError", "<?python def econtext(): pass ?>x")
check(3, "EXC:TranslationError", "<?python import os as rcontext ?>x")
check(3, "EXC:TranslationError", "<?python def __append(x): pass ?>x")
check(3, "EXC:TranslationError",
      "<?python\ntry:\n    1/0\nexcept Exception as econtext:\n    pass\n?>x")
# 4 def/import names are Python locals
check(4, "<a>True</a>",
      '<?python def f(): return 1 ?><a tal:define="f 2">${f == 2}</a>')
check(4, "<div></div><p>1</p>",
      '<div metal:define-macro="m"><?python import os ?></div>'
      '<p tal:define="os 1">${os}</p>')
check(4, "/", "<?python import os.path ?>${os.path.sep}")
# 5 NFKC
check(5, "<a>1</a>", '<a tal:define="\u00b5 1">${\u00b5}</a>')
check(5, "<a>1</a>", '<a tal:repeat="\ufb01 [1]">${\ufb01}</a>')
# 6 repeat passed to render()
check(6, "<a>1</a>\n<a>2</a>", '<a tal:repeat="x [1,2]">${x}</a>', repeat=1)
# 7 get / getname
check(7, "<a>[5]</a>", '<a tal:define="y 5">${[y for getname in [1]]}</a>')
check(7, "[2]", '${[len(get) for get in ["ab"]]}')
check(7, "1", '${(lambda get: len([get]))(1)}')
check(7, "<a>2</a>[]",
      '<?python def get(k, d=None): return "HACK" ?>'
      '<a tal:define="x 2">${x}</a>[${x|nothing}]')
check(7, "5", "${get}", {'extra_builtins': {'get': 5}})
# 8 global repeat over an empty sequence
check(8, "[]", '<b tal:repeat="global x []"/>[${x|\'undef\'}]')
check(8, "<m></m>[]",
      '<m metal:define-macro="m"><b tal:repeat="global x []"/></m>'
      '[${x|\'undef\'}]')
check(8, "<a></a>[]",
      '<a tal:define="x 1"><b tal:repeat="global x []"/></a>'
      '[${x|\'undef\'}]')
# 9 def of a builtin name in a code block
check(9, "1", '<?python def str(x): return "boo" ?>${1}')
# 10 identity heuristic
check(10, "<a><b><c><d/></c>False</b></a>",
      '<a tal:define="global flag False"><b tal:define="flag False">'
      '<c tal:define="flag True"><d tal:define="global flag True"/></c>'
      '${flag}</b></a>')

print("-- borderline")
check(11, "<a>1</a>", '<a tal:define="attrs 1">${attrs}</a>')
check(11, "<a>1</a>", '<a tal:define="default 1" tal:content="default">x</a>')
check(12, "<a>75</a>",
      '<?python\ndef f():\n    x = 7\n    return x\n?>'
      '<a tal:define="x 5">${f()}${x}</a>')
check(13, "55", "${(y := 5)}${y}")
check(13, lambda r: r != "EXC:SyntaxError",
      '<a tal:define="x 1"><?python del x ?></a>')
check(14, lambda r: not r.startswith("EXC"),
      "<?python\ntry:\n    1/0\nexcept Exception as e:\n    msg = str(e)\n?>"
      "${msg}")
check(14, lambda r: not r.startswith("EXC"), "<?python class A: pass ?>${A}")
check(15, "1", "${1}", {'extra_builtins': {'str': lambda x: 'boo'}})
check(16, lambda r: "STALE" not in r,
      '<div metal:define-macro="m1">M1</div><div metal:define-macro="m2">M2'
      '<i metal:define-slot="s">default</i></div>'
      '<div metal:use-macro="macros[\'m1\']"><p metal:fill-slot="s">STALE</p>'
      '</div><div metal:use-macro="macros[\'m2\']"/>')

from chameleon import tales  # noqa: E402
from chameleon.compiler import ExpressionEngine  # noqa: E402
from chameleon.compiler import ExpressionEvaluator  # noqa: E402
from chameleon.utils import Scope  # noqa: E402

parser = tales.ExpressionParser({'python': tales.PythonExpr}, 'python')
evaluator = ExpressionEvaluator(
    functools.partial(ExpressionEngine, parser), {'foo': 'bar'})
scope = Scope({'_result': 'mine', 'boo': 1})
evaluator(scope, {}, 'python', 'boo + 1')
print("17 %-3s ExpressionEvaluator: _result is %r afterwards" % (
    "OK" if scope['_result'] == 'mine' else "BAD", scope['_result']))
