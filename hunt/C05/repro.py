"""Reproduces the C05 (variable scoping) findings.

Run as:  PYTHONPATH=/tmp/wth_C05/src /venv/bin/python repro.py
"""
from chameleon import PageTemplate
from chameleon.utils import Scope


def render(src, **kw):
    try:
        return PageTemplate(src).render(**kw)
    except Exception as e:  # noqa
        msg = str(e).splitlines()[0] if str(e) else ''
        return "EXC %s: %s" % (type(e).__name__, msg)


N = [0]


def case(title, src, expected, kw=None, check=None):
    """check(observed) -> True when the library behaves as the property
    demands; default: observed == expected."""
    N[0] += 1
    kw = kw or {}
    observed = render(src, **kw)
    ok = check(observed) if check else (observed == expected)
    print("=" * 72)
    print("F%d. %s" % (N[0], title))
    print("  input    : %s" % src.replace("\n", "\n             "))
    if kw:
        print("  values   : %r" % (kw,))
    print("  observed : %s" % observed.replace("\n", "\n             "))
    print("  expected : %s" % expected)
    print("  -> %s" % ("as expected (NOT reproduced)" if ok else "VIOLATION"))
    return observed


# ---------------------------------------------------------------------------
case(
    "macro use overwrites a local that shadows a global "
    "(econtext.update(rcontext) after every macro call)",
    '<m metal:define-macro="m" tal:omit-tag="">M</m>'
    '<span tal:define="global x \'G\'" tal:omit-tag=""/>'
    '<div tal:define="x \'L\'">[${x}]'
    '<u metal:use-macro="template.macros[\'m\']"/>[${x}]</div>',
    'M<div>[L]M[L]</div>',
)

case(
    "same root cause with a tal:repeat variable (and an inline "
    "metal:define-macro, which is rendered in place through the same path)",
    '<span tal:define="global i 0" tal:omit-tag=""/>'
    '<li tal:repeat="i (1,2)" tal:omit-tag="">'
    '${i}<m metal:define-macro="m" tal:omit-tag="">-</m>${i};</li>',
    '1-1;\n2-2;',
    check=lambda o: o.replace("\n", "") == '1-1;2-2;',
)

case(
    "a global redefined inside an element that shadows it locally is "
    "thrown away when the local ends (stale backup is restored)",
    '<span tal:define="global x 1" tal:omit-tag=""/>'
    '<div tal:define="x 2"><span tal:define="global x 3" tal:omit-tag=""/>'
    '</div>[${x}]',
    '<div></div>[3]',
)

case(
    "same with an initial binding (keyword argument) instead of a first "
    "global define; without the initial binding the result is [3]",
    '<div tal:define="x 2"><span tal:define="global x 3" tal:omit-tag=""/>'
    '</div>[${x}]',
    '<div></div>[3]',
    kw={'x': 1},
)

case(
    "global defined in a slot filler is not visible in the rest of the "
    "macro (only again after the macro returned)",
    '<m metal:define-macro="m" tal:omit-tag="" tal:condition="False"/>'
    '<u metal:use-macro="mt.macros[\'m\']">'
    '<f metal:fill-slot="s" tal:define="global g 7">fill</f></u>'
    ' after-macro:[${g | \'undef\'}]',
    "<f>fill</f> rest-of-macro:[7] after-macro:[7]",
    kw={'mt': PageTemplate(
        '<m metal:define-macro="m" tal:omit-tag="">'
        '<s metal:define-slot="s"/> rest-of-macro:[${g | \'undef\'}]</m>')},
)

for name in ("translate", "decode", "on_error_handler"):
    case(
        "documented-reserved/engine helper name %r is accepted by "
        "tal:define but the variable is never visible" % name,
        '<div tal:define="%s 42">${%s}</div>' % (name, name),
        "<div>42</div>  (or a compile-time TranslationError, as for "
        "econtext/rcontext)",
        check=lambda o: o == '<div>42</div>' or 'TranslationError' in o,
    )

case(
    "'attrs' is accepted by tal:define but always hidden by the "
    "per-element alias",
    '<div tal:define="attrs 42">${attrs}</div>',
    "<div>42</div> or compile-time rejection",
    check=lambda o: o == '<div>42</div>' or 'TranslationError' in o,
)

case(
    "a variable named 'repeat' breaks every tal:repeat inside its scope "
    "(generated code does getname('repeat'))",
    '<div tal:define="repeat 42"><i tal:repeat="x (1,2)">${x}</i></div>',
    "<div><i>1</i>\n<i>2</i></div> or compile-time rejection",
    check=lambda o: '<i>1</i>' in o or 'TranslationError' in o,
)

case(
    "i18n:target overwrites (and afterwards resets to the render-time "
    "language) a user variable called target_language",
    '<div tal:define="target_language \'mine\'">'
    '<span i18n:target="\'de\'">x</span>[${target_language}]</div>',
    "<div><span>x</span>[mine]</div>",
)

case(
    "tal:on-error overwrites a user variable called 'error' and never "
    "restores it (the enter/leave generators in visit_OnError are "
    "created but never consumed)",
    '<div tal:define="error \'mine\'">'
    '<p tal:on-error="string:oops" tal:content="1/0"/>[${error}]</div>',
    "<div><p>oops</p>[mine]</div>",
)

case(
    "... and 'error' stays defined for the rest of the rendering",
    '<p tal:on-error="string:oops" tal:content="1/0"/>'
    '[${error is not None | \'undef\'}]',
    "<p>oops</p>[undef]",
)

case(
    "comprehension loop variables are stored in the template variable "
    "environment: they overwrite a tal:define'd variable",
    '<div tal:define="x \'outer\'">${[x for x in range(3)]} [${x}]</div>',
    "<div>[0, 1, 2] [outer]</div>",
)

case(
    "... and introduce variables that never go out of scope",
    '<div>${[i for i in range(3)]}</div>[${i | \'undef\'}]',
    "<div>[0, 1, 2]</div>[undef]",
)

case(
    "a parameter name of a function defined in a <?python ?> block is "
    "treated as a Python local in every later expression of the "
    "template: a tal:define'd variable of that name is invisible",
    '<?python def f(a): return a * 2 ?>'
    '<div tal:define="a 3">${f(4)} [${a}]</div>',
    "<div>8 [3]</div>",
)

case(
    "same for import aliases: tal:define after the import is ignored",
    '<?python import os.path as p ?><div tal:define="p 3">[${p}]</div>',
    "<div>[3]</div>",
)

case(
    "reserved names are not rejected in code blocks: econtext",
    '<?python econtext = {} ?><div tal:define="x 1">${x}</div>',
    "compile-time TranslationError (Name disallowed by compiler)",
    check=lambda o: 'TranslationError' in o,
)

case(
    "reserved names are not rejected in code blocks: double underscore",
    '<?python __x = 5 ?>${__x}',
    "compile-time TranslationError (double underscore)",
    check=lambda o: 'TranslationError' in o,
)

case(
    "reserved helper can be clobbered from a code block",
    '<?python translate = None ?><div i18n:translate="">hello</div>',
    "compile-time rejection, or <div>hello</div>",
    check=lambda o: 'TranslationError' in o or o == '<div>hello</div>',
)

case(
    "the same name twice in one unpacking define: restored twice, "
    "KeyError when the element ends",
    '<div tal:define="(x, x) (1, 2)">${x}</div>',
    "<div>2</div> (or a compile-time error)",
    check=lambda o: o == '<div>2</div>' or 'TranslationError' in o
    or 'LanguageError' in o,
)

case(
    "same for tal:repeat",
    '<div tal:repeat="(a, a) ((1, 2),)">${a}</div>',
    "<div>2</div> (or a compile-time error)",
    check=lambda o: o == '<div>2</div>' or 'TranslationError' in o
    or 'LanguageError' in o,
)

case(
    "hyphenated names (allowed by tal.NAME) work as global but a local "
    "define/repeat produces syntactically invalid generated code",
    '<div tal:define="global foo-bar 1">a</div>'
    '<div tal:define="foo-bar 1">b</div>',
    "<div>a</div><div>b</div> (or a proper compile-time rejection of both)",
    check=lambda o: o == '<div>a</div><div>b</div>'
    or 'TranslationError' in o or 'LanguageError' in o,
)

case(
    "(borderline, expression-level) an inner lambda does not see the "
    "parameters of the enclosing lambda; a template variable of the "
    "same name is used instead",
    '<div tal:define="x 100">${(lambda x: (lambda z: x + z))(5)(1)}</div>',
    "<div>6</div>",
)

case(
    "(borderline, slot environment) a slot filler offered to a macro "
    "that has no such slot stays in the variable environment and fills "
    "the slot of a later, unrelated macro use",
    '<u metal:use-macro="mt.macros[\'m1\']">'
    '<f metal:fill-slot="x">STALE</f></u>'
    '<u metal:use-macro="mt.macros[\'m2\']"/>',
    "<m1>M1</m1><m2>[<s>default</s>]</m2>",
    kw={'mt': PageTemplate(
        '<r><m1 metal:define-macro="m1">M1</m1>'
        '<m2 metal:define-macro="m2">[<s metal:define-slot="x">default</s>]'
        '</m2></r>')},
)

# ---------------------------------------------------------------------------
N[0] += 1
print("=" * 72)
print("F%d. Scope: set_global() of a name that existed when the scope was "
      "copied is invisible in that copy" % N[0])
root = Scope()
root['a'] = 1
copy = root.copy()          # what a macro call gets
copy.set_global('a', 3)     # 'global' definition, no local 'a' was ever set
print("  input    : root=Scope(); root['a']=1; copy=root.copy(); "
      "copy.set_global('a', 3); copy['a']")
print("  observed : copy['a'] == %r   (root['a'] == %r, fresh copy sees %r)"
      % (copy['a'], root['a'], root.copy()['a']))
print("  expected : 3 (no local definition of 'a' exists in the copy)")
print("  -> %s" % ("VIOLATION" if copy['a'] != 3
                   else "as expected (NOT reproduced)"))
