"""Reproduces the findings of findings.json (run with PYTHONPATH=/tmp/wth2_C18/src)."""
from chameleon import PageTemplate

TAL = "http://xml.zope.org/namespaces/tal"
METAL = "http://xml.zope.org/namespaces/metal"


def render(source, **options):
    try:
        return PageTemplate(source, **options)()
    except Exception as e:
        return "EXC:%s: %s" % (type(e).__name__, str(e).split("\n")[0])


def show(n, source, expected, **options):
    out = render(source, **options)
    print("[%d] %s %r" % (n, source, options))
    print("     observed: %r" % out)
    print("     expected: %s" % expected)
    return out


# 1 -- undeclared prefixes on a tal: element, restricted_namespace=False
show(1, '<tal:block v:content="a" w:content="b" content="\'ok\'">x</tal:block>',
     "'ok'", restricted_namespace=False)
show(1, '<tal:block v:content="a" content="\'ok\'">x</tal:block>',
     "'ok' (control: one foreign attribute only)", restricted_namespace=False)

# 2 -- duplicate statement, one spelled as a data attribute
show(2, '<div tal:content="1" tal:content="2">a</div>',
     "LanguageError (control)", enable_data_attributes=True)
show(2, '<div tal:content="1" data-tal-content="2">a</div>',
     "LanguageError", enable_data_attributes=True)
show(2, '<div data-tal-content="1" tal:content="2">a</div>',
     "LanguageError", enable_data_attributes=True)
show(2, '<div data-tal-content="1" data-tal-content="2">a</div>',
     "LanguageError", enable_data_attributes=True)
show(2, '<tal:block content="1" data-tal-content="2">a</tal:block>',
     "LanguageError", enable_data_attributes=True)

# 3 (borderline) -- attribute names that are not XML names
show(3, '<div><input [value]="x" tal:attributes="value 1"></div>',
     "no tal:attributes in the output", restricted_namespace=False)
show(3, '<input (click)="x" tal:attributes="value 1"/>',
     "no tal:attributes in the output", restricted_namespace=False)

# 4 (borderline) -- one template prefix is a hyphen-prefix of another
show(4, '<div xmlns:m="%s" xmlns:m-x="%s" m:content="1" '
     'm-x:define-macro="k">a</div>' % (TAL, METAL),
     "'<div>1</div>' (control)", enable_data_attributes=True)
show(4, '<div xmlns:m="%s" xmlns:m-x="%s" data-m-content="1" '
     'data-m-x-define-macro="k">a</div>' % (TAL, METAL),
     "'<div>1</div>'", enable_data_attributes=True)

# 5 (borderline) -- dynamic attribute names in a template namespace
show(5, '<div tal:attributes="tal:content 1">a</div>', "no tal: attribute")
show(5, '<div tal:attributes="python:{\'tal:content\': 1}">a</div>',
     "no tal: attribute")

# 6 (borderline) -- foreign declaration on a dropped tag
show(6, '<tal:block xmlns:f="urn:f"><f:a/></tal:block>',
     "(declaration of f is lost with the tag)")
