"""Reproduces the C18 findings (see findings.json).

Run as:  PYTHONPATH=/tmp/wth_C18/src /venv/bin/python repro.py
"""
from chameleon import PageTemplate

TAL = "http://xml.zope.org/namespaces/tal"


def render(src, opts=None, **values):
    try:
        return PageTemplate(src, **(opts or {})).render(**values)
    except Exception as exc:  # noqa
        msg = str(exc).strip().splitlines()
        return "EXC %s: %s" % (type(exc).__name__, msg[0] if msg else "")


def case(title, src, expected, opts=None, **values):
    observed = render(src, opts, **values)
    verdict = "VIOLATION" if observed != expected else "ok (not reproduced)"
    print("  input    : %r" % src)
    if opts:
        print("  options  : %r" % opts)
    print("  observed : %r" % observed)
    print("  expected : %r" % expected)
    print("  -> %s" % verdict)
    print()
    return observed != expected


def header(text):
    print("=" * 78)
    print(text)
    print("=" * 78)


results = {}

# ---------------------------------------------------------------------------
header("F1  two attributes with the same (namespace, local name) key "
       "(lang + xml:lang, id + xml:id, x + a:x on <a:el>) shift the drop "
       "list: a TAL attribute / xmlns declaration leaks, a foreign one is lost")
r = []
r.append(case(
    "lang + xml:lang, tal:define",
    '<html lang="en" xml:lang="en" tal:define="x 1">${x}</html>',
    '<html lang="en" xml:lang="en">1</html>'))
r.append(case(
    "lang + xml:lang, TAL xmlns declaration",
    '<html lang="en" xml:lang="en" xmlns:tal="%s">x</html>' % TAL,
    '<html lang="en" xml:lang="en">x</html>'))
r.append(case(
    "id + xml:id, renamed prefix",
    '<div id="a" xml:id="a" xmlns:t="%s" t:content="\'c\'">d</div>' % TAL,
    '<div id="a" xml:id="a">c</div>'))
r.append(case(
    "well-formed XML: unprefixed x and a:x on an element a:div",
    '<a:div xmlns:a="urn:foo" x="1" a:x="2" tal:content="\'c\'">d</a:div>',
    '<a:div xmlns:a="urn:foo" x="1" a:x="2">c</a:div>'))
r.append(case(
    "data-attribute spelling of the first case: xml:lang is lost",
    '<div lang="en" xml:lang="en" data-tal-content="\'c\'">d</div>',
    '<div lang="en" xml:lang="en">c</div>',
    dict(enable_data_attributes=True)))
r.append(case(
    "unrestricted mode, undeclared prefix (Vue style)",
    '<a title="t" v-bind:title="x" tal:condition="True">y</a>',
    '<a title="t" v-bind:title="x">y</a>',
    dict(restricted_namespace=False)))
results["F1"] = any(r)

# ---------------------------------------------------------------------------
header("F2  namespace declarations of an element that contains an unclosed "
       "(void) tag stay in scope after the element is closed")
r = []
r.append(case(
    "foreign re-binding of 'tal' on <p> leaks to the following sibling: "
    "its tal:content is no longer a statement and is printed",
    '<div><p xmlns:tal="urn:x-other"><br></p>'
    '<span tal:content="\'x\'">y</span></div>',
    '<div><p xmlns:tal="urn:x-other"><br></p><span>x</span></div>'))
print("  (control: same template with <br/> instead of <br>)")
case(
    "control",
    '<div><p xmlns:tal="urn:x-other"><br/></p>'
    '<span tal:content="\'x\'">y</span></div>',
    '<div><p xmlns:tal="urn:x-other"><br/></p><span>x</span></div>')
r.append(case(
    "default-namespace declaration leaks: an ordinary <span> that follows "
    "loses its tag",
    '<div><p xmlns="%s"><br></p><span>y</span></div>' % TAL,
    '<div><span>y</span></div>'))
r.append(case(
    "prefix t bound only inside <p>; the later t:content is an undeclared, "
    "foreign attribute (unrestricted mode) and must be preserved",
    '<div><p xmlns:t="%s" t:content="\'a\'"><br></p>'
    '<span t:content="\'leak\'">y</span></div>' % TAL,
    '<div><p>a</p><span t:content="\'leak\'">y</span></div>',
    dict(restricted_namespace=False)))
results["F2"] = any(r)

# ---------------------------------------------------------------------------
header("F3  restricted_namespace=False: an attribute with an undeclared "
       "prefix on an element of a template namespace is executed as a "
       "statement of that namespace")
r = []
r.append(case(
    "foo:condition acts as tal:condition",
    '<tal:block foo:condition="nothing">visible</tal:block>',
    'visible',
    dict(restricted_namespace=False)))
r.append(case(
    "foo:bar is rejected as a bad TAL attribute",
    '<tal:block foo:bar="1">visible</tal:block>',
    'visible',
    dict(restricted_namespace=False)))
results["F3"] = any(r)

# ---------------------------------------------------------------------------
header("F4  data-<prefix>-<name> is not recognised when the prefix bound to "
       "the template namespace contains a hyphen")
r = []
print("  (control: the same prefix in colon form, and a hyphen-less prefix "
      "in data form)")
case("control colon form",
     '<div xmlns:my-t="%s" my-t:content="v">x</div>' % TAL,
     '<div>1</div>', dict(enable_data_attributes=True), v=1)
case("control data form, prefix t",
     '<div xmlns:t="%s" data-t-content="v">x</div>' % TAL,
     '<div>1</div>', dict(enable_data_attributes=True), v=1)
r.append(case(
    "data form with prefix my-t",
    '<div xmlns:my-t="%s" data-my-t-content="v">x</div>' % TAL,
    '<div>1</div>', dict(enable_data_attributes=True), v=1))
results["F4"] = any(r)

header("summary")
for key in sorted(results):
    print("%s: %s" % (key, "reproduced" if results[key] else "NOT reproduced"))
