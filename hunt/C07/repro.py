"""Reproduces the C07 (attribute rendering) findings.

Run as:  PYTHONPATH=/tmp/wth_C07/src /venv/bin/python repro.py
"""
from chameleon import PageTemplate
from chameleon.tales import DEFAULT_MARKER

N = [0]


def show(title, src, expected, _kw=None, **ctx):
    try:
        got = PageTemplate(src, **(_kw or {})).render(**ctx)
    except Exception as e:  # noqa
        msg = str(e).splitlines()[0] if str(e) else ''
        got = 'EXCEPTION %s: %s' % (type(e).__name__, msg)
    flag = 'VIOLATION' if got != expected else 'ok (not reproduced)'
    print('  template : %r' % src)
    if _kw:
        print('  options  : %r' % _kw)
    if ctx:
        print('  values   : %r' % ctx)
    print('  observed : %r' % got)
    print('  expected : %r   [%s]' % (expected, flag))
    print()


def head(title):
    N[0] += 1
    print('=' * 78)
    print('F%d. %s' % (N[0], title))
    print('=' * 78)


head('lang + xml:lang (ns_attrs key collision): static attribute lost, '
     'tal:attributes leaks into the output')
show('', '<html lang="en" xml:lang="en" tal:attributes="lang l">x</html>',
     '<html lang="da" xml:lang="en">x</html>', l='da')
show('', '<html lang="en" xml:lang="en" class="c" tal:attributes="class l">x</html>',
     '<html lang="en" xml:lang="en" class="da">x</html>', l='da')
show('', '<a foo:b="1" b="2" tal:attributes="c v"/>',
     '<a foo:b="1" b="2" c="x"/>', {'restricted_namespace': False}, v='x')

head('unquoted static attribute replaced by a dynamic value: &#0; garbage, '
     'nothing protects spaces')
show('', '<a href=s tal:attributes="href v">t</a>',
     '<a href="a&amp;b">t</a>', v='a&b')
show('', '<a href=s tal:attributes="href v">t</a>',
     '<a href="x y">t</a>', v='x y')
show('', '<a href=${v}>t</a>', '<a href="a&amp;b">t</a>', v='a&b')

head('minimized static attribute replaced by a dynamic value: name and '
     'value are glued together')
show('', '<input checked tal:attributes="checked v"/>',
     '<input checked="checked"/>', v=True)
show('', '<a download tal:attributes="download v">t</a>',
     '<a download="f.txt">t</a>', v='f.txt')

head('a static attribute overridden by an attribute dictionary loses its '
     'position')
show('', '<a a="1" b="2" tal:attributes="d"/>', '<a a="A" b="2"/>',
     d={'a': 'A'})

head('dictionary keys are matched case-sensitively: the same attribute is '
     'rendered twice')
show('', '<a href="s" tal:attributes="d"/>', '<a href="d"/>',
     d={'HREF': 'd'})
show('', '<a tal:attributes="d; href w"/>', '<a href="w"/>',
     d={'HREF': 'd'}, w='w')

head('boolean configuration is matched case-sensitively against the '
     'spelling used: false values do not disappear')
show('', '<input checked="checked" tal:attributes="CHECKED v"/>',
     '<input/>', v=False)
show('', '<input CHECKED="${v}"/>', '<input/>', v=False)
show('', '<input checked="checked" tal:attributes="d"/>', '<input/>',
     d={'CHECKED': 0})

head("'default' as a value inside an attribute dictionary")
show('', '<a a="1" b="2" tal:attributes="python:{\'a\': default}"/>',
     '<a a="1" b="2"/>')
show('', '<a a="1" b="2" tal:attributes="d"/>', '<a a="1" b="2"/>',
     d={'a': DEFAULT_MARKER})

head("'default' on a static attribute with ${} / $$ renders the raw "
     "template source")
show('', '<a href="${v}" tal:attributes="href default"/>',
     '<a href="x"/>', v='x')
show('', '<input checked="${v}" tal:attributes="checked default"/>',
     '<input/>', v=False)
print('  (compare: without tal:attributes the same static attribute gives)')
show('', '<a href="a$$b"/>', '<a href="a$b"/>')
show('', '<a href="a$$b" tal:attributes="href default"/>', '<a href="a$b"/>')

head('the expression of a tal:attributes entry is entity-decoded twice')
show('', '<a tal:attributes="title string:&amp;lt;" tal:content="string:&amp;lt;"/>',
     '<a title="&amp;lt;">&amp;lt;</a>')
show('', '<a tal:attributes="title v == \'&amp;amp;\'"/>',
     '<a title="True"/>', v='&amp;')

head("split_parts treats '&word;' in the (already decoded) clause as an "
     "entity: the separator / the ';;' escape after it is misread")
show('', '<a tal:attributes="href string:?a&amp;b; id x"/>',
     '<a href="?a&amp;b" id="X"/>', x='X')
show('', '<a tal:attributes="href string:?a=1&amp;b;;c"/>',
     '<a href="?a=1&amp;b;c"/>')

head('static attributes differing only in case: the statement replaces the '
     'wrong one and the name is rendered twice')
show('', '<a A="1" a="2" tal:attributes="A v"/>', '<a A="x" a="2"/>', v='x')
show('', '<a href="1" HREF="2" tal:attributes="href v"/>',
     '<a href="x" HREF="2"/>', v='x')

head('two attribute dictionaries in one statement are rejected as a '
     '"duplicate attribute name"')
show('', '<a tal:attributes="d1; d2"/>', '<a a="1" b="2"/>',
     d1={'a': 1}, d2={'b': 2})

head('i18n:attributes with an explicit message id renders the attribute '
     'although the dynamic value is None')
show('', '<a title="t" i18n:attributes="title m" tal:attributes="title v"/>',
     '<a/>', v=None)

head("a dictionary entry written 'python: {...}' becomes an attribute "
     "named 'python:'")
show('', '<a a="1" tal:attributes="python: {\'a\': 2}"/>', '<a a="2"/>')
