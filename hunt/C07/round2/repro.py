"""Reproduces the C07 findings of the second audit round (see findings.json).

Run:  PYTHONPATH=/tmp/wth2_C07/src /venv/bin/python repro.py
"""
from chameleon import PageTemplate


def render(src, opts=None, **kw):
    try:
        return PageTemplate(src, **(opts or {}))(**kw)
    except Exception as e:  # noqa
        return "EXC:%s: %s" % (type(e).__name__, (str(e).splitlines() or [''])[0])


def show(n, title, src, expected, opts=None, **kw):
    got = render(src, opts, **kw)
    print("[%s] %s" % (n, title))
    print("    source  :", src)
    if opts:
        print("    options :", {k: (v if not callable(v) else v.__name__) for k, v in opts.items()})
    if kw:
        print("    kwargs  :", kw)
    print("    observed:", got)
    print("    expected:", expected)
    print("    ->", "VIOLATION" if got != expected else "ok")
    print()


def tr(msgid, domain=None, mapping=None, context=None,
       target_language=None, default=None):
    if msgid is None:
        return None
    return "T(%s)" % (msgid,)


# 1 -- two attribute dictionaries in one statement
show(1, "two dictionaries in one tal:attributes are rejected as a duplicate name",
     '<a tal:attributes="d1; d2"/>', '<a a="1" b="2"/>',
     d1={'a': 1}, d2={'b': 2})
show(1, "(same, around a named entry)",
     '<a class="s" tal:attributes="d1; class c; d2"/>', '<a class="c" a="1" b="2"/>',
     d1={'a': 1}, d2={'b': 2}, c='c')

# 2 -- i18n:attributes names an attribute that only the dictionary supplies
show(2, "attribute listed in i18n:attributes hides the value the dictionary supplies",
     '<a i18n:attributes="title" tal:attributes="d"/>', '<a title="x"/>',
     {'translate': tr}, d={'title': 'x'})
show(2, "(same with the default translation function)",
     '<a i18n:attributes="title" tal:attributes="d"/>', '<a title="x"/>',
     d={'title': 'x'})
show(2, "(None in the dictionary does not remove it either)",
     '<a i18n:attributes="title" tal:attributes="d"/>', '<a/>',
     d={'title': None})

# 3 -- meta:interpolation="false" does not reach attributes
show(3, "static attribute is interpolated although interpolation is switched off",
     '<div meta:interpolation="false"><a title="${v}">${v}</a></div>',
     '<div><a title="${v}">${v}</a></div>', v=1)
show(3, "(boolean attribute disappears)",
     '<div meta:interpolation="false"><input checked="${v}"/></div>',
     '<div><input checked="${v}"/></div>', v=0)

# 4 -- statement given twice through the data- spelling
show(4, "data-tal-attributes silently replaces tal:attributes of the same element",
     '<a href="x" data-tal-attributes="href v" tal:attributes="id v"/>',
     'EXC:LanguageError: Statement given twice on the same element.',
     {'enable_data_attributes': True}, v=1)

# ---- borderline -----------------------------------------------------
show(5, "BORDERLINE dictionary keys that differ only in case are both rendered",
     '<a tal:attributes="d"/>', '<a CLASS="2"/>', d={'class': '1', 'CLASS': '2'})
show(6, "BORDERLINE static attribute written twice: only the first is replaced",
     '<a href="1" href="2" tal:attributes="href v"/>', '<a href="3"/>', v='3')
show(7, "BORDERLINE boolean attribute listed in i18n:attributes renders the translation",
     '<input checked="checked" i18n:attributes="checked" tal:attributes="checked v"/>',
     '<input checked="checked"/>', {'translate': tr}, v=1)
show(8, "BORDERLINE dictionary expression with a space is read as 'name expression'",
     '<a tal:attributes="dict(a=1, b=2)"/>', '<a a="1" b="2"/>')
show(9, "BORDERLINE on-error fallback tag omits static attributes that tal:attributes targets",
     '<a id="1" class="c" tal:attributes="id 1/0" tal:on-error="string:E">x</a>',
     '<a id="1" class="c">E</a>')

_seen = []


def tr2(msgid, domain=None, mapping=None, context=None,
        target_language=None, default=None):
    if msgid is None:
        return None
    _seen.append(msgid)
    return 'say "hi" <b> & co'


show(10, "BORDERLINE translated attribute: escaped msgid in, unescaped translation out",
     '<a title="Hello" i18n:attributes="title" tal:attributes="title v"/>',
     '<a title="say &quot;hi&quot; &lt;b&gt; &amp; co"/>',
     {'translate': tr2}, v='a<b "q"')
print("    msgid seen by the translation function:", _seen)
