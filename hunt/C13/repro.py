"""Reproduction of the C13 (tal:on-error) findings.

Run as:  PYTHONPATH=/tmp/wth_C13/src /venv/bin/python repro.py
"""
import re

from chameleon import PageTemplate

HANDLED = []


def handler(exc):
    HANDLED.append(exc)


def show(title, src, expected, render=None, note=None, **options):
    """Compile and render ``src``; print input, observed and expected."""
    del HANDLED[:]
    kwargs = options.pop('kwargs', {})
    print("=" * 72)
    print(title)
    print("-" * 72)
    print("input    :", src)
    if kwargs:
        print("variables:", ", ".join(sorted(kwargs)))
    if note:
        print("note     :", note)
    try:
        template = PageTemplate(src, on_error_handler=handler, **options)
        observed = repr(template(**kwargs))
    except Exception as exc:  # noqa
        first = (str(exc).splitlines() or [''])[0]
        observed = "raises %s(%s)" % (type(exc).__name__, first)
    print("observed :", observed, "| on_error_handler calls: %d" % len(HANDLED))
    print("expected :", expected)
    print()
    return observed


def catalog_translate(catalog):
    def translate(msgid, domain=None, mapping=None, context=None,
                  target_language=None, default=None):
        text = catalog.get(msgid, default if default is not None else msgid)
        if mapping:
            text = re.sub(
                r'\$\{(\w+)\}',
                lambda m: "%s" % (mapping.get(m.group(1), m.group(0)), ),
                text)
        return text
    return translate


def tracing_translate(msgid, domain=None, mapping=None, context=None,
                      target_language=None, default=None):
    return "[%s|domain=%s|context=%s|target=%s]" % (
        default if default is not None else msgid,
        domain, context, target_language)


SLOT_MACRO = PageTemplate(
    '<m metal:define-macro="m1">[<x metal:define-slot="s">default</x>]</m>')

# ---------------------------------------------------------------------------
# 1. The handler indexes __tokens[__token]; the token of the *calling*
#    function is None (or stale) when the failure comes out of a callee.
# ---------------------------------------------------------------------------
show(
    "1a. failure inside an in-template macro under an on-error element",
    '<div><p tal:on-error="string:E">'
    '<b metal:define-macro="m">${1/0}</b></p></div>',
    "'<div><p>E</p></div>' and one handler call",
)

show(
    "1b. on-error and define-macro on the same element, rendered in place",
    '<div><p metal:define-macro="m" tal:on-error="string:E">${1/0}</p></div>',
    "'<div><p>E</p></div>' and one handler call",
)

show(
    "1c. on-error around a define-slot, the slot filler fails "
    "(no expression evaluated in the macro before)",
    '<div><q metal:use-macro="M.macros[\'m\']">'
    '<b metal:fill-slot="s">${1/0}</b></q></div>',
    "'<div><p><u>E</u></p></div>' and one handler call",
    kwargs=dict(M=PageTemplate(
        '<p metal:define-macro="m"><u tal:on-error="string:E">'
        '<i metal:define-slot="s">d</i></u></p>')),
)

show(
    "1d. same, but an unrelated expression was evaluated before: the "
    "position is the one of the expression that succeeded",
    '<div><q metal:use-macro="M.macros[\'m\']">\n'
    '<b metal:fill-slot="s">\n\n   ${1/0}</b></q></div>',
    "error.lineno/offset describe the failing expression (line 4 of the "
    "calling template), not '${ok}' at 1:28 of the macro template",
    kwargs=dict(ok='fine', M=PageTemplate(
        '<p metal:define-macro="m">${ok}<u tal:on-error="string:'
        '${error.type.__name__}@${error.lineno}:${error.offset}">'
        '<i metal:define-slot="s">d</i></u></p>')),
)

# ---------------------------------------------------------------------------
# 2. on-error is dropped when the element is captured for METAL
# ---------------------------------------------------------------------------
show(
    "2a. tal:on-error on a metal:fill-slot element is ignored",
    '<div><q metal:use-macro="M.macros[\'m1\']">'
    '<b metal:fill-slot="s" tal:on-error="string:E">${1/0}</b></q></div>',
    "'<div><m>[<b>E</b>]</m></div>' and one handler call",
    kwargs=dict(M=SLOT_MACRO),
)

show(
    "2b. tal:on-error on a metal:define-macro element is not part of the "
    "macro when it is used from elsewhere",
    '<div><q metal:use-macro="M.macros[\'m\']"/></div>',
    "'<div><p class=\"c\">E</p></div>' and one handler call",
    kwargs=dict(M=PageTemplate(
        '<p class="c" metal:define-macro="m" tal:on-error="string:E">'
        'x${1/0}</p>')),
)

# ---------------------------------------------------------------------------
# 3. static attribute + dict-valued tal:attributes + on-error: no code
# ---------------------------------------------------------------------------
show(
    "3. static attribute, dict-valued tal:attributes and on-error",
    '<p class="a" tal:attributes="python:{\'id\': 1}" '
    'tal:on-error="string:E">${1/0}</p>',
    "'<p class=\"a\">E</p>' (the template compiles without tal:on-error)",
)

# ---------------------------------------------------------------------------
# 4. omit-tag with an expression: fallback never has the tag
# ---------------------------------------------------------------------------
show(
    "4. tal:omit-tag with a false expression: the tag is rendered "
    "normally but is missing from the fallback",
    '<p class="a" tal:omit-tag="python:False" tal:on-error="string:E">'
    '${1/0}</p>',
    "'<p class=\"a\">E</p>'",
)

# ---------------------------------------------------------------------------
# 5. i18n settings of the failed subtree stay in force
# ---------------------------------------------------------------------------
show(
    "5. i18n:domain / i18n:context / i18n:target of a failed subtree "
    "apply to what follows the element",
    '<div i18n:domain="d0"><p tal:on-error="string:E">'
    '<b i18n:domain="d1" i18n:context="c1" i18n:target="string:fr">'
    '${1/0}</b></p><i i18n:translate="">msg</i></div>',
    "'<div><p>E</p><i>[msg|domain=d0|context=None|target=None]</i></div>'",
    translate=tracing_translate,
)

# ---------------------------------------------------------------------------
# 6. slot fillers registered by a use-macro that failed before the macro
#    started are picked up by a later macro
# ---------------------------------------------------------------------------
show(
    "6. slot filler of a failed use-macro shows up in a later use-macro",
    '<div><p tal:on-error="string:E">'
    '<q metal:use-macro="M.macros[missing]">'
    '<y metal:fill-slot="s">STALE</y></q></p>'
    '<q metal:use-macro="M.macros[\'m1\']"/></div>',
    "'<div><p>E</p><m>[<x>default</x>]</m></div>'",
    kwargs=dict(M=SLOT_MACRO),
)

# ---------------------------------------------------------------------------
# 7. 'error' is never restored / removed
# ---------------------------------------------------------------------------
show(
    "7. the caller's variable 'error' is overwritten for the rest of "
    "the template",
    '<div><i tal:content="error"/><p tal:on-error="string:E">${1/0}</p>'
    '<i tal:content="error.__class__.__name__"/></div>',
    "'<div><i>mine</i><p>E</p><i>str</i></div>'",
    kwargs=dict(error='mine'),
)

# ---------------------------------------------------------------------------
# 8. slot filler called from a translation block of the macro
# ---------------------------------------------------------------------------
show(
    "8. on-error inside a slot filler, the slot sits in an i18n:translate "
    "block of the macro: the partial output survives",
    '<div>A<q metal:use-macro="M.macros[\'m\']"><u metal:fill-slot="s">'
    'x<em tal:on-error="string:E">partial ${1/0}</em>y</u></q>Z</div>',
    "exactly one '<em>E</em>' and no dangling '<em>' in front of it",
    kwargs=dict(M=PageTemplate(
        '<p metal:define-macro="m" i18n:translate="">Hi '
        '<i metal:define-slot="s">d</i>!</p>')),
)

# ---------------------------------------------------------------------------
# 9. on-error and i18n:name on the same element
# ---------------------------------------------------------------------------
SRC9 = ('<p i18n:translate="">Hello <b i18n:name="n" '
        'tal:on-error="string:E">${v}${1/d}</b>!</p>')
CATALOG = {'Hello ${n}!': 'Bonjour ${n}!'}
show(
    "9a. (reference, no failure)", SRC9,
    "'<p>Bonjour <b>ok1.0</b>!</p>'",
    translate=catalog_translate(CATALOG), kwargs=dict(v='ok', d=1),
)
show(
    "9b. failure inside the named element: the text around the element "
    "loses its translation",
    SRC9,
    "'<p>Bonjour <b>E</b>!</p>'",
    translate=catalog_translate(CATALOG), kwargs=dict(v='ok', d=0),
)


def spy(msgid, domain=None, mapping=None, context=None,
        target_language=None, default=None):
    return "msgid=%r mapping=%r" % (msgid, mapping)


show(
    "9c. what the translation function receives in case 9b",
    SRC9,
    "msgid 'Hello ${n}!' and mapping {'n': '<b>E</b>'}",
    translate=spy, kwargs=dict(v='ok', d=0),
)

# ---------------------------------------------------------------------------
# 10. translated static attributes are missing from the fallback tag
# ---------------------------------------------------------------------------
show(
    "10a. (reference, no failure)",
    '<p title="abc" class="k" i18n:attributes="title" '
    'tal:on-error="string:E">${1/d}</p>',
    "'<p title=\"ABC\" class=\"k\">1.0</p>'",
    translate=catalog_translate({'abc': 'ABC'}), kwargs=dict(d=1),
)
show(
    "10b. static attribute marked with i18n:attributes disappears from "
    "the fallback start tag",
    '<p title="abc" class="k" i18n:attributes="title" '
    'tal:on-error="string:E">${1/d}</p>',
    "'<p title=\"ABC\" class=\"k\">E</p>' (or at least title=\"abc\")",
    translate=catalog_translate({'abc': 'ABC'}), kwargs=dict(d=0),
)
