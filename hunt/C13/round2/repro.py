"""C13 second-round findings -- run with PYTHONPATH=/tmp/wth2_C13/src /venv/bin/python repro.py

Each block prints the observed result at HEAD and the expected one.
"""
from chameleon import PageTemplate


def run(source, options=None, **kwargs):
    try:
        return PageTemplate(source, **(options or {}))(**kwargs)
    except Exception as e:
        return "EXC:" + type(e).__name__


def check(n, title, observed, expected):
    print("#%d %s" % (n, title))
    print("   observed: %r" % (observed,))
    print("   expected: %r" % (expected,))
    print("   ->", "DEFECT" if observed != expected else "ok")


# 1 -- filler defined inside a translation block of the caller
src1 = (
    '<p metal:define-macro="m" tal:condition="go|nothing" i18n:translate="">'
    'M(<u tal:on-error="string:E"><i metal:define-slot="s">d</i></u>)</p>'
    '<div i18n:translate="">a<x tal:define="go 1" '
    'metal:use-macro="template.macros[\'m\']">'
    '<b metal:fill-slot="s">f${1/0}</b></x>c</div>z'
)
check(1, "filler inside the caller's translation block: partial output "
      "survives the macro's on-error",
      run(src1), '<div>a<p>M(<u>E</u>)</p>c</div>z')

# 2 -- on-error on a filler whose first action is a nested slot that fails
src2 = (
    '<p metal:define-macro="m1" tal:condition="go|nothing">'
    'M1(<i metal:define-slot="s">d</i>)</p>'
    '<metal:m define-macro="m2" tal:condition="go|nothing">'
    '<q metal:use-macro="template.macros[\'m1\']">'
    '<b metal:fill-slot="s" tal:on-error="string:E">'
    '<i metal:define-slot="t">dt</i>${go}</b></q></metal:m>'
    '<x tal:define="go 1" metal:use-macro="template.macros[\'m2\']">'
    '<k metal:fill-slot="t">${1/0}</k></x>z'
)
check(2, "on-error on a slot filler, failure in a nested slot before any "
      "expression of the filler: UnboundLocalError",
      run(src2), '<p>M1(<b>E</b>)</p>z')


# 3 -- i18n:domain / context / target leak out of the failed element
def tr(msgid, domain=None, mapping=None, context=None,
       target_language=None, default=None):
    return "%s@%s/%s/%s" % (
        default if default is not None else msgid,
        domain, context, target_language)


for attr, exp in (('i18n:domain="x"', None), ('i18n:context="x"', None),
                  ('i18n:target="string:de"', None)):
    src3 = ('<div tal:on-error="string:E"><span %s>${1/0}</span></div>'
            '<p i18n:translate="">msg</p>' % attr)
    check(3, "%s of the failed subtree still in force after recovery" % attr,
          run(src3, dict(translate=tr)),
          '<div>E</div><p>msg@None/None/None</p>')

# 4 -- static attributes missing from the fallback tag
check(4, "static attribute overridden by tal:attributes dropped from "
      "the fallback tag",
      run('<p class="a" tal:attributes="class x" tal:on-error="string:E">'
          '${1/0}</p>z', x='b'),
      '<p class="a">E</p>z')
check(4, "static attribute with i18n:attributes dropped from the fallback "
      "tag",
      run('<p title="hello" i18n:attributes="title" '
          'tal:on-error="string:E">${1/0}</p>z'),
      '<p title="hello">E</p>z')
check(4, "static attribute translated implicitly dropped from the fallback "
      "tag",
      run('<p title="hello" tal:on-error="string:E">${1/0}</p>z',
          dict(implicit_i18n_translate=True,
               implicit_i18n_attributes={'title'})),
      '<p title="hello">E</p>z')

# 5 -- error.lineno / error.offset are None for a macro rendered in place
check(5, "error.lineno/offset undefined when the failure comes out of a "
      "macro rendered in place",
      run('<div tal:on-error="string:${error.lineno}:${error.offset}">\n'
          '<p metal:define-macro="m">${1/0}</p></div>'),
      '<div>2:28</div>')


# 6 (borderline) -- named part of a discarded element reaches the mapping
seen = []


def tr6(msgid, mapping=None, default=None, **kw):
    seen.append(dict(mapping or {}))
    return default if default is not None else msgid


run('<p i18n:translate="">a<span tal:on-error="string:E">'
    'foo <b i18n:name="n">x${1/0}</b></span>c</p>', dict(translate=tr6))
check(6, "(borderline) partial output of a discarded i18n:name element is "
      "passed to the translation function in the mapping (as a list)",
      seen, [{}])

# 7 (borderline) -- handler of the template that owns the macro is ignored
calls = []
B = PageTemplate(
    '<p metal:define-macro="m" tal:on-error="string:E">${1/0}</p>',
    on_error_handler=calls.append)
A = PageTemplate('<x metal:use-macro="m"/>')
A(m=B.macros['m'])
check(7, "(borderline) on_error_handler configured on the template that "
      "holds the macro (and its on-error) is not called when the macro "
      "is used from a template without handler",
      len(calls), 1)
