"""Reproduces every finding of findings.json (property C11).

Run as:  PYTHONPATH=/tmp/wth_C11/src /venv/bin/python repro.py
"""
from chameleon import PageTemplate
from chameleon import PageTextTemplate
from chameleon.exc import TemplateError


def compile_(src, cls=PageTemplate, **kw):
    """Return a description of what compiling ``src`` does."""
    try:
        t = cls(src, **kw)
    except TemplateError as e:
        tok = str(e.token)
        off = e.offset
        sl = src[off:off + len(tok)]
        return ("%s(%r) token=%r offset=%d location=%r "
                "source[offset:offset+len(token)]=%r -> %s" % (
                    type(e).__name__, e.args[0], tok, off, e.location, sl,
                    "EXACT" if sl == tok else "MISMATCH"), None)
    except Exception as e:  # not a TemplateError
        return ("%s: %s  (NOT a TemplateError)" % (
            type(e).__name__, (str(e).splitlines() or [''])[0]), None)
    return ("compiles without error", t)


def show(title, src, expected, cls=PageTemplate, render=None, **kw):
    observed, t = compile_(src, cls, **kw)
    print("  input   :", repr(src))
    print("  observed:", observed)
    if t is not None and render is not None:
        try:
            print("  rendered:", repr(t.render(**render)))
        except Exception as e:
            print("  render raised:", type(e).__name__)
    print("  expected:", expected)
    print()


def section(n, title):
    print("=" * 78)
    print("%d. %s" % (n, title))
    print("=" * 78)


section(1, "';;' escape: tokens of the part are cut from the unescaped text")
show("", '<p tal:define="x \'a;;b\' | ][">x</p>',
     "token '][' at offset 26 (column 26)")
show("", '<p tal:attributes="style \'a;;b\' | ][">x</p>',
     "token '][' at offset 34")
show("", '<p tal:define="x 1; y string:a;;b ${][}">x</p>',
     "token '][' at offset 36")
show("", '<p tal:define="x \'a;;b\' + ][">x</p>',
     "a token that is a substring of the source, e.g. \"'a;;b' + ][\"")

section(2, "multi-line Python expression: token is the flattened text; "
           "a comment in it makes a valid expression fail")
show("", '<p tal:content="1 +\n  ][">x</p>',
     "token equal to source[16:24] == '1 +\\n  ]['")
show("", '<p tal:content="1 + \\\n ][">x</p>',
     "token equal to the source slice (here the lengths differ as well)")
show("", '<p tal:define="x [1,  # one\n 2]">${x}</p>',
     "valid template (Python evaluates '[1,  # one\\n 2]' to [1, 2]): "
     "must compile", render={})

section(3, "escaped pipe '\\|': token is the unescaped text")
show("", '<p tal:content="\'a\\|b\' + ][">x</p>',
     "token equal to source[16:27] == \"'a\\\\|b' + ][\"")

section(4, "${...} interpolation: expression is entity-decoded before it is "
           "parsed (also where entities mean nothing)")
show("", '<p>${a &lt; b | ][}</p>', "token '][' at offset 16")
show("", '<!-- ${a &lt; b | ][} -->', "token '][' at offset 18")
show("", "${'&#39;'}",
     "valid text template (renders &#39;): must compile",
     cls=PageTextTemplate, render={})
show("", "<![CDATA[${'&#39;'}]]>",
     "valid template (no entities inside CDATA): must compile", render={})

section(5, "tal:attributes expression is entity-decoded twice")
show("", '<p tal:attributes="title \'&amp;#39;\'">x</p>',
     "valid template (expression is the string '&#39;'): must compile, as "
     "tal:content=\"'&amp;#39;'\" does", render={})
show("(control)", '<p tal:content="\'&amp;#39;\'">x</p>', "compiles",
     render={})

section(6, "entity protection of ';' runs on the decoded value: a&b; is "
           "taken for an entity")
show("", '<p tal:define="x a&amp;b; y 2">${x} ${y}</p>',
     "valid template (x = a & b, y = 2): must compile",
     render=dict(a=3, b=1))
show("", '<p tal:attributes="class a&amp;b; id 2">x</p>',
     "valid template: must compile", render=dict(a=3, b=1))

section(7, "expression type prefix: unknown type raises LookupError; "
           "'lambda:' is taken for a type prefix")
show("", '<p>\n  <b tal:content="foo:bar">x</b></p>',
     "TemplateError with token 'foo' (or 'foo:bar') at line 2")
show("", '<p>${a | nosuch: b}</p>', "TemplateError located at 'nosuch'")
show("", '<p tal:define="f lambda: 1">${f()}</p>',
     "valid Python expression: must compile", render={})

section(8, "tal:repeat argument is parsed as a ';'-separated define list")
show("", '<p tal:repeat="x 1; y 2">x</p>',
     "TemplateError located in the attribute value")
show("", '<p tal:repeat="c \'a;b\'">${c}</p>',
     "valid per the reference (argument ::= variable_name expression): "
     "must compile", render={})

section(9, "undefined namespace prefix (e.g. a misspelt 'tal') raises "
           "KeyError")
show("", '<p>\n <b tla:content="x">y</b></p>',
     "TemplateError with token 'tla' / 'tla:content' at line 2")

section(10, "end tag without a name raises AttributeError")
show("", '<p>a </ b</p>', "ParseError with token '</' at offset 5 "
     "(or the text is passed through like a lone '<')")
show("", '<p>a </></p>', "ParseError with token '</>' at offset 5")

section(11, "<?python ?> block with a syntax error raises a bare "
            "SyntaxError")
show("", '<p>x</p>\n<?python x = ?>', "TemplateError located on line 2")
show("", '<?python\n  x = 1\n y = 2 ?>', "TemplateError (or accepted)")

section(12, "expression errors that only the byte-code compiler detects")
show("", '<p>\n <b tal:content="f(x=1, x=2)">x</b></p>',
     "ExpressionError with token 'f(x=1, x=2)' at line 2")
show("", '<p tal:content="lambda x, x: 1">x</p>',
     "ExpressionError with token 'lambda x, x: 1'")
show("", '<p tal:content="await x">x</p>',
     "ExpressionError with token 'await x'")
show("", '<p tal:content="(yield)">x</p>',
     "ExpressionError ('yield' outside function); instead render() "
     "returns ''", render={})

section(13, "${...} error inside a non-python processing instruction "
            "loses its location")
show("", '<p>\n  <?php echo ${][} ?></p>',
     "token '][' at offset 19, line 2 column 15")

section(14, "string: expression - ${...} holding a $name is accepted "
            "although invalid")
show("", '<p tal:content="string:${ ] $x }">x</p>',
     "ExpressionError with token '] $x' (as <p>${ ] $x }</p> gives)",
     render=dict(x=5))
show("(control)", '<p>${ ] $x }</p>', "ExpressionError")

section(15, "errors in parts the program builder discards are not "
            "detected")
show("", '<p metal:use-macro="m"><b tal:content="][">x</b></p>',
     "ExpressionError at '][' (offset 39)")
show("", '<p metal:use-macro="m"><b tal:define="econtext 1">x</b></p>',
     "TranslationError at 'econtext'")
show("", '<p metal:use-macro="m" tal:content="][">x</p>',
     "ExpressionError at ']['")
show("", '<p metal:use-macro="m" tal:attributes="class 1; class 2">x</p>',
     "LanguageError (duplicate attribute)")
show("", '<p tal:omit-tag="" tal:attributes="class ][">x</p>',
     "ExpressionError at ']['")
show("", '<p tal:omit-tag="" title="${][}">x</p>',
     "ExpressionError at ']['")
show("", '<p title="${][}" tal:attributes="title a">x</p>',
     "ExpressionError at ']['")
show("(control)", '<p metal:use-macro="m"><b tal:define="x">x</b></p>',
     "LanguageError (this one is detected)")

section(16, "documented reserved names are accepted by tal:define / "
            "tal:repeat (and the definition is ignored)")
show("", '<p tal:define="translate 42">${translate}</p>',
     "TranslationError at 'translate' (reference: \"the following names "
     "are reserved: econtext, rcontext, translate, decode and convert\")",
     render={})
show("", '<p tal:define="decode 42">${decode}</p>',
     "TranslationError at 'decode'", render={})
show("", '<p tal:repeat="None (1, 2)">${None}</p>',
     "error (reference: None, True, False ... may not be redefined)",
     render={})
show("(control)", '<p tal:define="econtext 42">x</p>', "TranslationError")

section(17, "XML mode with CR line endings: line is always 1")
show("", '<?xml version="1.0"?>\r<p>\r  ${][}</p>',
     "line 3, column 4 (a template without the XML declaration gives "
     "that)")
show("(control)", '<p>\r<b>\r  ${][}</b></p>', "line 3, column 4")

section(18, "malformed METAL / i18n names are accepted "
            "(reference: argument ::= Name)")
show("", '<p metal:define-macro="a b">x</p>', "TemplateError at 'a b'")
show("", '<p metal:define-macro="">x</p>', "TemplateError")
show("", '<p metal:define-macro="m"><b metal:define-slot="">x</b></p>',
     "TemplateError")
show("", '<p i18n:translate=""><b i18n:name="1 a">x</b></p>',
     "TemplateError at '1 a'")

section(19, "i18n:attributes: a list that ends in ';' plus white space is "
            "rejected")
show("", '<p title="t" i18n:attributes="title t;\n   ">x</p>',
     "valid (tal:define / tal:attributes accept the same layout, and "
     "'title t;' is accepted): must compile")
show("(control)", '<p title="t" i18n:attributes="title t;">x</p>',
     "compiles")
