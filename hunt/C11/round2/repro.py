"""Reproduces the findings of findings.json (property C11) against the
chameleon checkout on PYTHONPATH.

Run:  PYTHONPATH=/tmp/wth2_C11/src /venv/bin/python /tmp/wth2_C11/repro.py

Every finding prints one line starting with "DEFECT n" while the defect
is present ("fixed n" otherwise).
"""
import warnings

from chameleon import PageTemplate
from chameleon.exc import TemplateError

warnings.simplefilter("ignore")


def compile_(src, **options):
    """-> ('ok', template) | ('tpl', exc) | ('other', exc)"""
    try:
        return 'ok', PageTemplate(src, **options)
    except TemplateError as e:
        return 'tpl', e
    except Exception as e:  # noqa
        return 'other', e


def located(src, e, token=None):
    tok = str(e.token)
    good = src[e.offset:e.offset + len(tok)] == tok
    pre = src[:e.offset]
    good = good and e.location == (
        pre.count('\n') + 1, e.offset - pre.rfind('\n') - 1)
    if token is not None:
        good = good and tok == token
    return good


def report(n, defect, text):
    print("%s %d: %s" % ("DEFECT" if defect else "fixed", n, text))


# 1 -- statement without a value: location lost
src = '<div>\n <p tal:content>a</p></div>'
kind, e = compile_(src)
report(1, not (kind == 'tpl' and e.location == (2, 15) and e.offset == 21),
       "%r -> %s offset=%r location=%r" % (
           src, type(e).__name__, getattr(e, 'offset', None),
           getattr(e, 'location', None)))

# 2 -- hyphenated local variable name: bare SyntaxError
src = '<p tal:define="a-b 1">a</p>'
kind, e = compile_(src)
report(2, kind != 'ok', "%r -> %s" % (
    src, 'compiles' if kind == 'ok' else '%s: %s' % (type(e).__name__, e)))
src = '<p tal:repeat="a-b (1,2)">a</p>'
kind, e = compile_(src)
report(2, kind != 'ok', "%r -> %s" % (
    src, 'compiles' if kind == 'ok' else '%s: %s' % (type(e).__name__, e)))

# 3 -- assignment expression in a Python expression
src = '<p>\n ${(x := 1)}</p>'
kind, e = compile_(src)
report(3, not (kind == 'tpl' and located(src, e, '(x := 1)')),
       "%r -> %s" % (src, '%s: %s' % (type(e).__name__,
                                    str(e).split('\n')[0])
                     if kind != 'ok' else 'compiles'))
src = '<p tal:content="(econtext := 1)"/>'
kind, e = compile_(src)
report(3, kind == 'ok', "%r -> %s" % (
    src, 'compiles (reserved name rebound)' if kind == 'ok'
    else type(e).__name__))

# 4 -- entity inside ${...} in text / ordinary attribute
for src in ('<p>${1 &lt; }</p>', '<p title="${1 &lt; }">x</p>'):
    kind, e = compile_(src)
    report(4, not (kind == 'tpl' and located(src, e)),
           "%r -> token %r, source at offset %r" % (
               src, str(e.token),
               src[e.offset:e.offset + len(e.token)]))

# 5 -- statement given twice through the data- spelling
src = '<p data-tal-content="1" tal:content="2">a</p>'
kind, e = compile_(src, enable_data_attributes=True)
report(5, kind == 'ok', "%r -> %s" % (
    src, 'compiles, renders %r' % e() if kind == 'ok'
    else type(e).__name__))

# 6 -- reserved name bound by import/def/class/except in a code block
for block in ('import os as econtext', 'def rcontext(): pass',
              'class translate: pass',
              '\ntry:\n  1/0\nexcept Exception as econtext:\n  pass\n'):
    src = '<?python %s ?><p tal:define="global x 1">${x}</p>' % block
    kind, e = compile_(src)
    report(6, kind == 'ok', "%r -> %s" % (
        block, 'compiles' if kind == 'ok' else type(e).__name__))

# 7 -- del statement in a code block
src = '<?python x = 1; del x ?>y'
kind, e = compile_(src)
report(7, kind != 'ok', "%r -> %s" % (
    src, 'compiles' if kind == 'ok' else '%s: %s' % (type(e).__name__, e)))

# 8 -- unknown meta: statement
src = '<p meta:interpolatoin="false">a</p>'
kind, e = compile_(src)
report(8, kind == 'ok', "%r -> %s" % (
    src, 'compiles, renders %r' % e() if kind == 'ok'
    else '%s token %r' % (type(e).__name__, str(e.token))))

# 9 -- import: expression spanning lines
src = '<p tal:content="import: a.\n b">x</p>'
kind, e = compile_(src)
report(9, not (kind == 'tpl' and located(src, e)),
       "%r -> token %r, source at offset %r" % (
           src, str(e.token), src[e.offset:e.offset + len(e.token)]))

# 10 -- assignment expression in a code block
src = '<?python x = (y := 2) ?>${x}'
kind, e = compile_(src)
report(10, kind == 'other', "%r -> %s" % (
    src, 'compiles' if kind == 'ok' else '%s: %s' % (type(e).__name__, e)))

print("--- borderline")

# 11 -- excerpt in the message (display only)
src = '<p>\x0c\n  ${1 +}</p>'
kind, e = compile_(src)
excerpt = str(e).split(' - Source:')[1] if ' - Source:' in str(e) else ''
report(11, '${1 +}' not in excerpt,
       "%r -> location %r, excerpt %r" % (src, e.location, excerpt))

# 12 -- meta:interpolation="false" and attributes
src = '<p meta:interpolation="false"><a title="${1 +}">a</a></p>'
kind, e = compile_(src)
report(12, kind != 'ok', "%r -> %s" % (
    src, 'compiles' if kind == 'ok' else type(e).__name__))

# 13 -- end tag in script text
src = '<script>if (a < b) { x = "</p>"; }</script>'
kind, e = compile_(src)
report(13, kind != 'ok', "%r -> %s" % (
    src, 'compiles' if kind == 'ok' else '%s: %s' % (
        type(e).__name__, e.args[0])))

# 14 -- lone surrogate character reference
src = '<p>${"&#xD800;"}</p>'
kind, e = compile_(src)
report(14, kind == 'other', "%r -> %s" % (
    src, 'compiles' if kind == 'ok' else type(e).__name__))

# 15 -- white space in a tuple definition
src = '<p tal:define="(a ,b) (1,2)">a</p>'
kind, e = compile_(src)
report(15, kind != 'ok', "%r -> %s" % (
    src, 'compiles' if kind == 'ok' else '%s: %s' % (
        type(e).__name__, e.args[0])))

# 16 -- empty metal:use-macro
src = '<p metal:use-macro="">a</p>'
kind, e = compile_(src)
report(16, kind == 'ok', "%r -> %s" % (
    src, 'compiles, renders %r' % e() if kind == 'ok'
    else type(e).__name__))
