"""C15 second round: reproductions (run with PYTHONPATH=/tmp/wth2_C15/src).

Every case renders the same thing in fresh processes without a cache
directory, with an empty one (miss) and with the filled one (hit).
"""
import os
import subprocess
import sys
import tempfile
import textwrap


def run(code, cache=None, *args):
    env = dict(os.environ)
    env.pop('CHAMELEON_CACHE', None)
    if cache:
        env['CHAMELEON_CACHE'] = cache
    p = subprocess.run([sys.executable, '-c', textwrap.dedent(code)] + list(args),
                       env=env, capture_output=True, text=True)
    out = p.stdout.strip()
    if p.returncode:
        out += '\nEXC ' + p.stderr.strip().splitlines()[-1]
    return out.strip()


def three(code):
    cache = tempfile.mkdtemp()
    return run(code), run(code, cache), run(code, cache)


def show(title, results):
    print('=' * 70)
    print(title)
    for label, r in zip(('no cache  ', 'cache miss', 'cache hit '), results):
        print('  %s: %s' % (label, r.replace('\n', '\n              ')))
    print('  ->', 'VIOLATION' if len(set(results)) > 1 else 'same')


# 1. objects made by template code belong to another module -----------------
show("1. module name seen by template code", three('''
    from chameleon import PageTemplate
    src = ("<?python import collections; P = collections.namedtuple('P', 'x');"
           " T = type('T', (), {}) ?><p>${P} ${T} ${__name__}</p>")
    print(PageTemplate(src)())
'''))

# 2. direct subclass of BaseTemplate(File) with a file name ------------------
code2 = r'''
    import os, sys
    from functools import partial
    from chameleon.compiler import ExpressionEngine
    from chameleon.tales import ExpressionParser, PythonExpr
    from chameleon.template import BaseTemplate, BaseTemplateFile
    from chameleon.zpt.program import MacroProgram
    class Mixin:
        builtins = {'nothing': None}
        @property
        def engine(self):
            return partial(ExpressionEngine,
                           ExpressionParser({'python': PythonExpr}, 'python'))
        def parse(self, body):
            return MacroProgram(body, 'xml', self.filename)
    class Template(Mixin, BaseTemplate): pass
    class TemplateFile(Mixin, BaseTemplateFile): pass
    work = sys.argv[1]
    path = os.path.join(work, 'page.pt')
    open(path, 'w').write('<p>${1 + 1}</p>')
    kw = dict(__translate=None, __decode=None, __on_error_handler=None,
              target_language=None)
    for make in (lambda: TemplateFile(path),
                 lambda: Template('<p>${1 + 1}</p>', filename=path),
                 lambda: Template('<p>${1 + 1}</p>', filename='views/page.pt')):
        try:
            print(make().render(**kw))
        except Exception as e:
            print('EXC:' + type(e).__name__, str(e)[:60])
    print('written beside the template:', sorted(set(os.listdir(work)) - {'page.pt'}))
'''
cache = tempfile.mkdtemp()
show("2. BaseTemplate / BaseTemplateFile subclass with a file name",
     (run(code2, None, tempfile.mkdtemp()),
      run(code2, cache, tempfile.mkdtemp()),
      run(code2, cache, tempfile.mkdtemp())))

# 3. expression types that are closures / lambdas ---------------------------
show("3. two expression types made by one factory, in one process", three('''
    import ast
    from chameleon import PageTemplate
    def say(suffix):
        def expression(text):
            def compiler(target, engine):
                return [ast.Assign(targets=[target],
                                   value=ast.Constant(text.strip() + suffix))]
            return compiler
        return expression
    for suffix in '!', '?':
        types = dict(PageTemplate.expression_types, say=say(suffix))
        print(PageTemplate('<p>${say: hello}</p>', expression_types=types)())
    const = lambda v: [lambda t, e: [ast.Assign(targets=[t], value=ast.Constant(v))]]
    a = dict(PageTemplate.expression_types, say=lambda text: const('A')[0])
    b = dict(PageTemplate.expression_types, say=lambda text: const('B')[0])
    print(PageTemplate('<p>${say: x}</p>', expression_types=a)(),
          PageTemplate('<p>${say: x}</p>', expression_types=b)())
'''))

# 4. (borderline) import-system attributes of the module ---------------------
show("4. (borderline) __file__ / __doc__ / __cached__ in expressions", three('''
    from chameleon import PageTemplate
    for e in '__file__', '__doc__', '__cached__':
        try:
            r = PageTemplate("<p>${%s}</p>" % e)()
            print(e, '->', r[:20].replace(chr(10), ' '), '...')
        except Exception as ex:
            print(e, '-> EXC', type(ex).__name__)
'''))

# 5. (borderline) entries are private to the user that stored them ----------
if hasattr(os, 'geteuid') and os.geteuid() == 0:
    code5 = '''
        import os
        from chameleon import PageTemplate
        import py_compile, importlib.util, chameleon.loader
        PageTemplate("<p>warm up the imports</p>",
                     loader=chameleon.loader.MemoryLoader())()
        if os.environ.get('AS_NOBODY'):
            os.setgid(65534); os.setuid(65534)
        try:
            print(PageTemplate("<p>${1 + 1}</p>")())
        except Exception as e:
            print('EXC:' + type(e).__name__)
    '''
    cache = tempfile.mkdtemp()
    os.chmod(cache, 0o1777)
    umask = os.umask(0)
    os.umask(umask)
    first = run(code5, cache)
    modes = [oct(os.stat(os.path.join(cache, f)).st_mode & 0o777)
             for f in os.listdir(cache) if f.endswith('.py')]
    os.environ['AS_NOBODY'] = '1'
    print('=' * 70)
    print("5. (borderline) entry stored by root, read by another user; "
          "umask is %03o, entry modes %s" % (umask, modes))
    print('  root, cache        :', first)
    print('  nobody, no cache   :', run(code5, None))
    print('  nobody, same cache :', run(code5, cache))
    del os.environ['AS_NOBODY']
else:
    print("5. skipped (needs root to switch users)")
