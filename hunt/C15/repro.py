"""C15 audit: the on-disk module cache is not sound.

Run as:  PYTHONPATH=/tmp/wth_C15/src /venv/bin/python repro.py

Every finding is demonstrated with child processes.  A child gets the cache
directory through the documented CHAMELEON_CACHE environment variable (or none
at all for the reference run).  For each pair (A, B) of template
configurations we print

  expected : what A and B render WITHOUT a cache directory
  observed : what they render with one shared, initially empty cache
             directory (A then B in two processes; B then A in one process)

and flag a VIOLATION when an observed result differs from the expected one.
"""
import codecs
import os
import subprocess
import sys
import tempfile
import textwrap

PY = sys.executable
SRC = os.path.join(os.path.dirname(os.path.abspath(__file__)), "src")


def run(code, cache=None):
    env = dict(os.environ)
    env["PYTHONPATH"] = SRC
    env.pop("CHAMELEON_CACHE", None)
    env.pop("CHAMELEON_DEBUG", None)
    if cache:
        env["CHAMELEON_CACHE"] = cache
    p = subprocess.run(
        [PY, "-c", textwrap.dedent(code)],
        env=env, capture_output=True, text=True,
    )
    out = p.stdout.strip()
    if p.returncode:
        last = p.stderr.strip().splitlines()[-1] if p.stderr.strip() else ""
        out += " !! process failed: " + last[:150]
    return out


violations = []


def pair(title, A, B, note=""):
    print("=" * 78)
    print(title)
    if note:
        print(note)
    print("-- input A:" + textwrap.indent(textwrap.dedent(A), "     "))
    print("-- input B:" + textwrap.indent(textwrap.dedent(B), "     "))
    exp_a, exp_b = run(A), run(B)
    print("expected (no cache dir)      A:", exp_a)
    print("expected (no cache dir)      B:", exp_b)
    d1 = tempfile.mkdtemp(prefix="c15_")
    got_a, got_b = run(A, d1), run(B, d1)
    print("observed (cache, A then B)   A:", got_a)
    print("observed (cache, A then B)   B:", got_b)
    d2 = tempfile.mkdtemp(prefix="c15_")
    both = run(textwrap.dedent(B) + "\n" + textwrap.dedent(A), d2)
    print("observed (cache, one process, B then A):", both.replace("\n", "  ||  "))
    print("cache entries:", sorted(
        f for f in os.listdir(d1) if f.endswith(".py")))
    bad = (got_a, got_b) != (exp_a, exp_b) or \
        both.split("\n") != [exp_b, exp_a]
    print("=> VIOLATION" if bad else "=> ok")
    if bad:
        violations.append(title)


# --------------------------------------------------------------------------
pair(
    "F1  template class is identified by its bare __name__",
    '''
    from chameleon import PageTemplate
    t = PageTemplate('<p tal:content="x">d</p>')
    print(repr(t.render(x=1)))
    ''',
    '''
    import chameleon
    from chameleon.tales import StringExpr
    class PageTemplate(chameleon.PageTemplate):     # same name, other class
        expression_types = dict(
            chameleon.PageTemplate.expression_types, python=StringExpr)
    t = PageTemplate('<p tal:content="x">d</p>')
    print(repr(t.render(x=1)))
    ''',
)

pair(
    "F2  body and class name are hashed without a separator",
    '''
    from chameleon import PageTemplate
    t = PageTemplate('Hello ')
    print(repr(t.render()))
    ''',
    '''
    import chameleon
    class Template(chameleon.PageTemplate):
        pass
    t = Template('Hello Page')      # 'Hello Page'+'Template' == 'Hello '+'PageTemplate'
    print(repr(t.render()))
    ''',
)

pair(
    "F3a option default_marker is not part of the key",
    '''
    from chameleon import PageTemplate
    from chameleon.tales import DEFAULT_MARKER
    t = PageTemplate('<p tal:content="x">d</p>')
    print(repr(t.render(x=DEFAULT_MARKER)))
    ''',
    '''
    import chameleon.tales, chameleon.utils
    from chameleon import PageTemplate
    from chameleon.astutil import Symbol
    from chameleon.tales import DEFAULT_MARKER
    MY = chameleon.utils.ImportableMarker('chameleon.tales', 'MY')
    chameleon.tales.MY_MARKER = MY          # importable, like DEFAULT_MARKER
    t = PageTemplate('<p tal:content="x">d</p>', default_marker=Symbol(MY))
    print(repr(t.render(x=DEFAULT_MARKER)))
    ''',
)

pair(
    "F3b option expression_types is not part of the key",
    '''
    from chameleon import PageTemplate
    t = PageTemplate('<p tal:content="x">d</p>')
    print(repr(t.render(x=1)))
    ''',
    '''
    from chameleon import PageTemplate
    from chameleon.tales import StringExpr
    t = PageTemplate('<p tal:content="x">d</p>', expression_types=dict(
        PageTemplate.expression_types, python=StringExpr))
    print(repr(t.render(x=1)))
    ''',
)

pair(
    "F4a filename option: the extension is dropped from the key",
    '''
    from chameleon import PageTemplate
    t = PageTemplate('<p tal:content="1/0">d</p>', filename='a.pt')
    try: t.render()
    except Exception as e:
        print([l.strip() for l in str(e).splitlines() if 'Filename' in l])
    ''',
    '''
    from chameleon import PageTemplate
    t = PageTemplate('<p tal:content="1/0">d</p>', filename='a.html')
    try: t.render()
    except Exception as e:
        print([l.strip() for l in str(e).splitlines() if 'Filename' in l])
    ''',
)

tmp = tempfile.mkdtemp(prefix="c15_tpl_")
for name in ("page.pt", "page.html"):
    with open(os.path.join(tmp, name), "w") as f:
        f.write('<p tal:content="1/0">d</p>')
filetpl = '''
    from chameleon import PageTemplateFile
    t = PageTemplateFile(%r)
    try: t.render()
    except Exception as e:
        print([l.strip().replace(%r, '<dir>') for l in str(e).splitlines() if 'Filename' in l])
    '''
pair(
    "F4b two template files page.pt / page.html with the same text",
    filetpl % (os.path.join(tmp, "page.pt"), tmp),
    filetpl % (os.path.join(tmp, "page.html"), tmp),
)

pair(
    "F5  lone surrogates of the body are ignored by the key",
    '''
    from chameleon import PageTemplate
    t = PageTemplate('<p>\\ud800</p>')
    print(ascii(t.render()))
    ''',
    '''
    from chameleon import PageTemplate
    t = PageTemplate('<p></p>')
    print(ascii(t.render()))
    ''',
)

body = ('<meta http-equiv="Content-Type" content="text/xml; charset=utf-8">'
        '<input checked="${c}"/>')
pair(
    "F6a detected content type (XML / HTML) is not part of the key",
    '''
    import codecs
    from chameleon import PageTemplate
    t = PageTemplate(codecs.BOM_UTF8 + %r.encode('utf-8'))    # bytes with BOM
    print(t.content_type, repr(t.render(c=True)))
    ''' % body,
    '''
    from chameleon import PageTemplate
    t = PageTemplate(%r)                                      # same text, str
    print(t.content_type, repr(t.render(c=True)))
    ''' % body,
)

print("=" * 78)
title = "F6b one template file, saved with and then without a BOM (restart)"
print(title)
fn = os.path.join(tmp, "bom.pt")
prog = '''
from chameleon import PageTemplateFile
t = PageTemplateFile(%r)
print(repr(t.render(c=True)), t.content_type)
''' % fn
d = tempfile.mkdtemp(prefix="c15_")
with open(fn, "wb") as f:
    f.write(codecs.BOM_UTF8 + body.encode())
print("file text:", body)
print("with BOM   : expected", run(prog))
print("             observed", run(prog, d))
with open(fn, "wb") as f:
    f.write(body.encode())
e, o = run(prog), run(prog, d)
print("without BOM: expected", e)
print("             observed", o)
print("=> VIOLATION" if e != o else "=> ok")
if e != o:
    violations.append(title)

pair(
    "F7  option tokenizer is keyed by str(value)",
    '''
    from chameleon import PageTemplate
    from chameleon.tokenize import iter_xml
    class Tok:
        def __init__(self, body, filename=None):
            self.it = iter_xml(body, filename)
        def __iter__(self):
            return self.it
    t = PageTemplate('<p>${x}</p>', tokenizer=Tok)
    print(repr(t.render(x=1)))
    ''',
    '''
    from chameleon import PageTemplate
    from chameleon.tokenize import iter_xml
    class Tok:                       # another tokenizer, also __main__.Tok
        def __init__(self, body, filename=None):
            self.it = iter_xml(body.replace('p>', 'div>'), filename)
        def __iter__(self):
            return self.it
    t = PageTemplate('<p>${x}</p>', tokenizer=Tok)
    print(repr(t.render(x=1)))
    ''',
    note="(the one-process run redefines Tok, which is the same situation)",
)

print("=" * 78)
title = "F8  template file with a long (legal) name cannot be rendered with a cache"
print(title)
for L in (150, 200, 230):
    fn = os.path.join(tmp, "n" * L + ".pt")
    with open(fn, "w") as f:
        f.write('<p tal:content="x">d</p>')
    prog = '''
from chameleon import PageTemplateFile
try:
    print(repr(PageTemplateFile(%r).render(x=1)))
except Exception as e:
    print(type(e).__name__, str(e)[:30])
''' % fn
    d = tempfile.mkdtemp(prefix="c15_")
    e = run(prog)
    o1, o2 = run(prog, d), run(prog, d)
    print("basename of %d+3 characters: expected %s | observed 1st process: %s"
          " | 2nd process: %s" % (L, e, o1, o2))
    if (o1, o2) != (e, e) and title not in violations:
        violations.append(title)
print("=> VIOLATION" if title in violations else "=> ok")

print("=" * 78)
print("%d violations:" % len(violations))
for v in violations:
    print("  -", v)
