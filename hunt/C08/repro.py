"""Reproduces the C08 (tal:repeat) findings.

Run as:  PYTHONPATH=/tmp/wth_C08/src /venv/bin/python repro.py
"""
from chameleon import PageTemplate


def render(src, **kw):
    try:
        return PageTemplate(src).render(**kw)
    except Exception as e:  # noqa
        first = str(e).strip().split("\n")[0]
        return "EXCEPTION %s: %s" % (type(e).__name__, first)


def show(title, src, observed, expected, values=None):
    print("=" * 72)
    print(title)
    print("  input    :", repr(src))
    if values is not None:
        print("  values   :", values)
    print("  observed :", repr(observed))
    print("  expected :", repr(expected))
    print("  VIOLATED :", observed != expected)
    print()


# ---------------------------------------------------------------------------
# 1. letter / Letter past the 26th position
# ---------------------------------------------------------------------------
src = ('<i tal:repeat="i range(n)" tal:omit-tag="">'
       '${repeat.i.letter}/${repeat.i.Letter} </i>')
out = render(src, n=703).split()
picked = [out[k] for k in (0, 25, 26, 27, 51, 52, 701, 702)]
show("1. letter/Letter beyond 26 positions (indexes 0,25,26,27,51,52,701,702)",
     src, picked,
     ['a/A', 'z/Z', 'aa/AA', 'ab/AB', 'az/AZ', 'ba/BA', 'zz/ZZ', 'aaa/AAA'],
     "n=703")
print("   'aa' is ever produced:", any(x.startswith('aa/') for x in out))
print()

# ---------------------------------------------------------------------------
# 2. unpacking loop: no repeat[name]
# ---------------------------------------------------------------------------
src = '''<p tal:repeat="(a, b) s">${a}${b}:${repeat['a'].number}/${repeat['a'].length}</p>'''
show("2a. repeat['a'] in an unpacking loop", src,
     render(src, s=[(1, 2), (3, 4)]),
     '<p>12:1/2</p>\n<p>34:2/2</p>', "s=[(1,2),(3,4)]")
src = '''<p tal:repeat="(a, b) s">${a}${b}:${repeat.b.number}</p>'''
show("2b. repeat.b in an unpacking loop", src,
     render(src, s=[(1, 2), (3, 4)]),
     '<p>12:1</p>\n<p>34:2</p>', "s=[(1,2),(3,4)]")
src = '''<p tal:repeat="(a, b) s">${repeat[('a', 'b')].number}</p>'''
print("   (only the undocumented tuple key works:",
      repr(render(src, s=[(1, 2), (3, 4)])), ")")
print()

# ---------------------------------------------------------------------------
# 3. inner loop aborted by an exception that tal:on-error catches
# ---------------------------------------------------------------------------
src = ('''<div tal:repeat="i 'ab'">'''
       '''<span tal:on-error="string:E"><b tal:repeat="i 'xyz'">${1/0}</b></span>'''
       '''[${i} ${repeat.i.number}/${repeat.i.length}]</div>''')
show("3. nested loop, same name, inner one fails under tal:on-error", src,
     render(src),
     '<div><span>E</span>[a 1/2]</div>\n<div><span>E</span>[b 2/2]</div>')

# ---------------------------------------------------------------------------
# 4. semicolons in the repeat expression
# ---------------------------------------------------------------------------
src = '''<p tal:repeat="c 'a;b'">${c}</p>'''
show("4a. str iterable containing a semicolon", src, render(src),
     '<p>a</p>\n<p>;</p>\n<p>b</p>')
src = '''<p tal:repeat="c 'a;;b'">${c}</p>'''
show("4b. str iterable containing two semicolons (4 characters)", src,
     render(src), '<p>a</p>\n<p>;</p>\n<p>;</p>\n<p>b</p>')
src = '''<p tal:repeat="c s; d t">${c}</p>'''
show("4c. two clauses: AssertionError (silently ignored under python -O)",
     src, render(src, s='ab', t='cd'),
     'a LanguageError (or the TAL meaning: expression "s; d t")')

# ---------------------------------------------------------------------------
# 5. XML templates keep their line endings; only LF is known as a line break
# ---------------------------------------------------------------------------
src = ('<?xml version="1.0"?>\r<ul>\r  <li tal:repeat="i s">${i}</li>\r</ul>')
show("5a. XML template with CR line endings", src, render(src, s=[1, 2, 3]),
     '<?xml version="1.0"?>\r<ul>\r  <li>1</li>\r  <li>2</li>\r  <li>3</li>\r</ul>',
     "s=[1,2,3]")
src = ('<?xml version="1.0"?>\r\n<ul>\r\n  <li tal:repeat="i s">${i}</li>\r\n</ul>')
show("5b. XML template with CRLF line endings (separator is a bare LF)",
     src, render(src, s=[1, 2, 3]),
     '<?xml version="1.0"?>\r\n<ul>\r\n  <li>1</li>\r\n  <li>2</li>\r\n  <li>3</li>\r\n</ul>',
     "s=[1,2,3]")

# ---------------------------------------------------------------------------
# 6. global unpacking loop over one-shot items
# ---------------------------------------------------------------------------
src = '<p tal:repeat="global (a, b) s">${a}${b}</p>'
show("6. global (a, b) over items that are one-shot iterators", src,
     render(src, s=[iter((1, 2)), (x for x in (3, 4))]),
     '<p>12</p>\n<p>34</p>', "s=[iter((1,2)), (x for x in (3,4))]")
src = '<p tal:repeat="(a, b) s">${a}${b}</p>'
print("   (the local form works:",
      repr(render(src, s=[iter((1, 2)), (x for x in (3, 4))])), ")")
print()

# ---------------------------------------------------------------------------
# 7. loop variable names that the compiler keeps for itself
# ---------------------------------------------------------------------------
for name in ("translate", "decode", "on_error_handler", "attrs"):
    src = '<p tal:repeat="%s s">${%s}</p>' % (name, name)
    show("7. loop variable named %r is not bound" % name, src,
         render(src, s=['x', 'y']), '<p>x</p>\n<p>y</p>', "s=['x','y']")
src = ('''<p tal:repeat="repeat s">${repeat}'''
       '''<b tal:repeat="j 'ab'">${j}</b></p>''')
show("7. loop variable named 'repeat' breaks every inner loop", src,
     render(src, s=['x']),
     "a compile-time error like tal:repeat=\"econtext s\" gives, "
     "or '<p>x<b>a</b>\\n<b>b</b></p>'", "s=['x']")
