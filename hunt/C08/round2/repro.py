"""Reproduces the C08 (tal:repeat) findings of the second audit round.

Run:  PYTHONPATH=/tmp/wth2_C08/src /venv/bin/python /tmp/wth2_C08/repro.py
"""
from chameleon import PageTemplate as PT


def render(src, _opts=None, **kw):
    try:
        return PT(src, **(_opts or {}))(**kw)
    except Exception as e:  # noqa
        return "EXC:%s: %s" % (type(e).__name__, str(e).split('\n')[0][:120])


def show(n, title, src, expected, _opts=None, **kw):
    out = render(src, _opts, **kw)
    print("-- %d. %s" % (n, title))
    print("   source  : %r" % src)
    print("   observed: %r" % out)
    print("   expected: %r" % expected)
    print("   %s" % ("DEFECT PRESENT" if out != expected else "ok (repaired)"))
    print()


# 1. a loop variable whose name is not in NFKC form (MICRO SIGN U+00B5,
#    full-width letters, ligatures) is accepted but cannot be read
show(1, "non-NFKC loop variable name is never bound for expressions",
     '<i tal:repeat="µ xs">${µ}:${repeat.µ.number}</i>',
     '<i>a:1</i>\n<i>b:2</i>', xs='ab')
show(1, "  (same, full-width x)",
     '<i tal:repeat="ｘ xs">${ｘ}</i>',
     '<i>a</i>\n<i>b</i>', xs='ab')

# 2. a local loop variable with a hyphen (accepted by the name grammar,
#    works with "global") makes the generated module a SyntaxError
show(2, "hyphenated local loop variable: SyntaxError in generated code",
     '<i tal:repeat="my-item xs">${repeat[\'my-item\'].number}</i>',
     '<i>1</i>\n<i>2</i>', xs='ab')
show(2, "  (the global form works)",
     '<i tal:repeat="global my-item xs">${repeat[\'my-item\'].number}</i>',
     '<i>1</i>\n<i>2</i>', xs='ab')

# 3. (borderline) None / True / False as the loop variable
show(3, "None/True/False accepted as loop variable, never bound, no diagnostic",
     '<i tal:repeat="None xs">[${None}]</i>',
     'EXC:TranslationError (a diagnostic) or <i>[a]</i>\\n<i>[b]</i>', xs='ab')

# 4. (borderline) documented: "If the expression is default, then the
#    element is left unchanged, and no new variables are defined."
show(4, "tal:repeat=\"x default\" raises NameError",
     '<i tal:repeat="x default">kept</i>', '<i>kept</i>')

# 5. (borderline) a global loop over an empty sequence renders nothing
#    but leaves the variable None
show(5, "global loop over an empty sequence sets the variable to None",
     '<i tal:repeat="global x xs">${x}</i>[${x}]', '[5]', xs=[], x=5)

# 6. (borderline) the same name twice in an unpacking loop
show(6, "tal:repeat=\"(a,a) xs\" fails with KeyError when the loop ends",
     '<i tal:repeat="(a,a) xs">${a}</i>', '<i>2</i>', xs=['12'])

# 7. (borderline) HTML element without end tag: only the start tag is
#    repeated, the content is outside of the loop
show(7, "unclosed <li tal:repeat>: the content is not part of the loop",
     '<ul>\n  <li tal:repeat="x xs">item ${x}\n</ul>',
     '<ul>\n  <li>item 1\n  <li>item 2\n</ul>', xs=[1, 2])

# 8. (borderline) a template argument called ``repeat`` breaks every loop
show(8, "keyword argument repeat=... makes every tal:repeat fail",
     '<i tal:repeat="x xs">${x}</i>', '<i>1</i>\n<i>2</i>',
     xs=[1, 2], repeat=3)

# 9. (borderline) i18n:name inside a loop inside a translation
show(9, "i18n:name inside a loop inside i18n:translate: every repetition shows the last item",
     '<p i18n:translate="">Hello <tal:b repeat="x xs"><b i18n:name="n">${x}</b></tal:b>!</p>',
     '<p>Hello <b>1</b><b>2</b>!</p>', xs=[1, 2])
