"""Reproduces the C10 (i18n) findings against the library as it is.

Run:  PYTHONPATH=/tmp/wth_C10/src /venv/bin/python repro.py
"""
from chameleon import PageTemplate
from chameleon.i18n import simple_translate


class Rec:
    """Recording translation function.

    rewrite=True : returns "[T<n>]" (n = number of the call)
    rewrite=False: behaves as the default (identity / interpolating)
    """

    def __init__(self, rewrite=True):
        self.calls = []
        self.rewrite = rewrite

    def __call__(self, msgid, domain=None, mapping=None, context=None,
                 target_language=None, default=None):
        self.calls.append(dict(msgid=msgid, domain=domain, mapping=mapping,
                               context=context, target=target_language,
                               default=default))
        if self.rewrite:
            return "[T%d]" % len(self.calls)
        return simple_translate(msgid, domain, mapping, context,
                                target_language, default)


def render(src, rewrite=True, opts=None, macro=None, **kw):
    rec = Rec(rewrite)
    if macro is not None:
        kw['m'] = PageTemplate(macro, translate=rec)
    t = PageTemplate(src, translate=rec, **(opts or {}))
    try:
        out = t.render(**kw)
    except Exception as e:  # pragma: no cover
        out = "EXC %s: %s" % (type(e).__name__, str(e).splitlines()[0])
    return out, rec.calls


N = [0]
VIOLATIONS = []


def finding(title, src, expected, violated, macro=None, sub=False, **kw):
    """Render, print input / observed / expected, evaluate ``violated``.

    ``sub``: a second input for the previous finding (same root cause).
    """
    if not sub:
        N[0] += 1
    out, calls = render(src, macro=macro, **kw)
    print("=" * 78)
    print("FINDING %d%s: %s" % (N[0], "b" if sub else "", title))
    if macro is not None:
        print("  macro tpl:", macro)
    print("  input    :", src)
    extra = {k: v for k, v in kw.items() if k not in ('opts', 'rewrite')}
    if kw.get('opts'):
        print("  options  :", kw['opts'])
    if extra:
        print("  values   :", extra)
    print("  observed : output = %r" % out)
    if not calls:
        print("             (translation function never called)")
    for c in calls:
        print("             call", c)
    print("  expected :", expected)
    bad = bool(violated(out, calls))
    print("  ->", "VIOLATION reproduced" if bad else "not reproduced")
    VIOLATIONS.append((N[0], title, bad))
    return out, calls


class Msg:
    """A message-like object (not str / number / __html__)."""

    def __init__(self, text):
        self.text = text

    def __str__(self):
        return self.text


M = "m.macros['m']"

# 1 -------------------------------------------------------------------------
finding(
    "i18n:name values that differ only in '-' / '_' / '.' share one stream "
    "variable",
    '<p i18n:translate="">A <b i18n:name="a-b">one</b> B '
    '<i i18n:name="a_b">two</i> C</p>',
    "mapping {'a-b': '<b>one</b>', 'a_b': '<i>two</i>'}",
    lambda out, calls: calls[0]['mapping'].get('a-b') != '<b>one</b>',
)

# 2 -------------------------------------------------------------------------
finding(
    "tal:content / tal:replace evaluating to `default` leaves an "
    "i18n:translate element untranslated",
    '<p tal:content="default" i18n:translate="">Hello</p>',
    "one call with msgid 'Hello'; output <p>[T1]</p>",
    lambda out, calls: len(calls) != 1,
)

# 3 -------------------------------------------------------------------------
finding(
    "tal:replace (or tal:on-error) with an explicit message id is never "
    "translated",
    '<p tal:replace="v" i18n:translate="greeting">x</p>',
    "one call with msgid 'greeting' (default: the inserted text 'val')",
    lambda out, calls: len(calls) != 1,
    v='val',
)

# 4 -------------------------------------------------------------------------
finding(
    "dynamic content with i18n:translate=\"\": raw value is the msgid "
    "(no whitespace collapsing / trimming), no default, None is translated",
    '<p tal:content="v" i18n:translate="">x</p>'
    '<p tal:content="n" i18n:translate="">x</p>',
    "first call msgid 'a b' with default 'a b'; no call for the empty "
    "(None) content, output <p>[T1]</p><p></p>",
    lambda out, calls: (calls[0]['msgid'] != 'a b'
                        or calls[0]['default'] != 'a b'
                        or len(calls) != 1),
    v='  a \n  b ', n=None,
)

# 5 -------------------------------------------------------------------------
finding(
    "empty and dropped attributes are translated (and a dropped attribute "
    "re-appears)",
    '<p title="" i18n:attributes="title">x</p>'
    '<p title="t" tal:attributes="title None" i18n:attributes="title">y</p>',
    "no call at all: the first attribute is empty, the second is dropped "
    "(None); output <p title=\"\">x</p><p>y</p>",
    lambda out, calls: len(calls) != 0,
)

# 6 -------------------------------------------------------------------------
finding(
    "i18n:attributes naming an attribute that is not written on the tag "
    "invents it, with the attribute NAME as message id; a value supplied "
    "through a tal:attributes dict is discarded",
    '<p tal:attributes="d" i18n:attributes="title">x</p>',
    "one call with msgid 'hello' (the attribute's value), default 'hello'",
    lambda out, calls: [c['msgid'] for c in calls] != ['hello'],
    d={'title': 'hello'},
)

# 7 -------------------------------------------------------------------------
finding(
    "implicit i18n attribute computed by tal:attributes is not translated; "
    "static implicit attribute uses the unprocessed source text as msgid",
    '<img alt="x" tal:attributes="alt v"/><img alt="a $$ b"/>',
    "two calls: msgid 'dyn' (default 'dyn') and msgid 'a $ b' "
    "(default 'a $ b')",
    lambda out, calls: [c['msgid'] for c in calls] != ['dyn', 'a $ b'],
    opts=dict(implicit_i18n_attributes={'alt'}), v='dyn',
)

# 8 -------------------------------------------------------------------------
finding(
    "implicit_i18n_translate + explicit i18n:translate: two calls for one "
    "element, the second with the first translation as message id",
    '<p i18n:translate="">Hello</p>',
    "exactly one call with msgid 'Hello'",
    lambda out, calls: len(calls) != 1,
    opts=dict(implicit_i18n_translate=True),
)

# 9 -------------------------------------------------------------------------
finding(
    "implicit translation of text with ${name}: msgid not collapsed / "
    "trimmed, no default, and the surrounding whitespace is swallowed",
    '<p>  Hello   ${name}\n   you  </p>',
    "msgid 'Hello ${name} you' with default, leading/trailing space kept "
    "outside (as for text without interpolation: '<p>  [T1]  </p>')",
    lambda out, calls: (calls[0]['msgid'] != 'Hello ${name} you'
                        or calls[0]['default'] is None),
    opts=dict(implicit_i18n_translate=True), name='w',
)

# 10 ------------------------------------------------------------------------
finding(
    "i18n:domain / i18n:context / i18n:target of a subtree that failed "
    "under tal:on-error stay in force for the rest of the template",
    '<div><p tal:on-error="string:err"><b i18n:domain="d" i18n:context="c" '
    'i18n:target="string:fr" tal:content="1/0"/></p>'
    '<p i18n:translate="">after</p></div>',
    "msgid 'after' with domain None, context None, target None",
    lambda out, calls: calls[-1]['domain'] is not None,
)

# 11 ------------------------------------------------------------------------
finding(
    "attribute translations (and ${structure:} / CDATA insertions) read the "
    "target language from the variable scope: a slot filler gets the "
    "macro's i18n:target",
    '<div metal:use-macro="%s"><p metal:fill-slot="s" title="t" '
    'i18n:attributes="title" i18n:translate="">filler</p></div>' % M,
    "both calls with target None (the filler was written where no "
    "i18n:target is in force)",
    lambda out, calls: calls[0]['target'] != calls[1]['target'],
    macro='<div metal:define-macro="m" i18n:target="string:fr">'
          '<span metal:define-slot="s">dflt</span></div>',
)
finding(
    "... same root cause: a template variable named target_language "
    "overrides i18n:target for attributes only",
    '<div i18n:target="string:fr"><p tal:define="target_language \'xx\'" '
    'title="t" i18n:attributes="title" i18n:translate="">body</p></div>',
    "both calls with target 'fr' (set by the nearest enclosing element)",
    lambda out, calls: calls[0]['target'] != 'fr',
    sub=True,
)

# 12 ------------------------------------------------------------------------
finding(
    "i18n settings on an element between metal:use-macro and "
    "metal:fill-slot are lost",
    '<div metal:use-macro="%s"><div i18n:domain="mid" i18n:context="ctx" '
    'i18n:target="string:de"><p metal:fill-slot="s" i18n:translate="">'
    'filler</p></div></div>' % M,
    "call with domain 'mid', context 'ctx', target 'de'",
    lambda out, calls: calls[0]['domain'] != 'mid',
    macro='<div metal:define-macro="m"><span metal:define-slot="s">dflt'
          '</span></div>',
)

# 13 ------------------------------------------------------------------------
finding(
    "a slot filled inside an i18n:translate element (or i18n:name child) of "
    "the macro: the filler's output bypasses the message",
    '<div metal:use-macro="%s"><b metal:fill-slot="s">filler</b></div>' % M,
    "msgid 'A ${n} B', mapping {'n': '<b>filler</b>'}, output "
    "<div><p>[T1]</p></div>",
    lambda out, calls: calls[0]['mapping'] != {'n': '<b>filler</b>'},
    macro='<div metal:define-macro="m"><p i18n:translate="">A '
          '<span i18n:name="n" metal:define-slot="s">dflt</span> B</p></div>',
)

# 14 ------------------------------------------------------------------------
finding(
    "i18n:name inside a slot filler that is inside the caller's "
    "i18n:translate: placeholder in the msgid, empty string in the mapping",
    '<p i18n:translate="">X <div metal:use-macro="%s"><b metal:fill-slot="s">'
    'fill <i i18n:name="n">named</i></b></div> Y</p>' % M,
    "mapping {'n': '<i>named</i>'} (with the default translation function "
    "the text 'named' must appear in the output)",
    lambda out, calls: calls[0]['mapping'] != {'n': '<i>named</i>'},
    macro='<div metal:define-macro="m">[<span metal:define-slot="s">dflt'
          '</span>]</div>',
)

# 15 ------------------------------------------------------------------------
finding(
    "self-closing element with an explicit message id: the translation is "
    "written after the element instead of inside it",
    '<span i18n:translate="msg"/>',
    "<span>[T1]</span> (as tal:content does for a self-closing element)",
    lambda out, calls: out == '<span/>[T1]',
)

# 16 ------------------------------------------------------------------------
finding(
    "i18n:attributes is matched case-insensitively to decide that the "
    "attribute exists but case-sensitively to decide to translate it",
    '<p title="t" tal:attributes="TITLE v" i18n:attributes="title">A</p>',
    "the (single, merged) title attribute is translated: one call with "
    "msgid 'dyn'",
    lambda out, calls: len(calls) != 1,
    v='dyn',
)

print("=" * 78)
for n, title, bad in VIOLATIONS:
    print("%2d  %-10s %s" % (n, "VIOLATION" if bad else "ok", title[:62]))
