"""Reproduces the C10 findings of the second audit round.

Run:  PYTHONPATH=/tmp/wth2_C10/src /venv/bin/python /tmp/wth2_C10/repro.py
Each finding prints "n BAD ..." while the defect is present, "n OK ..." once
it is gone.
"""
from chameleon import PageTemplate


class Msg(str):
    """A message object: a string that carries default and mapping."""
    default = None
    mapping = None


def recorder(result=None):
    calls = []

    def translate(msgid, domain=None, mapping=None, context=None,
                  target_language=None, default=None):
        calls.append(dict(
            msgid=msgid, domain=domain, mapping=mapping, context=context,
            target_language=target_language, default=default))
        if result is not None:
            return result(msgid)
        return "T[%s]" % (msgid, )
    translate.calls = calls
    return translate


def render(source, translate=None, options=None, **kwargs):
    options = dict(options or {})
    if translate is not None:
        options['translate'] = translate
    try:
        return PageTemplate(source, **options)(**kwargs)
    except Exception as exc:
        return "EXC:%s" % type(exc).__name__


def report(n, bad, *details):
    print(n, "BAD" if bad else "OK", *details)


# 1. tal:content="default" + i18n:translate="" + implicit_i18n_translate
t = recorder()
out = render('<p tal:content="default" i18n:translate="">Hello  world</p>',
             t, dict(implicit_i18n_translate=True))
report(1, len(t.calls) != 1, out, [c['msgid'] for c in t.calls])

# 2. tal:on-error with an explicit message id: fallback never translated
t = recorder()
out = render('<p tal:on-error="string:oops" i18n:translate="eid" '
             'tal:define="x 1/0">Hello</p>', t)
report(2, [(c['msgid'], c['default']) for c in t.calls] != [('eid', 'oops')],
       out, t.calls)

# 3. i18n:target expression is not entity-decoded
t = recorder()
out = render('<p i18n:target="\'fr\' if 1 &lt; 2 else \'de\'" '
             'i18n:translate="">Hello</p>', t)
report(3, [c['target_language'] for c in t.calls] != ['fr'], out)

# 4. explicit message id on an element without end tag
t = recorder()
out = render('<div><p i18n:translate="eid"/></div>', t)
report(4, out != '<div><p>T[eid]</p></div>', out)

# 5. tal:on-error fallback drops static attributes that are translated
t = recorder()
out = render('<a title="Hello" class="c" i18n:attributes="title" '
             'tal:on-error="string:err" tal:content="1/0">x</a>', t)
report(5, 'title=' not in out, out)

# 6. implicit translation: ${x} with x=None reaches the mapping as None
out = render('<p>Hello ${x}!</p>', None,
             dict(implicit_i18n_translate=True), x=None)
report(6, out != '<p>Hello !</p>', out)

# 7. ${structure: m} does not offer a message object for translation
t = recorder()
out = render('<p>${structure: m}</p>', t, m=Msg('mid'))
t2 = recorder()
out2 = render('<p tal:content="structure m"/>', t2, m=Msg('mid'))
report(7, len(t.calls) != 1, out, "vs tal:content structure:", out2)

# 8. a translation result that is not a string breaks the rendering
t = recorder(lambda msgid: 5)
out = render('<p i18n:translate="">x</p>', t)
out2 = render('<p tal:content="structure o"/>', t, o=object())
report(8, out != '<p>5</p>' or out2 != '<p>5</p>', out, out2)

# 9. i18n:attributes matches the attribute name case-sensitively
t = recorder()
out = render('<a Title="s" i18n:attributes="title tid">y</a>', t)
report(9, [c['msgid'] for c in t.calls] != ['tid'], out)

# 10. implicit translation makes a ${_x} placeholder no message format knows
out = render('<p>Hi ${_x}!</p>', None,
             dict(implicit_i18n_translate=True), _x='v')
report(10, out != '<p>Hi v!</p>', out)

# 11. nested i18n:target: the outer one leaks to later siblings
t = recorder()
out = render('<div><div i18n:target="\'fr\'"><p i18n:target="\'de\'">x</p>'
             '</div><a title="t" i18n:attributes="title">y</a></div>', t)
report(11, [c['target_language'] for c in t.calls] != [None], out, t.calls)

# 12. implicit translation of text with an unclosed ${
t = recorder()
out = render('<p>  Hello   ${ world  </p>', t,
             dict(implicit_i18n_translate=True))
report(12, [(c['msgid'], c['default']) for c in t.calls] !=
       [('Hello ${ world', 'Hello ${ world')], out, t.calls)

# 13. implicit i18n attribute with an interpolation that is not a plain name
t = recorder()
out = render('<a title="Hi ${t.upper()}">x</a><a title="${t}">y</a>', t,
             dict(implicit_i18n_attributes={'title'}), t='hello')
report(13, [c['msgid'] for c in t.calls] != ['Hi HELLO', 'hello'],
       out, t.calls)

# 14. a slot filler written inside a translation block of the caller escapes
#     the macro's own translation block
t = recorder()
out = render("""<div><p metal:define-macro="m" i18n:translate="">[<b metal:define-slot="s" i18n:name="slot">d</b>]</p><div i18n:translate="">Out <span i18n:name="x"><p metal:use-macro="template.macros['m']"><i metal:fill-slot="s">filled</i></p></span> end</div></div>""", t)
report(14, t.calls[1]['mapping'] != {'slot': '<i>filled</i>'},
       t.calls[1]['mapping'], t.calls[2]['mapping'])

print("--- borderline ---")

# 15. i18n:name child that is not rendered (tal:condition false)
t = recorder()
out = render('<div i18n:translate="">a <b i18n:name="n" '
             'tal:condition="False">x</b></div>', t)
report(15, t.calls[0]['msgid'] != 'a' or t.calls[0]['mapping'], out, t.calls)

# 16. i18n:name that is not a valid placeholder name, default translation
out = render('<p i18n:translate="">Hi <b i18n:name="a.b">x</b>!</p>')
report(16, '<b>x</b>' not in out, out)

# 17. explicit message id / domain / context keep their entities
t = recorder()
out = render('<p i18n:translate="a &amp; b" i18n:domain="d&amp;d" '
             'i18n:context="c&amp;c">Hello</p>', t)
report(17, (t.calls[0]['msgid'], t.calls[0]['domain'],
            t.calls[0]['context']) != ('a & b', 'd&d', 'c&c'), t.calls)

# 18. i18n:translate on the metal:use-macro element is ignored
t = recorder()
out = render('<div><p metal:define-macro="m">macro</p>'
             '<p metal:use-macro="template.macros[\'m\']" '
             'i18n:translate="">x</p></div>', t)
report(18, len(t.calls) != 1, out)
