"""Reproductions for property C16 (file templates follow their files; the
loader resolves names predictably).

Run as:  PYTHONPATH=/tmp/wth_C16/src /venv/bin/python repro.py
"""
import os

# Only used by the two thread-schedule demonstrations (F10, F11): the
# library's own no-op hook points are switched on so that a schedule can be
# forced deterministically.  Nothing else depends on it.
os.environ["MALTHE_CHAMELEON_VERIF"] = "1"

import sys
import tempfile
import threading

import chameleon
from chameleon import PageTemplateFile
from chameleon import _verif
from chameleon.loader import TemplateLoader as BaseLoader
from chameleon.zpt.loader import TemplateLoader
import chameleon.template as T

print("library:", chameleon.__file__)
ROOT = tempfile.mkdtemp(prefix="c16_")


def w(path, text, mtime=None):
    os.makedirs(os.path.dirname(path), exist_ok=True)
    with open(path, "wb") as f:
        f.write(text.encode("utf-8"))
    if mtime is not None:
        os.utime(path, (mtime, mtime))


def tr(f):
    try:
        return f()
    except Exception as e:  # noqa
        return "EXC %s: %s" % (type(e).__name__,
                               str(e).split("\n")[0][:120])


def head(n, title):
    print()
    print("=" * 72)
    print("F%d  %s" % (n, title))
    print("-" * 72)


def j(*p):
    return os.path.join(ROOT, *p)


# ---------------------------------------------------------------------------
head(1, "modification that keeps the mtime (or changes it by < float "
        "resolution) is never seen")
a = j("f1", "a.pt")
w(a, "<p>v1</p>", 1000)
t = PageTemplateFile(a, auto_reload=True)
print("input   : write v1, set mtime 1000, render; write v2, set mtime 1000, "
      "render")
r1 = t()
w(a, "<p>v2 longer</p>", 1000)
r2 = t()
print("observed:", r1, "then", r2)
print("expected:", "<p>v1</p>", "then", "<p>v2 longer</p>")
ns = 1700000000 * 10**9
w(a, "<p>v3</p>")
os.utime(a, ns=(ns, ns))
r3 = t()
w(a, "<p>v4</p>")
os.utime(a, ns=(ns + 1, ns + 1))
r4 = t()
print("input   : write v3 (mtime_ns N), render; write v4 (mtime_ns N+1), "
      "render")
print("observed:", r3, "then", r4, "(st_mtime_ns now %d)"
      % os.stat(a).st_mtime_ns)
print("expected:", "<p>v3</p>", "then", "<p>v4</p>")

# ---------------------------------------------------------------------------
head(2, "load: spellings of one name give distinct template instances")
w(j("f2", "b.pt"), "<b>B</b>")
w(j("f2", "a.pt"),
  '<div tal:define="x load: b.pt; y load:b.pt; z load: b.pt">'
  "${x is z} ${x is y} ${x.filename == y.filename}</div>")
compiles = []
orig_compile = T.BaseTemplate._compile


def counting(self, body, builtins):
    compiles.append(os.path.basename(str(self.filename)))
    return orig_compile(self, body, builtins)


T.BaseTemplate._compile = counting
t = PageTemplateFile(j("f2", "a.pt"), auto_reload=True)
print("input   : a.pt = <div tal:define=\"x load: b.pt; y load:b.pt; "
      "z load: b.pt\">${x is z} ${x is y} ${x.filename == y.filename}</div>")
print("observed:", t())
print("expected: <div>True True True</div>")
L = TemplateLoader([j("f2")])
print("observed: loader.load('b.pt') is loader.load(' b.pt') ->",
      L.load("b.pt") is L.load(" b.pt"),
      "(both filename %s)" % os.path.basename(L.load(" b.pt").filename))
print("expected: True (the loader itself strips the name before resolving)")
T.BaseTemplate._compile = orig_compile

# ---------------------------------------------------------------------------
head(3, "keyword call load(spec=..., cls=...) returns the first template "
        "ever loaded for every name")
w(j("f3", "a.pt"), "<p>A</p>")
w(j("f3", "b.pt"), "<p>B</p>")
L = BaseLoader([j("f3")])
ra = L.load(spec="a.pt", cls=PageTemplateFile)
rb = L.load(spec="b.pt", cls=PageTemplateFile)
print("input   : L = chameleon.loader.TemplateLoader([d]); "
      "L.load(spec='a.pt', cls=PageTemplateFile); "
      "L.load(spec='b.pt', cls=PageTemplateFile)")
print("observed:", os.path.basename(ra.filename),
      os.path.basename(rb.filename), "| same object:", ra is rb,
      "| registry keys:", list(L.registry))
print("expected: a.pt b.pt | same object: False")

# ---------------------------------------------------------------------------
head(4, "package-relative spec of a namespace package (no __init__.py) "
        "is not honoured")
sys.path.insert(0, j("f4"))
w(j("f4", "nspkg", "templates", "a.pt"), "<p>nspkg/a</p>")
w(j("f4", "regpkg", "__init__.py"), "")
w(j("f4", "regpkg", "templates", "a.pt"), "<p>regpkg/a</p>")
L = TemplateLoader([])
print("input   : load('regpkg:templates/a.pt')() ; "
      "load('nspkg:templates/a.pt')()   (nspkg has no __init__.py)")
print("observed:", tr(lambda: L.load("regpkg:templates/a.pt")()), ";",
      tr(lambda: L.load("nspkg:templates/a.pt")()))
print("expected: <p>regpkg/a</p> ; <p>nspkg/a</p>")
L = TemplateLoader(["nspkg:templates", "regpkg:templates"])
print("observed (search path ['nspkg:templates', 'regpkg:templates'], "
      "load('a.pt')):", tr(lambda: L.load("a.pt")()))
print("expected: <p>nspkg/a</p>")

# ---------------------------------------------------------------------------
head(5, "after template.filename is reassigned, load: still looks next to "
        "the old file")
body = ('<p>%s <span tal:define="i load: inc.pt" '
        'tal:replace="structure i()"/></p>')
w(j("f5", "d1", "x.pt"), body % "d1/x")
w(j("f5", "d2", "x.pt"), body % "d2/x")
w(j("f5", "d1", "inc.pt"), "<i>d1/inc</i>")
w(j("f5", "d2", "inc.pt"), "<i>d2/inc</i>")
t = PageTemplateFile(j("f5", "d1", "x.pt"), auto_reload=True)
r1 = t()
t.filename = j("f5", "d2", "x.pt")
r2 = t()
print("input   : t = PageTemplateFile(d1/x.pt); t(); t.filename = d2/x.pt; "
      "t()   (both x.pt contain load: inc.pt; inc.pt exists in d1 and d2)")
print("observed:", r1, "then", r2)
print("expected: <p>d1/x <i>d1/inc</i></p> then <p>d2/x <i>d2/inc</i></p>")

# ---------------------------------------------------------------------------
head(6, "default extension is not handed on to the load: loader of the "
        "templates a loader creates")
w(j("f6", "a.pt"), '<p>a <span tal:define="b load: b" '
                   'tal:replace="structure b()"/></p>')
w(j("f6", "b.pt"), '<p>b <span tal:define="c load: c" '
                   'tal:replace="structure c()"/></p>')
w(j("f6", "c.pt"), "<p>c</p>")
L = TemplateLoader([j("f6")], default_extension=".pt")
print("input   : TemplateLoader([d], default_extension='.pt').load('a')() "
      "with a.pt using 'load: b', b.pt using 'load: c'")
print("observed:", tr(lambda: L.load("a")()))
print("expected: <p>a <p>b <p>c</p></p></p>")
t = PageTemplateFile(j("f6", "a.pt"), default_extension=".pt")
print("input   : PageTemplateFile(d/a.pt, default_extension='.pt')()")
print("observed:", tr(lambda: t()), " (a's own loader adds .pt to 'b', "
      "b's loader does not add it to 'c')")
print("expected: <p>a <p>b <p>c</p></p></p>")

# ---------------------------------------------------------------------------
head(7, "a dot anywhere in the spec (directory, './', '../', package name) "
        "suppresses the default extension")
w(j("f7", "d1", "a.pt"), "<p>d1/a</p>")
w(j("f7", "d2", "b.pt"), "<p>d2/b</p>")
w(j("f7", "x.y", "n.pt"), "<p>x.y/n</p>")
w(j("f7", "mypkg", "sub", "__init__.py"), "")
w(j("f7", "mypkg", "sub", "t", "n.pt"), "<p>mypkg.sub/n</p>")
w(j("f7", "mypkg", "__init__.py"), "")
w(j("f7", "mypkg", "t", "n.pt"), "<p>mypkg/n</p>")
sys.path.insert(0, j("f7"))
L = TemplateLoader([j("f7", "d1"), j("f7")], default_extension=".pt")
for spec in ("a", "./a", "../d2/b", "d2/b", "x.y/n", j("f7", "d2", "b"),
             j("f7", "x.y", "n"), "mypkg:t/n", "mypkg.sub:t/n"):
    print("input   : load(%r)()" % spec.replace(ROOT, "<root>"))
    print("observed:", tr(lambda: L.load(spec)()).replace(ROOT, "<root>"))
print("expected: every one of these file names has no extension (no dot in "
      "the name itself), so '.pt' is added and the template renders")

# ---------------------------------------------------------------------------
head(8, "a directory (or the empty name) counts as a match and shadows a "
        "real template later in the search path")
os.makedirs(j("f8", "d1", "b.pt"))
w(j("f8", "d2", "b.pt"), "<p>d2/b</p>")
L = TemplateLoader([j("f8", "d1"), j("f8", "d2")])
print("input   : d1/b.pt is a directory, d2/b.pt is a template; "
      "TemplateLoader([d1, d2]).load('b.pt')()")
print("observed:", tr(lambda: L.load("b.pt")()).replace(ROOT, "<root>"))
print("expected: <p>d2/b</p>")
print("input   : load('')")
print("observed:", tr(lambda: L.load("").filename).replace(ROOT, "<root>"))
print("expected: ValueError('Template not found')")

# ---------------------------------------------------------------------------
head(9, "after a first load, a file written earlier in the search path is "
        "ignored (cached resolution is no longer the first match)")
w(j("f9", "d2", "c.pt"), "<p>d2/c</p>")
os.makedirs(j("f9", "d1"))
L = TemplateLoader([j("f9", "d1"), j("f9", "d2")], auto_reload=True)
r1 = L.load("c.pt")()
w(j("f9", "d1", "c.pt"), "<p>d1/c</p>")
r2 = L.load("c.pt")()
print("input   : search path [d1, d2]; only d2/c.pt exists; load('c.pt')(); "
      "write d1/c.pt; load('c.pt')()")
print("observed:", r1, "then", r2)
print("expected:", "<p>d2/c</p>", "then", "<p>d1/c</p>",
      "(first match along the search path)")

# ---------------------------------------------------------------------------
head(10, "thread schedule: a slow reload of version 2 overwrites the "
         "already published version 3 for good")
a = j("f10", "a.pt")
w(a, "<p>v1</p>", 1000)
t = PageTemplateFile(a, auto_reload=True)
t()
gate = threading.Event()
reached = threading.Event()


def cb(label, info):
    if label == "cook.compiled" and \
            threading.current_thread().name == "T1":
        reached.set()
        gate.wait()


_verif.set_callback(cb)
w(a, "<p>v2</p>", 1001)
res = {}
T1 = threading.Thread(target=lambda: res.setdefault("t1", t()), name="T1")
T1.start()
reached.wait()
w(a, "<p>v3</p>", 1002)
during = t()
gate.set()
T1.join()
_verif.set_callback(None)
after = [t(), t()]
print("input   : T1 starts reloading v2 and is suspended after compiling; "
      "file becomes v3; main renders (v3); T1 resumes; main renders twice")
print("observed: main during =", during, "| T1 =", res["t1"],
      "| main afterwards =", after)
print("expected: main afterwards = ['<p>v3</p>', '<p>v3</p>']")

# ---------------------------------------------------------------------------
head(11, "thread schedule: two concurrent first loads of one name return "
         "two instances")
w(j("f11", "a.pt"), "<p>a</p>")
L = TemplateLoader([j("f11")])
gate = threading.Event()
reached = threading.Event()


def cb2(label, info):
    if label == "load.construct" and \
            threading.current_thread().name == "T1":
        reached.set()
        gate.wait()


_verif.set_callback(cb2)
T1 = threading.Thread(
    target=lambda: res.setdefault("l1", L.load("a.pt")), name="T1")
T1.start()
reached.wait()
l2 = L.load("a.pt")
gate.set()
T1.join()
_verif.set_callback(None)
print("input   : T1 and main both call loader.load('a.pt') before either "
      "has registered its result")
print("observed: T1 result is main result ->", res["l1"] is l2,
      "| a later load returns what main got ->", L.load("a.pt") is l2)
print("expected: True | True (one instance per name)")

# ---------------------------------------------------------------------------
head(12, "a version that fails to compile is parsed again on every call "
         "although the file is unchanged")
a = j("f12", "a.pt")
w(a, '<p tal:content="1 +">x</p>', 1000)
t = PageTemplateFile(a, auto_reload=True)
n = []


def counting2(self, body, builtins):
    n.append(1)
    return orig_compile(self, body, builtins)


T.BaseTemplate._compile = counting2
for _ in range(3):
    tr(t)
T.BaseTemplate._compile = orig_compile
print("input   : a.pt = <p tal:content=\"1 +\">x</p>; render three times, "
      "file untouched")
print("observed: compile attempts =", len(n))
print("expected: 1 (the error of the unchanged file could be remembered)")
