"""Reproduction of the C16 findings of the second audit round.

Run: PYTHONPATH=/tmp/wth2_C16/src /venv/bin/python /tmp/wth2_C16/repro.py
Each finding prints "BAD ..." while the defect is present, "OK ..." otherwise.
"""
import inspect
import os
import sys
import tempfile
import threading

from chameleon.template import BaseTemplate
from chameleon.template import BaseTemplateFile
from chameleon.zpt.loader import TemplateLoader
from chameleon.zpt.template import Macros
from chameleon.zpt.template import PageTemplateFile


def write(path, text, mtime=None):
    os.makedirs(os.path.dirname(path), exist_ok=True)
    with open(path, 'w') as f:
        f.write(text)
    if mtime is not None:
        os.utime(path, (mtime, mtime))
    return path


def line_of(func, text):
    lines, start = inspect.getsourcelines(func)
    for i, line in enumerate(lines):
        if line.strip() == text:
            return start + i
    raise AssertionError(text)


# ---------------------------------------------------------------------------
# 1. a dot in a directory (or package) part of the name suppresses the
#    default extension
def finding_1():
    root = tempfile.mkdtemp()
    sys.path.insert(0, root)
    write(os.path.join(root, 'site', 'pages', 'index.pt'),
          '<p tal:define="lay load: ../shared/layout">'
          'index+${structure: lay()}</p>')
    write(os.path.join(root, 'site', 'shared', 'layout.pt'), '<b>layout</b>')
    write(os.path.join(root, 'site', 'pages', 'v1.2', 'note.pt'), '<p>note</p>')
    write(os.path.join(root, 'my.proj', 'home.pt'), '<p>home</p>')
    write(os.path.join(root, 'c16pkg', '__init__.py'), '')
    write(os.path.join(root, 'c16pkg', 'sub', '__init__.py'), '')
    write(os.path.join(root, 'c16pkg', 'sub', 't', 'hello.pt'), '<p>hello</p>')

    loader = TemplateLoader(
        [os.path.join(root, 'site', 'pages')], default_extension='.pt')
    results = {}
    for name in ('index',                 # control: works
                 './index',               # relative, dot-less file name
                 '../shared/layout',
                 'v1.2/note',
                 os.path.join(root, 'my.proj', 'home'),   # absolute
                 'c16pkg.sub:t/hello'):   # package-relative
        try:
            results[name] = loader.load(name)()
        except Exception as exc:
            results[name] = 'EXC:%s: %s' % (
                type(exc).__name__, str(exc).splitlines()[0])
    for name, value in results.items():
        print('   load(%r) -> %s' % (name.replace(root, '<root>'),
                                     value.replace(root, '<root>')))
    bad = [n for n, v in results.items() if v.startswith('EXC')]
    print('BAD 1' if bad else 'OK 1',
          'default extension not added for %d dot-less names' % len(bad))


# ---------------------------------------------------------------------------
# 2. macros.names iterates the live instance dictionary: a concurrent
#    reload makes it raise RuntimeError
def finding_2():
    root = tempfile.mkdtemp()
    path = write(os.path.join(root, 'a.pt'),
                 '<html><i metal:define-macro="one">1</i></html>', 1e9)
    t = PageTemplateFile(path, auto_reload=True)
    t()
    in_loop = threading.Event()
    go_on = threading.Event()
    code = Macros.names.fget.__code__
    state = {'hit': False}

    def tracer(frame, event, arg):
        if frame.f_code is not code:
            return None

        def local(frame, event, arg):
            # first line executed inside the loop body
            if event == 'line' and not state['hit'] \
                    and 'name' in frame.f_locals:
                state['hit'] = True
                in_loop.set()
                go_on.wait(5)
            return local
        return local

    result = []

    def lister():
        sys.settrace(tracer)
        try:
            result.append(sorted(t.macros.names))
        except Exception as exc:
            result.append('EXC:%r' % exc)
        finally:
            sys.settrace(None)

    thread = threading.Thread(target=lister)
    thread.start()
    in_loop.wait(5)
    # meanwhile the file gets two more macros and another thread renders
    write(path, '<html><i metal:define-macro="one">1</i>'
                '<i metal:define-macro="two">2</i>'
                '<i metal:define-macro="three">3</i></html>', 1e9 + 5)
    t()
    go_on.set()
    thread.join()
    print('   macros.names ->', result[0])
    print('BAD 2' if isinstance(result[0], str) else 'OK 2',
          'listing macros while another thread reloads')


# ---------------------------------------------------------------------------
# 3. the cook of an older version marks the template as cooked again after
#    another thread has invalidated it for a newer version: the newer
#    version is never compiled
def finding_3():
    root = tempfile.mkdtemp()
    path = write(os.path.join(root, 'a.pt'), '<p>v1</p>', 1e9)
    t = PageTemplateFile(path, auto_reload=True)
    assert t() == '<p>v1</p>'

    cook_code = BaseTemplate.cook.__code__
    check_code = BaseTemplateFile.cook_check.__code__
    flag_line = line_of(BaseTemplate.cook, 'self._cooked = True')
    stamp_line = line_of(BaseTemplateFile.cook_check,
                         'self._v_last_read = stamp')
    a_before_flag = threading.Event()
    a_go = threading.Event()
    a_done = threading.Event()

    def tracer_a(frame, event, arg):
        if frame.f_code is not cook_code:
            return tracer_a if event == 'call' else None

        def local(frame, event, arg):
            if event == 'line' and frame.f_lineno == flag_line \
                    and not a_before_flag.is_set():
                # v2 is published, the flag is about to be set
                a_before_flag.set()
                a_go.wait(5)
            return local
        return local

    def tracer_b(frame, event, arg):
        if frame.f_code is not check_code:
            return tracer_b if event == 'call' else None

        def local(frame, event, arg):
            if event == 'line' and frame.f_lineno == stamp_line \
                    and not a_go.is_set():
                # B has cleared the flag for v3; now A finishes
                a_go.set()
                a_done.wait(5)
            return local
        return local

    out = {}

    def run(name, tracer):
        sys.settrace(tracer)
        try:
            out[name] = t()
        finally:
            sys.settrace(None)
            if name == 'A':
                a_done.set()

    write(path, '<p>v2</p>', 1e9 + 1)
    a = threading.Thread(target=run, args=('A', tracer_a))
    a.start()
    a_before_flag.wait(5)
    write(path, '<p>version3</p>', 1e9 + 2)
    b = threading.Thread(target=run, args=('B', tracer_b))
    b.start()
    a.join()
    b.join()
    later = [t() for i in range(3)]
    print('   thread results', out, 'later renderings', later)
    print('BAD 3' if later[-1] != '<p>version3</p>' else 'OK 3',
          'file is at version3 and unchanged; template renders', later[-1])


# ---------------------------------------------------------------------------
# 4. (borderline) an empty default extension turns "a" into "a."
def finding_4():
    root = tempfile.mkdtemp()
    write(os.path.join(root, 'a'), '<p>a</p>')
    loader = TemplateLoader([root], default_extension='')
    try:
        value = loader.load('a')()
    except Exception as exc:
        value = 'EXC:%s: %s' % (type(exc).__name__, exc)
    print('   load("a") ->', value)
    print('BAD 4 (borderline)' if value.startswith('EXC') else 'OK 4')


# ---------------------------------------------------------------------------
# 5. (borderline) "b" and "b.pt" resolve to one file but two instances
def finding_5():
    root = tempfile.mkdtemp()
    write(os.path.join(root, 'b.pt'), '<p>b</p>')
    loader = TemplateLoader([root], default_extension='.pt')
    one, two = loader.load('b'), loader.load('b.pt')
    print('   same file:', one.filename == two.filename,
          'same instance:', one is two)
    print('BAD 5 (borderline)' if one is not two else 'OK 5')


if __name__ == '__main__':
    for f in (finding_1, finding_2, finding_3, finding_4, finding_5):
        print(f.__name__)
        f()
