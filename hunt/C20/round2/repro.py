"""C20 (text-mode templates), second round: reproduction of findings.

Run: PYTHONPATH=/tmp/wth2_C20/src /venv/bin/python /tmp/wth2_C20/repro.py
"""
import codecs
import os
import tempfile

from chameleon import PageTemplateLoader
from chameleon import PageTextTemplate
from chameleon import PageTextTemplateFile

tmp = tempfile.mkdtemp()


def render_file(name, data, **kw):
    path = os.path.join(tmp, name)
    with open(path, 'wb') as f:
        f.write(data)
    return PageTextTemplateFile(path)(**kw)


def show(n, title, observed, expected):
    verdict = "VIOLATION" if observed != expected else "ok"
    print("#%d %s\n    observed: %r\n    expected: %r\n    -> %s" % (
        n, title, observed, expected, verdict))


def call(f):
    try:
        return f()
    except Exception as exc:
        return "EXC:%s" % type(exc).__name__


# 1. byte order marks that the output codec does not write itself
data = codecs.BOM_UTF16_BE + 'hé ${x}'.encode('utf-16-be')
show(1, "UTF-16-BE file with BOM (this is a little-endian machine)",
     render_file('be16.txt', data, x='y'),
     codecs.BOM_UTF16_BE + 'hé y'.encode('utf-16-be'))
data = codecs.BOM_UTF32_BE + 'a'.encode('utf-32-be')
show(1, "UTF-32-BE file with BOM",
     render_file('be32.txt', data), data)
data = codecs.BOM_UTF8 + codecs.BOM_UTF8 + b'a'
show(1, "UTF-8 file: BOM followed by a U+FEFF character",
     render_file('two.txt', data), data)

# 2. implicit_i18n_translate in a text template
src = 'Dear ${name},\n\n  your   order:\n\n    * item\n'
show(2, "implicit_i18n_translate=True (string template)",
     PageTextTemplate(src, implicit_i18n_translate=True)(name='<Bob>'),
     src.replace('${name}', '<Bob>'))
with open(os.path.join(tmp, 'mail.txt'), 'w') as f:
    f.write('a   b\n\n  c\n')
loader = PageTemplateLoader(tmp, implicit_i18n_translate=True)
show(2, "loader option meant for the HTML templates, format='text'",
     loader.load('mail.txt', format='text')(), b'a   b\n\n  c\n')

# 3. a variable named ``self``
show(3, "binding self='V'",
     call(lambda: PageTextTemplate('<${self}>')(self='V')), '<V>')

# 4. (borderline) a variable named ``encoding``
show(4, "binding encoding='V' (documented argument of render)",
     call(lambda: PageTextTemplate('<${encoding}>')(encoding='utf-8')),
     '<utf-8>')


# 5. (borderline) __html__ instead of str()
class H:
    def __html__(self):
        return '<html>'

    def __str__(self):
        return 'plain'


show(5, "value with __html__ (no markup layer in text mode)",
     PageTextTemplate('${x}')(x=H()), 'plain')

# 6. (borderline) None
show(6, "value None", PageTextTemplate('[${x}]')(x=None), '[None]')

# 7. (borderline) bytes
show(7, "value b'caf\\xc3\\xa9'", PageTextTemplate('${x}')(x=b'caf\xc3\xa9'),
     str(b'caf\xc3\xa9'))
show(7, "value b'\\xe9'",
     call(lambda: PageTextTemplate('${x}')(x=b'\xe9')), str(b'\xe9'))
