"""Reproduces the C20 findings (text-mode templates copy their source
verbatim except for ${...} and $$).

Run as:  PYTHONPATH=/tmp/wth_C20/src /venv/bin/python repro.py
"""
import os
import tempfile

from chameleon import PageTextTemplate
from chameleon import PageTextTemplateFile


def render(src, _opts=None, **bindings):
    try:
        return PageTextTemplate(src, **(_opts or {})).render(**bindings)
    except Exception as exc:  # noqa
        msg = (str(exc).splitlines() or [''])[0]
        return 'RAISED %s: %s' % (type(exc).__name__, msg)


def render_file(data, **opts):
    d = tempfile.mkdtemp()
    p = os.path.join(d, 't.txt')
    with open(p, 'wb') as f:
        f.write(data)
    try:
        return PageTextTemplateFile(p, **opts).render()
    except Exception as exc:  # noqa
        msg = (str(exc).splitlines() or [''])[0]
        return 'RAISED %s: %s' % (type(exc).__name__, msg)


n_viol = 0


def show(title, inp, observed, expected, bindings=None):
    global n_viol
    bad = observed != expected
    n_viol += bad
    print('   input   : %r%s' % (inp, '  bindings=%r' % (bindings,) if bindings else ''))
    print('   observed: %r' % (observed,))
    print('   expected: %r' % (expected,))
    print('   -> %s' % ('VIOLATION' if bad else 'ok (not reproduced)'))


def case(title, src, expected, _opts=None, **bindings):
    show(title, src if not _opts else (src, _opts),
         render(src, _opts, **bindings), expected, bindings)


print('== 1. HTML entities inside ${...} are decoded before the expression is parsed')
case('', "${'&amp;'}", '&amp;')
case('', "${'<a href=\"?a=1&amp;b=2\">'}", '<a href="?a=1&amp;b=2">')
case('', "${'&lt;b&gt; &#65; &nbsp;'}", '&lt;b&gt; &#65; &nbsp;')
case('', "${'&#x110000;'}", '&#x110000;')

print()
print('== 2. CR / CRLF line endings of the source are rewritten to LF')
case('', 'a\r\nb\rc\n', 'a\r\nb\rc\n')
case('', 'k: ${x}\r\n', 'k: 1\r\n', x=1)
show('', b'a\r\nb', render_file(b'a\r\nb'), b'a\r\nb')

print()
print('== 3. Longest-match search for the closing brace swallows literal text and later ${...}')
case('', '${string:a} and ${string:b}', 'a and b')
case('', '${x | string:n/a} and ${y}', 'X and Y', x='X', y='Y')
case('', '${string:$n} items}', '3 items}', n=3)

print()
print('== 4. A "${" that does not open an expression makes the whole template fail')
case('', 'usage: ${ ... ${x}', 'usage: ${ ... 1', x=1)
case('', '${ } ${x}', '${ } 1', x=1)
print('   (for comparison, "${}" and an unclosed "${ x" are copied verbatim)')
case('', '${} ${ x', '${} ${ x')

print()
print('== 5. File/bytes text templates: encoding is sniffed from markup-looking text')
src = 'é <meta http-equiv="Content-Type" content="text/html; charset=latin-1">'.encode('utf-8')
show('', src, render_file(src), src)
src = '<?xml version="1.0" encoding="latin-1"?> é'.encode('utf-8')
show('', src, render_file(src), src)
src = 'é <meta http-equiv="Content-Type" content="text/plain; charset=${charset}">'.encode('utf-8')
show('', src, render_file(src), 'RAISED NameError: charset')
src = b'\xef\xbb\xbfplain'
show('', src, render_file(src), src)

print()
print('== 6. Values with a "default" / "mapping" attribute are not rendered as str(value)')


class Option:
    default = 'DEFAULT-ATTR'

    def __str__(self):
        return 'str-of-option'


class Msgish:
    mapping = {'a': 1}

    def __str__(self):
        return 'str-of-msgish'


case('', '[${x}]', '[str-of-option]', x=Option())
case('', '[${x}]', '[str-of-msgish]', x=Msgish())

print()
print('== 7. Line breaks inside a ${...} expression (string literals) become spaces')
case('', "${'''a\nb'''}", 'a\nb')
case('', "${'a\\\nb'}", 'ab')

print()
print('== 8. implicit_i18n_translate=True rewrites literal text of a text template')
case('', '  hello   world \n  ', '  hello   world \n  ',
     {'implicit_i18n_translate': True})
case('', '$$x costs ${x}', '$x costs 1',
     {'implicit_i18n_translate': True}, x=1)

print()
print('== 9. Bindings whose names collide with compiler locals are ignored')
case('', '[${decode}]', '[VAL]', decode='VAL')
case('', '[${on_error_handler}]', '[VAL]', on_error_handler='VAL')
case('', '[${rcontext}]', '[VAL]', rcontext='VAL')
case('', '[${__x}]', '[VAL]', __x='VAL')

print()
print('%d violating cases shown' % n_viol)
