"""C17, second round: reproductions.  Run with
PYTHONPATH=/tmp/wth2_C17/src /venv/bin/python repro.py
Each finding prints BAD while the defect is present, OK otherwise."""
import codecs
import os
import tempfile

from chameleon import PageTemplate
from chameleon import PageTemplateFile
from chameleon.zpt.template import PageTextTemplateFile


def render(cls, source, options=None, **kwargs):
    try:
        t = cls(source, **(options or {}))
        return t(**kwargs), t.content_type, t.content_encoding
    except Exception as e:  # noqa
        return 'EXC:%s' % type(e).__name__, None, None


def verdict(n, title, bad, *details):
    print('%s F%d %s' % ('BAD' if bad else 'OK ', n, title))
    for d in details:
        print('      ', d)


# F1 -- meta charset that is no codec name (e.g. an interpolation)
src = ('<html><head><meta http-equiv="Content-Type" '
       'content="text/html; charset=${cs}"></head><body>x</body></html>')
as_str = render(PageTemplate, src, cs='utf-8')
as_bytes = render(PageTemplate, src.encode('utf-8'), cs='utf-8')
verdict(1, 'meta charset that is not a codec name (${cs}) -> LookupError',
        as_str[0] != as_bytes[0], as_str, as_bytes)

# F2 -- meta spelled in a CDATA section / a processing instruction
for label, src in (
    ('CDATA', '<html><![CDATA[<meta http-equiv="Content-Type" '
              'content="text/html; charset=latin-1">]]><p>\xe9</p></html>'),
    ('PI', '<html><?python s = \'<meta http-equiv="Content-Type" '
           'content="text/html; charset=latin-1">\' ?><p>\xe9</p></html>'),
):
    as_str = render(PageTemplate, src)
    as_bytes = render(PageTemplate, src.encode('utf-8'))
    verdict(2, 'meta inside %s decides the encoding' % label,
            as_str[0] != as_bytes[0], as_str, as_bytes)

# F3 -- GB18030 (and UTF-7) mark followed by an XML declaration
MARK = b'\x84\x31\x95\x33'
src = ('<?xml version="1.0" encoding="gb18030"?>\r\n'
       '<input checked="" tal:attributes="checked True"/>')
as_str = render(PageTemplate, src)
as_bytes = render(PageTemplate, MARK + src.encode('gb18030'))
verdict(3, 'GB18030 mark + XML declaration (encoding named there)',
        as_str[:2] != as_bytes[:2], as_str, as_bytes)
src = ('<?xml version="1.0"?>\r\n'
       '<input checked="" tal:attributes="checked True"/>')
as_str = render(PageTemplate, src)
as_bytes = render(PageTemplate, MARK + src.encode('gb18030'),
                  {'default_encoding': 'gb18030'})
verdict(3, 'GB18030 mark + XML declaration (default_encoding=gb18030)',
        as_str[:2] != as_bytes[:2], as_str, as_bytes)
as_bytes = render(PageTemplate, b'+/v8-' + src.encode('utf-7'),
                  {'default_encoding': 'utf-7'})
verdict(3, 'UTF-7 mark + XML declaration (default_encoding=utf-7)',
        as_str[:2] != as_bytes[:2], as_str, as_bytes)

# F4 (borderline) -- content_type of a meta element is not reported
# behind a byte-order mark
src = ('<html><head><meta http-equiv="Content-Type" '
       'content="application/xhtml+xml; charset=utf-8" /></head></html>')
as_str = render(PageTemplate, src)
as_bytes = render(PageTemplate, src.encode('utf-8'))
as_bom = render(PageTemplate, codecs.BOM_UTF8 + src.encode('utf-8'))
verdict(4, '(borderline) content_type behind a BOM differs from str',
        as_bom[1] != as_str[1], as_str[1:], as_bytes[1:], as_bom[1:])

# F5 (borderline) -- PageTextTemplateFile writes the mark back, but only
# for UTF-8 and for the UTF-16/32 flavour of the host's byte order
tmp = tempfile.mkdtemp()
outs = []
for name, bom, enc in (('u8', codecs.BOM_UTF8, 'utf-8'),
                       ('le', codecs.BOM_UTF16_LE, 'utf-16-le'),
                       ('be', codecs.BOM_UTF16_BE, 'utf-16-be')):
    fn = os.path.join(tmp, name + '.txt')
    with open(fn, 'wb') as f:
        f.write(bom + 'Hi ${n}'.encode(enc))
    out = PageTextTemplateFile(fn)(n='x')
    outs.append((name, out))
verdict(5, '(borderline) text template file: mark reaches the output bytes',
        any(out.startswith((codecs.BOM_UTF8, codecs.BOM_UTF16_LE,
                            codecs.BOM_UTF16_BE)) for _, out in outs),
        *outs)

# F6 -- self-closing <script ... /> before the meta element
src = ('<html><head>\n<script type="text/javascript" src="x.js" />\n'
       '<meta http-equiv="Content-Type" '
       'content="text/html; charset=latin-1" />\n</head>'
       '<body><script>var a;</script>\xe9</body></html>')
as_str = render(PageTemplate, src)
as_bytes = render(PageTemplate, src.encode('latin-1'))
fn = os.path.join(tmp, 'f6.pt')
with open(fn, 'wb') as f:
    f.write(src.encode('latin-1'))
as_file = render(PageTemplateFile, fn)
verdict(6, 'self-closing script before the meta hides the charset',
        as_str[0] != as_bytes[0] or as_str[0] != as_file[0],
        as_str, as_bytes, as_file)

# F7 -- '>' inside a quoted attribute value of the meta element
src = ('<html><head><meta tal:condition="2 > 1" http-equiv="Content-Type" '
       'content="text/html; charset=latin-1" /></head>\xe9</html>')
as_str = render(PageTemplate, src)
as_bytes = render(PageTemplate, src.encode('latin-1'))
verdict(7, "'>' in a quoted attribute value of the meta hides the charset",
        as_str[0] != as_bytes[0], as_str, as_bytes)

# F8 (borderline) -- a file template does not report before it is rendered
fn = os.path.join(tmp, 'f8.pt')
with open(fn, 'wb') as f:
    f.write(b'<?xml version="1.0"?><a/>')
t = PageTemplateFile(fn)
try:
    ct = t.content_type
except AttributeError as e:
    ct = 'EXC:AttributeError'
verdict(8, '(borderline) PageTemplateFile.content_type before first render',
        ct != 'text/xml', ct)
