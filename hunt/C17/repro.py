"""C17 audit: byte input is decoded by BOM / XML declaration / meta charset,
then acts as str.

Run as:  PYTHONPATH=/tmp/wth_C17/src /venv/bin/python repro.py
"""
import os

# needed only for finding 9 (forces a thread schedule through the library's
# own no-op verification hooks; nothing in the library is modified)
os.environ["MALTHE_CHAMELEON_VERIF"] = "1"

import codecs
import tempfile
import threading

from chameleon import PageTemplate
from chameleon import PageTemplateFile
from chameleon import _verif

TMP = tempfile.mkdtemp()
_n = [0]


def render(data, cls="string", **kw):
    """Return (output, content_type, content_encoding) or an 'EXC ...' string."""
    try:
        if cls == "string":
            t = PageTemplate(data, **kw)
        else:
            _n[0] += 1
            fn = os.path.join(TMP, "t%d.pt" % _n[0])
            with open(fn, "wb") as f:
                f.write(data)
            t = PageTemplateFile(fn, **kw)
        return (t.render(), t.content_type, t.content_encoding)
    except Exception as e:
        return "EXC %s: %s" % (type(e).__name__, str(e)[:160])


def finding(no, title, data, expected, ref=None, file_too=True):
    print("=" * 78)
    print("FINDING %s: %s" % (no, title))
    print("  input bytes   :", data)
    print("  observed (PageTemplate)    :", render(data))
    if file_too:
        print("  observed (PageTemplateFile):", render(data, "file"))
    if ref is not None:
        print("  same document as str       :", render(ref))
    print("  expected      :", expected)


# --------------------------------------------------------------------------
# 1. "encoding=" anywhere in the body is taken for the XML declaration's
s = '<?xml version="1.0"?>\n<doc><a encoding="latin-1">é</a></doc>'
finding(
    1, "encoding= attribute later in the document is read as the "
    "declaration's encoding",
    s.encode("utf-8"),
    "declaration names no encoding -> default utf-8 -> output contains "
    "'é' (like the str document), content_encoding 'utf-8'",
    ref=s)

# --------------------------------------------------------------------------
# 2. XML declaration without encoding: meta charset is skipped
s = ('<?xml version="1.0"?>\n<html><head><meta http-equiv="Content-Type" '
     'content="text/html; charset=cp1251" /></head>'
     '<body>Привет</body></html>')
finding(
    2, "XML declaration without encoding: the meta charset is never consulted",
    s.encode("cp1251"),
    "no BOM, no encoding in the declaration -> next in order is the meta "
    "charset cp1251 -> renders 'Привет' like the str document",
    ref=s)

# --------------------------------------------------------------------------
# 3. unquoted meta attributes: charset group swallows the rest of the document
s = ('<html><head><meta http-equiv=Content-Type '
     'content=text/html;charset=cp1251><title>П</title></head>'
     '<body><p>hi</p></body></html>')
finding(
    3, "unquoted meta attributes: the charset swallows the document up to "
    "its last '>'",
    s.encode("cp1251"),
    "charset cp1251 is used; renders like the str document; "
    "content_encoding 'cp1251' (also for the str document, which reports "
    "the tail of the document as its encoding)",
    ref=s)
s3b = ('<html><head><meta http-equiv="Content-Type" content="text/html">'
       '</head><body><p>é; charset=cp1251 ></p></body></html>')
print("  variant (type-only meta, '; charset=' in later text):",
      render(s3b.encode("utf-8")))

# --------------------------------------------------------------------------
# 4. legal spellings of the meta element that are not recognised
print("=" * 78)
print("FINDING 4: meta content-type element with a third attribute or with "
      "spaces around '=' is not recognised")
for m in [
    '<meta name="x" http-equiv="Content-Type" content="text/html; charset=cp1251">',
    '<meta http-equiv="Content-Type" id="x" content="text/html; charset=cp1251">',
    '<meta http-equiv="Content-Type" content="text/html; charset=cp1251" id="x">',
    '<meta content="text/html; charset=cp1251" http-equiv="Content-Type" id="x">',
    '<meta http-equiv = "Content-Type" content = "text/html; charset=cp1251">',
    '<meta http-equiv="Content-Type" content="text/html; charset = cp1251">',
]:
    s = '<html><head>%s</head><body>Привет</body></html>' % m
    print("  input bytes:", s.encode("cp1251"))
    print("    observed (string):", render(s.encode("cp1251")))
    print("    observed (file)  :", render(s.encode("cp1251"), "file"))
    print("    as str           :", render(s)[0:1])
print("  expected: every one decodes with cp1251 and renders 'Привет' like "
      "the str document")

# --------------------------------------------------------------------------
# 5. a meta element that is not an element (comment, script string)
s = ('<html><head><!-- <meta http-equiv="Content-Type" '
     'content="text/html; charset=cp1251"> --></head><body>é</body></html>')
finding(
    5, "meta inside a comment (or script text) decides the encoding",
    s.encode("utf-8"),
    "there is no meta element -> default utf-8 -> 'é' like the str "
    "document, content_encoding 'utf-8'",
    ref=s)
s5b = ('<html><body><script>var s = \'<meta http-equiv="Content-Type" '
       'content="text/html; charset=cp1251">\';</script>é</body></html>')
print("  variant (inside a script string):", render(s5b.encode("utf-8")))

# --------------------------------------------------------------------------
# 6. meta content type text/xml turns a declaration-less document into XML,
#    and a BOM makes bytes and str disagree
s = ('<html><head><meta http-equiv="Content-Type" '
     'content="text/xml; charset=utf-8" /></head><body>'
     '<input type="checkbox" tal:attributes="checked True" />\r\n'
     '</body></html>')
finding(
    6, "meta 'text/xml' makes a document without XML declaration XML; with a "
    "BOM the bytes and str renderings differ",
    s.encode("utf-8"),
    "no XML declaration -> HTML: checked=\"checked\", CRLF -> LF, "
    "content_type not text/xml",
    ref=s)
print("  same bytes behind a UTF-8 BOM:", render(codecs.BOM_UTF8 + s.encode("utf-8")))
print("  -> the BOM document renders as HTML, the identical str document as "
      "XML: 'renders exactly like the same document supplied as str' fails")

# --------------------------------------------------------------------------
# 7. any processing instruction whose target starts with "xml"
s = ('<?xml-stylesheet href="a.xsl"?>\r\n<html><body>'
     '<input tal:attributes="checked True" /></body></html>')
finding(
    7, "<?xml-stylesheet ...?> (or <?xmlfoo?>) at the start counts as an "
    "XML declaration",
    s.encode("utf-8"),
    "the document does not start with an XML declaration -> HTML "
    "(checked=\"checked\", CRLF -> LF, content_type text/html)",
    ref=s)

# --------------------------------------------------------------------------
# 8. encoding names with '.' (legal EncName, known to Python) are not matched
s = '<?xml version="1.0" encoding="iso8859.1"?><p>é</p>'
finding(
    8, "declared encoding containing '.' is ignored",
    s.encode("latin-1"),
    "decoded with the declared iso8859.1 -> 'é'",
    ref=s)

# --------------------------------------------------------------------------
# 9. GB18030 signature is not recognised as a BOM and reaches the output
s = ('<html><head><meta http-equiv="Content-Type" '
     'content="text/html; charset=gb18030"></head><body>中</body></html>')
finding(
    9, "GB18030 byte-order mark (84 31 95 33) reaches the output as U+FEFF",
    b"\x84\x31\x95\x33" + s.encode("gb18030"),
    "no byte-order mark in the output; output equals the str document's",
    ref=s)

# --------------------------------------------------------------------------
# 10. thread schedule: content_type travels via the instance, not with the body
print("=" * 78)
print("FINDING 10: file template, two threads, file replaced between their "
      "reads: an XML document is compiled with the other read's HTML decision")
fn = os.path.join(TMP, "race.pt")
XML = (b'<?xml version="1.0"?>\r\n<doc>'
       b'<input tal:attributes="checked True"/></doc>')
HTML = b'<html><input tal:attributes="checked True"/>v2</html>'
with open(fn, "wb") as f:
    f.write(XML)
os.utime(fn, (1000, 1000))
t = PageTemplateFile(fn, auto_reload=True)
gate, reached = threading.Event(), threading.Event()


def callback(label, info):
    # thread A pauses after read() and before cook()
    if label == "check.read" and threading.current_thread().name == "A":
        reached.set()
        gate.wait()


_verif.set_callback(callback)
out = {}


def run_a():
    out["A"] = (t.render(), t.content_type)


A = threading.Thread(target=run_a, name="A")
A.start()
reached.wait()
with open(fn, "wb") as f:
    f.write(HTML)
os.utime(fn, (2000, 2000))
out["B"] = (t.render(), t.content_type)   # reads HTML, sets content_type
gate.set()
A.join()
_verif.set_callback(None)
print("  schedule: A reads the XML file | file replaced by an HTML file | "
      "B reads+cooks it | A cooks what it read")
print("  input (A's read):", XML)
print("  observed, thread A:", out["A"])
print("  expected, thread A:",
      ('<?xml version="1.0"?>\r\n<doc><input checked="True"/></doc>',
       "text/xml"))
