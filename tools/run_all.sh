#!/bin/bash
# tools/run_all.sh [tier] -- run every registered check once (VERIF_SEED from the environment)
cd "$(dirname "$0")/.."
tier=${1:-quick}
for id in $(python3 -c "import json;print(' '.join(c['property_id'] for c in json.load(open('MANIFEST.json'))['checks']))"); do
  /venv/bin/python -m harness.check $id $tier 2>&1 | tail -1
done
