#!/bin/bash
# collect a sub-agent's two seeded changes: tools/collect_seed2.sh <worktree> <property id> <suffix for A> <suffix for B>
set -e
wt=$1; pid=$2; sa=$3; sb=$4
for pair in "A:$sa" "B:$sb"; do
  L=${pair%%:*}; sfx=${pair##*:}
  if [ -f $wt/patch$L.diff -a -f $wt/demo$L.py -a -f $wt/meta$L.json ]; then
    mkdir -p /verif/seeded/$pid-$sfx
    cp $wt/patch$L.diff /verif/seeded/$pid-$sfx/patch.diff
    cp $wt/demo$L.py /verif/seeded/$pid-$sfx/demo.py
    cp $wt/meta$L.json /verif/seeded/$pid-$sfx/meta.json
    echo collected $pid-$sfx
  else
    echo "missing $L in $wt"
  fi
done
git -C /repo worktree remove --force $wt
git -C /repo worktree prune
