#!/usr/bin/env python3
"""tools/manifest_add.py <id> <technique> <design_ref> <text> <note>  -- add/replace a check entry"""
import json, sys
pid, technique, design, text, note = sys.argv[1:6]
m = json.load(open('/verif/MANIFEST.json'))
m['checks'] = [c for c in m['checks'] if c['property_id'] != pid]
m['checks'].append({"property_id": pid,
  "quick_cmd": "/venv/bin/python -m harness.check %s quick" % pid,
  "thorough_cmd": "/venv/bin/python -m harness.check %s thorough" % pid,
  "evidence_file": "/verif/evidence/%s.json" % pid,
  "replay_cmd_template": "/venv/bin/python -m harness.check --replay {path}",
  "engine": "tlc+replay",
  "level_claimed": {"category": "model_checking", "text": text, "design_ref": design},
  "level_note": note, "technique": technique})
m['checks'].sort(key=lambda c: c['property_id'])
m['not_applicable'] = [n for n in m['not_applicable'] if n['property_id'] != pid]
for e in m['engines']:
    if pid not in e['serves_properties']:
        e['serves_properties'].append(pid); e['serves_properties'].sort()
json.dump(m, open('/verif/MANIFEST.json', 'w'), indent=1)
