#!/usr/bin/env python3
"""tools/seeded_run.py [ids...] -- confirm and evaluate the seeded changes under /verif/seeded.

For every seeded/<id>/ (patch.diff, demo.py, meta.json):
  1. a scratch worktree of /repo HEAD is created under /tmp (removed afterwards);
  2. confirmation: the demonstration passes on the unchanged tree, the patch applies, the repository's test
     suite still passes with it, the demonstration fails with it;
  3. the quick check of the property (and any listed in meta 'also') runs with VERIF_REPO_SRC pointing at the
     patched worktree; detected = exit 1 with a VIOLATION line.
Results are written to seeded/results.json and seeded/README.md.
"""
import json
import os
import shutil
import subprocess
import sys

VERIF = os.path.dirname(os.path.dirname(os.path.abspath(__file__)))
SEEDED = os.path.join(VERIF, "seeded")
PY = "/venv/bin/python"


def sh(cmd, cwd=None, env=None, timeout=3000):
    p = subprocess.run(cmd, shell=True, cwd=cwd, env=env, capture_output=True, text=True, timeout=timeout)
    return p.returncode, p.stdout + p.stderr


def main(ids):
    results = {}
    try:
        results = json.load(open(os.path.join(SEEDED, "results.json")))
    except Exception:
        pass
    results = {k: v for k, v in results.items() if os.path.exists(os.path.join(SEEDED, k, "meta.json"))}
    for sid in sorted(os.listdir(SEEDED)):
        d = os.path.join(SEEDED, sid)
        if not os.path.isdir(d) or (ids and sid not in ids) or not os.path.exists(os.path.join(d, "meta.json")):
            continue
        meta = json.load(open(os.path.join(d, "meta.json")))
        wt = "/tmp/seedwt_%s_%d" % (sid, os.getpid())
        sh("git -C /repo worktree remove --force %s" % wt)
        rc, out = sh("git -C /repo worktree add -q --detach %s HEAD" % wt)
        res = {"property": meta["property"], "what": meta.get("what"), "needs": meta.get("needs")}
        try:
            env = dict(os.environ, PYTHONPATH=wt + "/src", VERIF_REPO_SRC=wt + "/src")
            shutil.copy(os.path.join(d, "demo.py"), wt + "/demo.py")
            rc0, o0 = sh("%s demo.py" % PY, cwd=wt, env=env)
            rc, out = sh("git apply %s" % os.path.join(d, "patch.diff"), cwd=wt)
            res["applies"] = rc == 0
            rc1, o1 = sh("%s demo.py" % PY, cwd=wt, env=env)
            rct, ot = sh("%s -m pytest -q -p no:cacheprovider src/chameleon/tests 2>&1 | tail -1" % PY, cwd=wt, env=env)
            res["demo_unchanged_ok"] = rc0 == 0
            res["demo_fails_with_change"] = rc1 != 0
            res["tests"] = ot.strip()
            res["confirmed"] = bool(res["applies"] and rc0 == 0 and rc1 != 0 and "passed" in ot and "failed" not in ot)
            checks = [meta["property"]] + meta.get("also", [])
            res["checks"] = {}
            for c in checks:
                rcc, oc = sh("%s -m harness.check %s quick" % (PY, c), cwd=VERIF, env=dict(os.environ, VERIF_REPO_SRC=wt + "/src"))
                lines = [l for l in oc.splitlines() if l.startswith("VIOLATION")]
                first = [l for l in oc.splitlines() if l and not l.startswith(("VIOLATION", "KNOWN", " "))][:1]
                res["checks"][c] = {"rc": rcc, "violations": len(lines), "detected": rcc == 1 and bool(lines), "first": (first[0][:300] if first else "")}
            # restore evidence written by these runs (they describe a patched tree)
            sh("git -C %s checkout -- evidence" % VERIF)
        finally:
            sh("git -C /repo worktree remove --force %s" % wt)
            shutil.rmtree(wt, ignore_errors=True)
        results[sid] = res
        print(sid, json.dumps(res)[:400], flush=True)
        json.dump(results, open(os.path.join(SEEDED, "results.json"), "w"), indent=1)
    lines = ["# Seeded changes", "", "Independent sub-agents were given only a property's text and a scratch worktree of malthe/chameleon and asked for a",
             "change that breaks the property while the repository's tests still pass.  Each change below was confirmed",
             "(`tools/seeded_run.py`: patch applies, 233 tests pass with it, the demonstration fails with it and passes without) and",
             "the quick check of its property was run against the patched tree.", "",
             "| id | property | change | needs | confirmed | detected by |", "|---|---|---|---|---|---|"]
    for sid, r in sorted(results.items()):
        det = ", ".join("%s (%d)" % (c, v["violations"]) for c, v in r.get("checks", {}).items() if v["detected"]) or "**missed**"
        lines.append("| %s | %s | %s | %s | %s | %s |" % (sid, r["property"], (r.get("what") or "").replace("|", "/")[:160],
                                                        (r.get("needs") or "").replace("|", "/")[:160], "yes" if r.get("confirmed") else "NO", det))
    open(os.path.join(SEEDED, "README.md"), "w").write("\n".join(lines) + "\n")


if __name__ == "__main__":
    main(sys.argv[1:])
