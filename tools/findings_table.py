#!/usr/bin/env python3
"""write FINDINGS.md: every entry of known_findings.json as a table (fixed: commit; known: why not repaired)"""
import json
d = json.load(open("/verif/known_findings.json"))["findings"]
out = ["# Findings (generated from known_findings.json by tools/findings_table.py)", "",
       "`fixed` entries name the `fix:` commit in /repo; an entry with a witness is re-run by the property's check on every run",
       "(a fixed defect that returns is a VIOLATION; a known one prints its KNOWN-FINDING line).  `origin` hunt/... = reported by a",
       "defect-hunting sub-agent and reproduced here; no origin = first seen as a mismatch of the model-based check.", ""]
for status in ("known", "fixed"):
    out += ["## %s" % status, "", "| property | %s | what | witness | origin |" % ("dev / kind" if status == "known" else "commit"), "|---|---|---|---|---|"]
    for f in sorted(d, key=lambda f: f["property"]):
        if f["status"] != status:
            continue
        w = "code" if f.get("witness_code") else ("template" if f.get("witness") else "-")
        col = (f.get("dev") or f.get("kind") or "") if status == "known" else f.get("commit", "")
        what = f["what"].replace("|", "\\|").replace("\n", " ")
        if status == "known" and f.get("why_not_fixed"):
            what += " -- *not repaired:* " + f["why_not_fixed"].replace("|", "\\|").replace("\n", " ")
        out.append("| %s | %s | %s | %s | %s |" % (f["property"], col, what, w, f.get("origin", "")))
    out.append("")
open("/verif/FINDINGS.md", "w").write("\n".join(out))
print(len(d), "findings")
