#!/bin/bash
# collect a sub-agent's seeded change: tools/collect_seed.sh <worktree> <seeded id>
set -e
wt=$1; id=$2
mkdir -p /verif/seeded/$id
cp $wt/patch.diff $wt/demo.py $wt/meta.json /verif/seeded/$id/
git -C /repo worktree remove --force $wt
git -C /repo worktree prune
echo collected $id
