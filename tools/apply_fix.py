#!/usr/bin/env python3
"""Apply one candidate repair produced by a defect-hunting sub-agent to /repo.

    tools/apply_fix.py <property> <NN> [--dry]

Steps: the witness is run on the unpatched tree (must be BAD / observed_before), the patch is applied with
`git apply --3way`, the repository's test suite must pass, the witness must be OK / expected_after; then one
commit "fix: ..." is made in /repo and a `fixed` entry (with the witness) is appended to known_findings.json.
Anything that does not hold: the working tree of /repo is restored and the script exits non-zero.
"""
import json
import os
import subprocess
import sys

REPO = "/repo"
HUNT = "/verif/hunt"
FINDINGS = "/verif/known_findings.json"


def sh(cmd, **kw):
    return subprocess.run(cmd, shell=True, capture_output=True, text=True, **kw)


def run_witness(meta):
    env = dict(os.environ, PYTHONPATH=REPO + "/src", PYTHONHASHSEED="0")
    env.pop("CHAMELEON_CACHE", None)
    if meta.get("witness_code"):
        p = subprocess.run(["/venv/bin/python", "-c", meta["witness_code"]], env=env, capture_output=True, text=True, timeout=300)
        last = (p.stdout.strip().splitlines() or [""])[-1]
        return ("good" if last.startswith("OK") else "bad" if last.startswith("BAD") else "other"), (p.stdout + p.stderr)[-400:]
    w = meta["witness"]
    code = ("import json, sys\nfrom chameleon import PageTemplate\nw = json.loads(sys.argv[1])\n"
            "try:\n    got = PageTemplate(w['source'], **w.get('options', {}))(**w.get('kwargs', {}))\n"
            "except BaseException as e:\n    got = 'EXC:' + type(e).__name__\nprint(json.dumps(got))\n")
    p = subprocess.run(["/venv/bin/python", "-c", code, json.dumps(w)], env=env, capture_output=True, text=True, timeout=300)
    try:
        got = json.loads(p.stdout.strip().splitlines()[-1])
    except Exception:
        return "other", (p.stdout + p.stderr)[-400:]
    if got == w.get("expected_after"):
        return "good", got
    if got == w.get("observed_before"):
        return "bad", got
    return "other", got


def main():
    pid, nn = sys.argv[1], sys.argv[2]
    dry = "--dry" in sys.argv
    d = os.path.join(HUNT, pid, "patches")
    meta = json.load(open(os.path.join(d, nn + ".json")))
    diff = os.path.join(d, nn + ".diff")
    merged = "--merged" in sys.argv      # the change has been merged by hand into the working tree of /repo
    if not merged and sh("git -C %s status --porcelain" % REPO).stdout.strip():
        print("repo not clean"); return 2
    if not merged:
        v0, t0 = run_witness(meta)
        print("before:", v0, str(t0)[:200])
        if v0 != "bad":
            print("witness does not show the defect on the current tree -> skipped"); return 3
    r = sh("git -C %s apply --3way %s" % (REPO, diff)) if not merged else sh("true")
    if r.returncode != 0:
        print("patch does not apply:", r.stderr[-500:])
        sh("git -C %s reset -q --hard HEAD" % REPO); return 4
    sh("git -C %s reset -q" % REPO)
    t = sh("cd %s && PYTHONPATH=%s/src /venv/bin/python -m pytest -q -p no:cacheprovider src/chameleon/tests 2>&1 | tail -1" % (REPO, REPO))
    print("tests:", t.stdout.strip())
    v1, t1 = run_witness(meta)
    print("after:", v1, str(t1)[:200])
    if "233 passed" not in t.stdout or v1 != "good" or dry:
        sh("git -C %s checkout -- ." % REPO)
        print("NOT APPLIED" if not dry else "dry run ok"); return 5 if not dry else 0
    summary = meta["summary"].strip()
    if not summary.startswith("fix:"):
        summary = "fix: " + summary
    c = subprocess.run(["git", "-C", REPO, "commit", "-qam", summary], capture_output=True, text=True)
    if c.returncode != 0:
        print("commit failed", c.stderr); sh("git -C %s checkout -- ." % REPO); return 6
    commit = sh("git -C %s log --format=%%h -1" % REPO).stdout.strip()
    db = json.load(open(FINDINGS))
    entry = {"status": "fixed", "property": pid, "commit": commit, "what": meta["finding"],
             "line": "fixed: property=%s %s %s" % (pid, commit, meta["finding"]), "origin": "hunt/%s/patches/%s" % (pid, nn)}
    if meta.get("witness_code"):
        entry["witness_code"] = meta["witness_code"]
    else:
        w = meta["witness"]
        entry["witness"] = {"source": w["source"], "options": w.get("options", {}), "kwargs": w.get("kwargs", {}),
                            "observed": w.get("observed_before"), "expected": w.get("expected_after")}
    db["findings"].append(entry)
    json.dump(db, open(FINDINGS, "w"), indent=1)
    print("APPLIED", commit, summary)
    return 0


if __name__ == "__main__":
    sys.exit(main())
