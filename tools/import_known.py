#!/usr/bin/env python3
"""import the `known/NN.json` records of a defect-hunting sub-agent into known_findings.json (status known, with a witness that
the check re-runs): tools/import_known.py <property> ; every witness is verified against /repo first (must show the defect)"""
import glob
import json
import os
import sys
sys.path.insert(0, os.path.dirname(os.path.abspath(__file__)))
import apply_fix

pid = sys.argv[1]
rnd = sys.argv[2] if len(sys.argv) > 2 else ""          # "" = first round, "2" = second round
wt = "/tmp/wth%s_%s/known" % (rnd, pid)
dst = "/verif/hunt/%s/known%s" % (pid, rnd)
os.makedirs(dst, exist_ok=True)
db = json.load(open(apply_fix.FINDINGS))
have = {f.get("origin") for f in db["findings"]}
for path in sorted(glob.glob(wt + "/[0-9]*.json")):
    nn = os.path.basename(path)[:-5]
    rec = json.load(open(path))
    json.dump(rec, open(os.path.join(dst, nn + ".json"), "w"), indent=1)
    origin = "hunt/%s/known%s/%s" % (pid, rnd, nn)
    if origin in have:
        continue
    meta = {}
    if rec.get("witness_code"):
        meta["witness_code"] = rec["witness_code"]
    else:
        w = rec["witness"]
        meta["witness"] = {"source": w["source"], "options": w.get("options", {}), "kwargs": w.get("kwargs", {}),
                           "observed_before": w.get("observed"), "expected_after": w.get("expected")}
    verdict, text = apply_fix.run_witness(meta)
    if verdict != "bad":
        print(pid, nn, "witness does not show the defect:", verdict, str(text)[:150])
        continue
    entry = {"status": "known", "property": pid, "affects": [pid], "what": rec.get("what") or rec["finding"],
             "why_not_fixed": rec.get("why_not_fixed", ""), "origin": origin}
    if rec.get("witness_code"):
        entry["witness_code"] = rec["witness_code"]
    else:
        w = rec["witness"]
        entry["witness"] = {"source": w["source"], "options": w.get("options", {}), "kwargs": w.get("kwargs", {}),
                            "observed": w.get("observed"), "expected": w.get("expected")}
    db["findings"].append(entry)
    print(pid, nn, "recorded:", entry["what"][:100])
if os.path.exists(wt + "/summary.json"):
    json.dump(json.load(open(wt + "/summary.json")), open(dst + "/summary.json", "w"))
json.dump(db, open(apply_fix.FINDINGS, "w"), indent=1)
