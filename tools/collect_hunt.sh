#!/bin/bash
# collect a defect-hunting sub-agent's report: tools/collect_hunt.sh <property id>
set -e
id=$1; wt=/tmp/wth_$id
mkdir -p /verif/hunt/$id
cp $wt/findings.json $wt/repro.py /verif/hunt/$id/ 2>/dev/null || true
git -C /repo worktree remove --force $wt
git -C /repo worktree prune
echo collected hunt $id
