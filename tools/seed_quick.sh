#!/bin/bash
# tools/seed_quick.sh <seeded id> [check ids...]: patched worktree under /tmp/sw/<id> (kept), confirmation, quick check(s)
id=$1; shift
prop=${id%%-*}
checks=${@:-$prop}
wt=/tmp/sw/$id
mkdir -p /tmp/sw
git -C /repo worktree remove --force $wt >/dev/null 2>&1
git -C /repo worktree add -q --detach $wt HEAD || exit 2
cp /verif/seeded/$id/demo.py $wt/demo.py
(cd $wt && PYTHONPATH=$wt/src /venv/bin/python demo.py >/dev/null 2>&1; echo "demo unchanged rc=$?")
git -C $wt apply /verif/seeded/$id/patch.diff || { echo "PATCH DOES NOT APPLY"; exit 2; }
(cd $wt && PYTHONPATH=$wt/src /venv/bin/python demo.py >/dev/null 2>&1; echo "demo changed rc=$?")
(cd $wt && PYTHONPATH=$wt/src /venv/bin/python -m pytest -q -p no:cacheprovider src/chameleon/tests 2>&1 | tail -1)
for c in $checks; do
  (cd /verif && VERIF_REPO_SRC=$wt/src /venv/bin/python -m harness.check $c quick 2>&1 | grep -v KNOWN-FINDING | tail -3 | cut -c1-400)
done
# the evidence files written by these runs describe a patched tree: put the committed ones back
git -C /verif checkout -- evidence
