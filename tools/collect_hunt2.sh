#!/bin/bash
# tools/collect_hunt2.sh <property>: take over a second-round hunter's deliverables, try every candidate repair, import known ones
id=$1; wt=/tmp/wth2_$id
mkdir -p /verif/hunt/$id/patches /verif/hunt/$id/round2
cp $wt/findings.json /verif/hunt/$id/round2/ 2>/dev/null; cp $wt/repro.py /verif/hunt/$id/round2/ 2>/dev/null
for f in $wt/patches/*.diff; do
  [ -e "$f" ] || continue
  n=$(basename $f .diff)
  cp $f /verif/hunt/$id/patches/r2_$n.diff; cp ${f%.diff}.json /verif/hunt/$id/patches/r2_$n.json
  echo "##### $id r2_$n"
  /venv/bin/python /verif/tools/apply_fix.py $id r2_$n 2>&1 | grep "APPLIED\|NOT\|skipped\|apply\|tests\|before" 
done
/venv/bin/python /verif/tools/import_known.py $id 2
