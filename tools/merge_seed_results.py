#!/usr/bin/env python3
"""tools/merge_seed_results.py <results.json of a vp run> ...: merge evaluations made in snapshot runs into
seeded/results.json (later files win) and regenerate seeded/README.md the way tools/seeded_run.py writes it."""
import json
import os
import sys

SEEDED = os.path.join(os.path.dirname(os.path.dirname(os.path.abspath(__file__))), "seeded")


def main(paths):
    results = json.load(open(os.path.join(SEEDED, "results.json")))
    for p in paths:
        for k, v in json.load(open(p)).items():
            results[k] = v
    results = {k: v for k, v in results.items() if os.path.exists(os.path.join(SEEDED, k, "meta.json"))}
    json.dump(results, open(os.path.join(SEEDED, "results.json"), "w"), indent=1)
    lines = ["# Seeded changes", "", "Independent sub-agents were given only a property's text and a scratch worktree of malthe/chameleon and asked for a",
             "change that breaks the property while the repository's tests still pass.  Each change below was confirmed",
             "(`tools/seeded_run.py`: patch applies, 233 tests pass with it, the demonstration fails with it and passes without) and",
             "the quick check of its property was run against the patched tree.", "",
             "| id | property | change | needs | confirmed | detected by |", "|---|---|---|---|---|---|"]
    for sid, r in sorted(results.items()):
        det = ", ".join("%s (%d)" % (c, v["violations"]) for c, v in r.get("checks", {}).items() if v["detected"]) or "**missed**"
        lines.append("| %s | %s | %s | %s | %s | %s |" % (sid, r["property"], (r.get("what") or "").replace("|", "/")[:160],
                                                        (r.get("needs") or "").replace("|", "/")[:160], "yes" if r.get("confirmed") else "NO", det))
    missing = sorted(d for d in os.listdir(SEEDED) if os.path.exists(os.path.join(SEEDED, d, "meta.json")) and d not in results)
    if missing:
        lines += ["", "Not evaluated by the last complete run (evaluated one by one with `tools/seed_quick.sh`, see DESIGN 11.6): " + ", ".join(missing)]
    open(os.path.join(SEEDED, "README.md"), "w").write("\n".join(lines) + "\n")
    print(len(results), "entries;", sum(1 for r in results.values() if not any(v["detected"] for v in r.get("checks", {}).values())), "missed;", len(missing), "not evaluated")


if __name__ == "__main__":
    main(sys.argv[1:])
