#!/usr/bin/env python3
"""drop `known` entries whose witness no longer shows the defect on /repo (they were repaired by a later fix: commit, which
has its own `fixed` entry and witness)"""
import json, os, sys
sys.path.insert(0, os.path.dirname(os.path.abspath(__file__)))
import apply_fix
db = json.load(open(apply_fix.FINDINGS))
keep = []
for f in db["findings"]:
    if f["status"] == "known" and f.get("auto") is not False and (f.get("witness_code") or (f.get("witness") or {}).get("expected") is not None):
        meta = {"witness_code": f.get("witness_code")} if f.get("witness_code") else \
            {"witness": dict(f["witness"], observed_before=f["witness"].get("observed"), expected_after=f["witness"].get("expected"))}
        v, t = apply_fix.run_witness(meta)
        if v == "good":
            print("no longer reproduces:", f["property"], f["what"][:110])
            continue
    keep.append(f)
db["findings"] = keep
json.dump(db, open(apply_fix.FINDINGS, "w"), indent=1)
