---------------------------- MODULE RenderHistory ----------------------------
(***************************************************************************)
(* Rendering is a function of (source, configuration, arguments) -- C14.   *)
(* A template instance owns compiled code only; every render() starts from *)
(* a fresh variable scope, a fresh global scope and a fresh repeat          *)
(* dictionary built from the call's arguments, and leaves the argument      *)
(* objects as they were.  The model makes the places where state COULD      *)
(* survive explicit (instance-level storage, argument objects) and states   *)
(* the property as invariants; histories of render calls on one or several  *)
(* instances are enumerated for the replay.                                 *)
(***************************************************************************)
EXTENDS Naturals, Sequences, FiniteSets, TLC

CONSTANTS Instances, ArgSets, MaxCalls, Dev

VARIABLES inst,     \* instance -> set of names that survived earlier renders (must stay empty)
          args,     \* argument set -> "pristine" | "modified"
          hist,     \* sequence of [i, a, sees]  (sees: what the render could observe beyond its arguments)
          n
vars == <<inst, args, hist, n>>

Init == /\ inst = [i \in Instances |-> {}]
        /\ args = [a \in ArgSets |-> "pristine"]
        /\ hist = <<>> /\ n = 0

\* a render defines globals, repeat entries, slot fillers ... in its own scopes
Render(i, a) ==
  /\ n < MaxCalls
  /\ hist' = Append(hist, [i |-> i, a |-> a, sees |-> inst[i]])
  /\ inst' = IF "GlobalsSurvive" \in Dev THEN [inst EXCEPT ![i] = inst[i] \cup {a}] ELSE inst
  /\ args' = IF "ArgsModified" \in Dev THEN [args EXCEPT ![a] = "modified"] ELSE args
  /\ n' = n + 1

Next == \E i \in Instances, a \in ArgSets : Render(i, a)
Spec == Init /\ [][Next]_vars

\* nothing from one render is visible in the next
NothingSurvivesARender == \A k \in 1..Len(hist) : hist[k].sees = {}
\* the caller's argument objects are left unmodified
ArgsUnmodified == \A a \in ArgSets : args[a] = "pristine"
\* hence equal arguments give equal text: the observable inputs of two calls with the same arguments coincide
SameArgsSameText == \A j, k \in 1..Len(hist) : hist[j].a = hist[k].a => hist[j].sees = hist[k].sees
=============================================================================
