------------------------------- MODULE Interp -------------------------------
(***************************************************************************)
(* ${...} interpolation and the $$ escape (C06, C20).                      *)
(*                                                                         *)
(* A text is a sequence of parts:                                          *)
(*   [k |-> "lit", c |-> ch]     one ordinary character (class)            *)
(*   [k |-> "dol", n |-> n]      a maximal run of n '$' characters         *)
(*   [k |-> "brace", s |-> sh]   a brace group "{expr}" whose content is a *)
(*                               valid expression of shape sh              *)
(* The scanner semantics, stated directly:                                 *)
(*   - a run of n '$' directly followed by a brace group yields n \div 2   *)
(*     literal '$' and, iff n is odd, the VALUE of the group's expression; *)
(*     for even n the group is literal text;                               *)
(*   - any other run of n '$' yields (n + 1) \div 2 literal '$' ($$ -> $,  *)
(*     a lone $ is itself);                                                *)
(*   - every other character, and a brace group not preceded by '$', is    *)
(*     itself;                                                             *)
(*   - where interpolation is not live nothing is evaluated and the text   *)
(*     is emitted as written, $$ included.                                 *)
(* Liveness is lexical: the innermost meta:interpolation setting of the    *)
(* enclosing elements, never live in <!--? comments, in ordinary comments  *)
(* only if the option is on.                                               *)
(***************************************************************************)
EXTENDS Naturals, Sequences, TLC

CONSTANTS LitChars,   \* character classes for literals
          Shapes,     \* expression shapes
          MaxParts, MaxDol,
          Contexts,   \* subset of {"text","dqattr","sqattr","comment","qcomment","cdata","textmode"}
          MaxStack    \* nesting of meta:interpolation switches

VARIABLES parts, ctx, stack, copt,   \* chosen in Init
          pos, out, evals

vars == <<parts, ctx, stack, copt, pos, out, evals>>

Part == [k : {"lit"}, c : LitChars] \cup [k : {"dol"}, n : 1..MaxDol] \cup [k : {"brace"}, s : Shapes]

RECURSIVE Texts(_)
Texts(n) == IF n = 0 THEN { <<>> }
            ELSE LET T == Texts(n - 1) IN
                 T \cup { Append(t, p) : t \in { u \in T : Len(u) = n - 1 },
                                         p \in { q \in Part : IF n = 1 THEN TRUE ELSE TRUE } }
\* runs of '$' are maximal: no two adjacent dol parts
Maximal(t) == \A i \in 1..Len(t) - 1 : ~(t[i].k = "dol" /\ t[i + 1].k = "dol")

RECURSIVE Stacks(_)
Stacks(n) == IF n = 0 THEN { <<>> }
             ELSE LET S == Stacks(n - 1) IN S \cup { Append(s, x) : s \in { u \in S : Len(u) = n - 1 }, x \in {"none", "on", "off"} }

\* innermost explicit setting wins; default on
RECURSIVE Effective(_, _)
Effective(st, n) == IF n = 0 THEN TRUE
                    ELSE IF st[n] = "on" THEN TRUE ELSE IF st[n] = "off" THEN FALSE ELSE Effective(st, n - 1)

Live == /\ Effective(stack, Len(stack))
        /\ ctx # "qcomment"
        /\ (ctx = "comment" => copt)
\* meta:interpolation governs text, comments and CDATA of the subtree; attribute
\* values of the elements and text-mode templates are not switched by it
LiveHere == IF ctx \in {"dqattr", "sqattr", "textmode"} THEN TRUE ELSE Live

Init == /\ parts \in { t \in Texts(MaxParts) : Maximal(t) /\ Len(t) > 0 }
        /\ ctx \in Contexts
        /\ stack \in Stacks(MaxStack)
        /\ copt \in BOOLEAN
        /\ pos = 1 /\ out = <<>> /\ evals = <<>>

Dollars(n) == [i \in 1..n |-> [a |-> "ch", c |-> "dollar"]]

ScanLit ==
  /\ pos <= Len(parts) /\ parts[pos].k = "lit"
  /\ out' = Append(out, [a |-> "ch", c |-> parts[pos].c])
  /\ pos' = pos + 1 /\ UNCHANGED evals

ScanBraceAlone ==      \* a brace group not introduced by '$' is literal text
  /\ pos <= Len(parts) /\ parts[pos].k = "brace"
  /\ out' = Append(out, [a |-> "src", j |-> pos])
  /\ pos' = pos + 1 /\ UNCHANGED evals

ScanDollars ==
  /\ pos <= Len(parts) /\ parts[pos].k = "dol"
  /\ LET n == parts[pos].n
         grp == IF pos < Len(parts) THEN parts[pos + 1].k = "brace" ELSE FALSE
     IN IF ~LiveHere
        THEN \* nothing is evaluated; whether $$ still collapses to $ where
             \* interpolation is off is not fixed by the property: either
             /\ \E m \in {n, (n + 1) \div 2} : out' = out \o Dollars(m)
             /\ pos' = pos + 1 /\ UNCHANGED evals
        ELSE IF grp
        THEN /\ out' = out \o Dollars(n \div 2)
                          \o << IF n % 2 = 1 THEN [a |-> "val", j |-> pos + 1] ELSE [a |-> "src", j |-> pos + 1] >>
             /\ evals' = IF n % 2 = 1 THEN Append(evals, pos + 1) ELSE evals
             /\ pos' = pos + 2
        ELSE /\ out' = out \o Dollars((n + 1) \div 2) /\ pos' = pos + 1 /\ UNCHANGED evals

Next == (ScanLit \/ ScanBraceAlone \/ ScanDollars) /\ UNCHANGED <<parts, ctx, stack, copt>>

Spec == Init /\ [][Next]_vars

Done == pos > Len(parts)

-----------------------------------------------------------------------------
\* exactly the brace groups introduced by an odd run of '$' are evaluated, in order, iff live
Introduced(j) == j > 1 /\ parts[j].k = "brace" /\ parts[j - 1].k = "dol" /\ parts[j - 1].n % 2 = 1
EvalExactlyTheExprParts ==
  Done => evals = SelectSeq([i \in 1..Len(parts) |-> i], LAMBDA j : LiveHere /\ Introduced(j))

\* the number of '$' emitted for a run obeys the parity rule
CountDollars(o) == Len(SelectSeq(o, LAMBDA a : a.a = "ch" /\ a.c = "dollar"))
RECURSIVE ExpectDollars(_)
ExpectDollars(i) ==
  IF i > Len(parts) THEN 0
  ELSE IF parts[i].k # "dol" THEN ExpectDollars(i + 1)
  ELSE (IF i < Len(parts) /\ parts[i + 1].k = "brace" THEN parts[i].n \div 2 ELSE (parts[i].n + 1) \div 2)
       + ExpectDollars(i + 1)
DollarParity == (Done /\ LiveHere) => CountDollars(out) = ExpectDollars(1)

\* nothing is evaluated where interpolation is off
DeadMeansSilent == ~LiveHere => evals = <<>>
=============================================================================
