------------------------------- MODULE Sniff -------------------------------
(***************************************************************************)
(* How a template given as bytes is decoded and classified (C17).          *)
(* Decision function on the lexical evidence at the start of the input:    *)
(*   bom   byte-order mark kind or "none"                                  *)
(*   decl  XML declaration: "none" | "plain" (no encoding) | an encoding   *)
(*         | "pi" (another processing instruction whose target starts      *)
(*         with xml, e.g. xml-stylesheet: NOT a declaration)               *)
(*   meta  charset of an HTML meta content-type element: "none" | encoding *)
(*   dflt  the configured default encoding                                 *)
(* Priority: BOM > encoding named by the XML declaration > meta > default.  XML iff the decoded  *)
(* text starts with an XML declaration.  Nothing of the BOM may reach the  *)
(* decoded text.                                                           *)
(***************************************************************************)
EXTENDS Naturals, Sequences, TLC

CONSTANTS Boms, Encodings

VARIABLES bom, decl, meta, dflt, docmode   \* docmode: which document variant the harness renders
vars == <<bom, decl, meta, dflt, docmode>>

BomEncoding(b) ==
  CASE b = "utf8" -> "utf-8" [] b = "utf16le" -> "utf-16-le" [] b = "utf16be" -> "utf-16-be"
    [] b = "utf32le" -> "utf-32-le" [] b = "utf32be" -> "utf-32-be"

Encoding(b, d, m, df) ==
  IF b # "none" THEN BomEncoding(b)
  ELSE IF d \notin {"none", "plain", "pi"} THEN d
  ELSE IF m # "none" THEN m          \* also when the declaration names no encoding (XHTML with a meta element)
  ELSE df

IsXml(d) == d \notin {"none", "pi"}

Init == /\ bom \in Boms \cup {"none"}
        /\ decl \in {"none", "plain", "pi"} \cup Encodings
        /\ meta \in {"none"} \cup Encodings
        /\ dflt \in Encodings
        /\ docmode \in {"str-equal"}
Next == UNCHANGED vars
Spec == Init /\ [][Next]_vars

Decision == [encoding |-> Encoding(bom, decl, meta, dflt), xml |-> IsXml(decl)]

\* --- the priority order, stated independently of the nested IF above -------
AllD == {"none", "plain", "pi"} \cup Encodings
AllM == {"none"} \cup Encodings
ASSUME BomWins ==
  \A b \in Boms, d1 \in AllD, d2 \in AllD, m1 \in AllM, m2 \in AllM, f1 \in Encodings, f2 \in Encodings :
     Encoding(b, d1, m1, f1) = Encoding(b, d2, m2, f2)
ASSUME DeclBeatsMeta ==
  \A d \in Encodings, m1 \in AllM, m2 \in AllM, f1 \in Encodings, f2 \in Encodings :
     Encoding("none", d, m1, f1) = d /\ Encoding("none", d, m2, f2) = d
ASSUME MetaBeatsDefault ==
  \A m \in Encodings, f \in Encodings : Encoding("none", "none", m, f) = m
ASSUME DefaultLast ==
  \A f \in Encodings : Encoding("none", "none", "none", f) = f /\ Encoding("none", "plain", "none", f) = f
ASSUME PlainDeclarationLeavesItToMeta ==
  \A m \in Encodings, f \in Encodings : Encoding("none", "plain", m, f) = m
XmlIffDeclaration == Decision.xml <=> decl \notin {"none", "pi"}
=============================================================================
