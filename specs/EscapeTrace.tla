---------------------------- MODULE EscapeTrace ----------------------------
(* Validation of regions produced by the real code against Escape (C->S).    *)
(* Traces: sequence of [site, val, out] with out a sequence of [e, c]; TLC    *)
(* infers nothing here (events are fully logged) but checks each atom against *)
(* EscChar and the round trip at the end.                                     *)
EXTENDS Escape, Json, IOUtils, TLCExt

Traces == JsonDeserialize(IOEnv.TRACE_FILE)
VARIABLES tid
tvars == <<site, val, i, out, tid>>

TInit == /\ tid \in 1..Len(Traces)
         /\ site = Traces[tid].site /\ val = Traces[tid].val /\ i = 1 /\ out = <<>>

TNext == /\ i <= Len(Traces[tid].out)
         /\ EscChar
         /\ out'[i] = Traces[tid].out[i]
         /\ UNCHANGED tid

TSpec == TInit /\ [][TNext]_tvars

Progress == TLCSet(tid, IF i - 1 = Len(Traces[tid].out) /\ i - 1 = Len(val) THEN 1 ELSE IF TLCGet(tid) = 1 THEN 1 ELSE 0)
ASSUME \A t \in 1..Len(Traces) : TLCSet(t, IF Len(Traces[t].out) = 0 /\ Len(Traces[t].val) = 0 THEN 1 ELSE 0)
AllAccepted == LET bad == { t \in 1..Len(Traces) : TLCGet(t) # 1 } IN
               IF bad = {} THEN TRUE ELSE PrintT(<<"REJECTED", bad>>) /\ FALSE
=============================================================================
