------------------------------- MODULE Escape -------------------------------
(***************************************************************************)
(* Escaping of inserted values (C02) as a character transducer.            *)
(*                                                                         *)
(* A value's string form is a sequence over the character classes          *)
(*    amp lt gt dq sq a                                                    *)
(* It is inserted at a site; the site determines the set of characters     *)
(* that must not appear raw.  For every character the transducer emits     *)
(* either the character itself (raw) or a character entity for it; for a   *)
(* forbidden character only the entity is allowed; at opt-out sites        *)
(* (structure, __html__, CDATA, text mode) the value is copied raw.        *)
(***************************************************************************)
EXTENDS Naturals, Sequences, TLC

CONSTANTS Chars, MaxLen, Sites

VARIABLES site, val, i, out
vars == <<site, val, i, out>>

OptOut == {"structure_kw", "structure_expr", "html_obj", "cdata", "textmode"}

Forbidden(s) ==
  CASE s \in OptOut -> {}
    [] s \in {"dqattr_interp", "talattr_dq", "dictattr", "i18nattr_dq", "trbody_attr", "trbody_dict", "talattr_unq", "unq_interp", "implicit_attr", "talattr_bare"} -> {"amp", "lt", "gt", "dq"}
    [] s \in {"sqattr_interp", "talattr_sq"} -> {"amp", "lt", "gt", "sq"}
    [] OTHER -> {"amp", "lt", "gt"}     \* text, content, replace, comment, string expr, message, name block

RECURSIVE Strings(_)
Strings(n) == IF n = 0 THEN { <<>> }
              ELSE LET S == Strings(n - 1) IN S \cup { Append(s, c) : s \in { t \in S : Len(t) = n - 1 }, c \in Chars }

Init == /\ site \in Sites /\ val \in Strings(MaxLen) /\ i = 1 /\ out = <<>>

EscChar ==
  /\ i <= Len(val)
  /\ LET c == val[i] IN
     \E ent \in BOOLEAN :
        /\ (c \in Forbidden(site) => ent)
        /\ (site \in OptOut => ~ent)
        /\ out' = Append(out, [e |-> ent, c |-> c])
  /\ i' = i + 1
  /\ UNCHANGED <<site, val>>

Next == EscChar
Spec == Init /\ [][Next]_vars

\* no forbidden character of the value reaches the output raw
NoRawForbidden == \A n \in 1..Len(out) : (out[n].c \in Forbidden(site)) => out[n].e
\* un-escaping the inserted region gives back the value's string form
UnescapeRoundTrip == [n \in 1..Len(out) |-> out[n].c] = SubSeq(val, 1, i - 1)
\* the opt-outs copy the value
OptOutIsIdentity == site \in OptOut => \A n \in 1..Len(out) : ~out[n].e
=============================================================================
