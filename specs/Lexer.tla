------------------------------- MODULE Lexer -------------------------------
(***************************************************************************)
(* The shallow markup lexer (chameleon.tokenize.iter_xml) as a partition   *)
(* machine.  The property (C03) deliberately does not fix token            *)
(* boundaries: any lexer that (1) consumes at least one character per      *)
(* token, (2) starts each token where the previous one ended, (3) never    *)
(* lets a text token contain '<', makes text tokens maximal and starts     *)
(* every markup token with '<', and (4) is total -- satisfies it.  The     *)
(* consequence is the round trip:  concatenation of the tokens = input.    *)
(*                                                                         *)
(* Characters are class names: lt gt sl ex hy qm lb rb eq dq sq sp a.      *)
(***************************************************************************)
EXTENDS Naturals, Sequences, TLC

CONSTANTS Alphabet, MaxLen

VARIABLES input,  \* the whole input (sequence of character classes)
          cur,    \* number of characters consumed
          toks    \* tokens emitted so far: [pos, text, kind]

vars == <<input, cur, toks>>

RECURSIVE Strings(_)
Strings(n) == IF n = 0 THEN { <<>> }
              ELSE LET S == Strings(n - 1) IN S \cup { Append(s, c) : s \in { t \in S : Len(t) = n - 1 }, c \in Alphabet }

Init == /\ input \in Strings(MaxLen)
        /\ cur = 0
        /\ toks = <<>>

HasLt(s) == \E i \in 1..Len(s) : s[i] = "lt"

\* a token of n characters of the given kind may be emitted at cur
CanEmit(n, kind) ==
  /\ n >= 1 /\ cur + n <= Len(input)
  /\ LET s == SubSeq(input, cur + 1, cur + n) IN
     IF kind = "text"
     THEN /\ ~HasLt(s)
          /\ (IF cur + n = Len(input) THEN TRUE ELSE input[cur + n + 1] = "lt")      \* maximal
     ELSE s[1] = "lt"

Emit(n, kind) ==
  /\ CanEmit(n, kind)
  /\ toks' = Append(toks, [pos |-> cur, text |-> SubSeq(input, cur + 1, cur + n), kind |-> kind])
  /\ cur' = cur + n
  /\ UNCHANGED input

Next == \E n \in 1..MaxLen, kind \in {"text", "markup"} : Emit(n, kind)

Spec == Init /\ [][Next]_vars

-----------------------------------------------------------------------------
RECURSIVE Concat(_, _)
Concat(ts, n) == IF n > Len(ts) THEN <<>> ELSE ts[n].text \o Concat(ts, n + 1)

\* the tokens emitted so far concatenate to the consumed prefix
RoundTrip == Concat(toks, 1) = SubSeq(input, 1, cur)

\* source positions are contiguous
Contiguous == /\ (Len(toks) > 0 => toks[1].pos = 0)
              /\ \A i \in 1..Len(toks) - 1 : toks[i + 1].pos = toks[i].pos + Len(toks[i].text)
              /\ (Len(toks) > 0 => toks[Len(toks)].pos + Len(toks[Len(toks)].text) = cur)

\* the lexer is total: while input remains, some token can be emitted
Total == cur < Len(input) => \E n \in 1..MaxLen, kind \in {"text", "markup"} : CanEmit(n, kind)

\* two text tokens are never adjacent (maximality)
NoAdjacentText == \A i \in 1..Len(toks) - 1 : ~(toks[i].kind = "text" /\ toks[i + 1].kind = "text")
=============================================================================
