------------------------------ MODULE TokenPos ------------------------------
(***************************************************************************)
(* Position algebra of source tokens (chameleon.tokenize.Token), C11.      *)
(* A token is a window [pos, len] on the source; every operation returns   *)
(* a window, so faithfulness (the token's text is the source at its        *)
(* position) holds by construction -- the real Token must produce the same *)
(* windows.  Operations: strip / lstrip / rstrip (blanks), slice(i, j),    *)
(* k-th part of a split on ';', k-th part of a split on whitespace.        *)
(***************************************************************************)
EXTENDS Naturals, Sequences, TLC

CONSTANTS Alphabet, MaxLen, MaxOps

VARIABLES src, tok, ops
vars == <<src, tok, ops>>

RECURSIVE Strings(_)
Strings(n) == IF n = 0 THEN { <<>> }
              ELSE LET S == Strings(n - 1) IN S \cup { Append(s, c) : s \in { t \in S : Len(t) = n - 1 }, c \in Alphabet }

Init == /\ src \in Strings(MaxLen)
        /\ tok = [pos |-> 0, len |-> Len(src)]
        /\ ops = <<>>

Ch(t, i) == src[t.pos + i]            \* i-th character of token t (1-based)
Blank(c) == c = "sp"

RECURSIVE LeadBlanks(_, _)
LeadBlanks(t, n) == IF n < t.len /\ Blank(Ch(t, n + 1)) THEN LeadBlanks(t, n + 1) ELSE n
RECURSIVE TrailBlanks(_, _)
TrailBlanks(t, n) == IF n < t.len /\ Blank(Ch(t, t.len - n)) THEN TrailBlanks(t, n + 1) ELSE n

LStrip(t) == LET k == LeadBlanks(t, 0) IN [pos |-> t.pos + k, len |-> t.len - k]
RStrip(t) == LET k == TrailBlanks(t, 0) IN [pos |-> t.pos, len |-> t.len - k]
Strip(t)  == RStrip(LStrip(t))
Slice(t, i, j) == [pos |-> t.pos + i, len |-> j - i]      \* 0 <= i <= j <= t.len

\* parts of a split on the separator ';' : windows between separators
SepIdx(t) == { i \in 1..t.len : Ch(t, i) = "sc" }
RECURSIVE PartsSc(_, _, _)
PartsSc(t, start, i) ==        \* start: offset of the current part, i: scan index
  IF i > t.len THEN << [pos |-> t.pos + start, len |-> t.len - start] >>
  ELSE IF Ch(t, i) = "sc" THEN << [pos |-> t.pos + start, len |-> i - 1 - start] >> \o PartsSc(t, i, i + 1)
  ELSE PartsSc(t, start, i + 1)
\* parts of a split on whitespace: maximal runs of non-blanks
RECURSIVE PartsWs(_, _, _)
PartsWs(t, start, i) ==        \* start = -1: not inside a word
  IF i > t.len THEN (IF start >= 0 THEN << [pos |-> t.pos + start, len |-> t.len - start] >> ELSE <<>>)
  ELSE IF Blank(Ch(t, i))
       THEN (IF start >= 0 THEN << [pos |-> t.pos + start, len |-> i - 1 - start] >> ELSE <<>>) \o PartsWs(t, 0 - 1 + 0, i + 1)
       ELSE PartsWs(t, IF start >= 0 THEN start ELSE i - 1, i + 1)

Do(op, t2) == /\ tok' = t2 /\ ops' = Append(ops, op) /\ UNCHANGED src

Next ==
  /\ Len(ops) < MaxOps
  /\ \/ Do([op |-> "strip"], Strip(tok))
     \/ Do([op |-> "lstrip"], LStrip(tok))
     \/ Do([op |-> "rstrip"], RStrip(tok))
     \/ \E i \in 0..tok.len : \E j \in i..tok.len : Do([op |-> "slice", i |-> i, j |-> j], Slice(tok, i, j))
     \/ \E k \in 1..Len(PartsSc(tok, 0, 1)) : Do([op |-> "splitsc", k |-> k], PartsSc(tok, 0, 1)[k])
     \/ \E k \in 1..Len(PartsWs(tok, 0 - 1, 1)) : Do([op |-> "splitws", k |-> k], PartsWs(tok, 0 - 1, 1)[k])

Spec == Init /\ [][Next]_vars

\* a token is a window inside the source
Faithful == tok.pos >= 0 /\ tok.pos + tok.len <= Len(src)
=============================================================================
