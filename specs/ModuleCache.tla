---------------------------- MODULE ModuleCache ----------------------------
(***************************************************************************)
(* The on-disk module cache (C15).                                         *)
(*                                                                         *)
(* (a) Soundness of the key.  A template configuration is an assignment of *)
(* values to options; Key projects it onto the options that are hashed     *)
(* into the entry name, Code onto the options that influence the compiled  *)
(* code.  The cache may hand the module stored under Key(c) to every       *)
(* template with that key, so equal keys must imply equal code.            *)
(*                                                                         *)
(* (b) Storing an entry.  Writers (processes) execute                       *)
(*   mkstemp -> header -> body -> closed -> renamed -> compiled -> loaded   *)
(* on a shared directory; a process may crash at any step; a reader is a    *)
(* fresh process that looks the entry up and executes what it finds; the    *)
(* storage may run out under a writer (WriteFails).  The                    *)
(* final name must never hold anything but a complete source for its key.   *)
(***************************************************************************)
EXTENDS Naturals, Sequences, FiniteSets, TLC

CONSTANTS Options,    \* option names
          Hashed,     \* options that take part in the key
          Affecting,  \* options that influence the compiled code
          Writers, MaxCrashes

\* ---- (a) key soundness: checked over all pairs that differ in exactly one option
Values == {0, 1}
Configs == [Options -> Values]
Key(c)  == [o \in Hashed |-> c[o]]
Code(c) == [o \in Affecting |-> c[o]]
DifferInOne(c1, c2) == Cardinality({ o \in Options : c1[o] # c2[o] }) = 1
ASSUME KeySound == \A c1, c2 \in Configs : DifferInOne(c1, c2) => (Key(c1) = Key(c2) => Code(c1) = Code(c2))

\* ---- (b) storing
Steps == << "start", "mkstemp", "header", "body", "closed", "renamed", "compiled", "loaded" >>
VARIABLES pc,       \* writer -> index into Steps, or 0 = crashed
          temp,     \* writer -> "none" | "empty" | "header" | "full"   (its temporary file)
          final,    \* "none" | "full"   -- the file under the entry's final name
          pyc,      \* "none" | "full"
          sched,    \* history: sequence of [w, step] (for the replay)
          crashes
vars == <<pc, temp, final, pyc, sched, crashes>>

Init == /\ pc = [w \in Writers |-> 1]
        /\ temp = [w \in Writers |-> "none"]
        /\ final = "none" /\ pyc = "none" /\ sched = <<>> /\ crashes = 0

Advance(w) ==
  /\ pc[w] > 0 /\ pc[w] < Len(Steps)
  /\ LET nxt == Steps[pc[w] + 1] IN
     /\ temp' = [temp EXCEPT ![w] = CASE nxt = "mkstemp" -> "empty" [] nxt = "header" -> "header" [] nxt = "body" -> "full"
                                           [] nxt = "renamed" -> "none" [] OTHER -> temp[w]]
     /\ final' = IF nxt = "renamed" THEN temp[w] ELSE final        \* rename is atomic: the whole file or nothing
     /\ pyc' = IF nxt = "compiled" THEN final ELSE pyc
     /\ sched' = Append(sched, [w |-> w, step |-> nxt])
  /\ pc' = [pc EXCEPT ![w] = pc[w] + 1]
  /\ UNCHANGED crashes

Crash(w) ==      \* the process dies before its next step
  /\ pc[w] > 0 /\ pc[w] < Len(Steps) /\ crashes < MaxCrashes
  /\ pc' = [pc EXCEPT ![w] = 0]
  /\ sched' = Append(sched, [w |-> w, step |-> "crash"])
  /\ crashes' = crashes + 1
  /\ UNCHANGED <<temp, final, pyc>>

\* the storage runs out while the temporary file is written (no space left, file size limit): the write raises, the
\* writer removes its temporary file and gives up -- it does not go on to rename what it has
WriteFails(w) ==
  /\ pc[w] > 0 /\ Steps[pc[w]] \in {"mkstemp", "header"} /\ crashes < MaxCrashes
  /\ pc' = [pc EXCEPT ![w] = 0]
  /\ temp' = [temp EXCEPT ![w] = "none"]
  /\ sched' = Append(sched, [w |-> w, step |-> "writefails"])
  /\ crashes' = crashes + 1
  /\ UNCHANGED <<final, pyc>>

Next == \E w \in Writers : Advance(w) \/ Crash(w) \/ WriteFails(w)
Spec == Init /\ [][Next]_vars

Quiescent == \A w \in Writers : pc[w] = 0 \/ pc[w] = Len(Steps)

\* whatever a later process finds under the final name is a complete module
FinalNameAlwaysComplete == final \in {"none", "full"} /\ pyc \in {"none", "full"}
\* a temporary file is never visible under the final name unless it was complete
RenameOnlyComplete == [][ final' # final => final' = "full" ]_vars
=============================================================================
