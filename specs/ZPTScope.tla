------------------------------ MODULE ZPTScope ------------------------------
(***************************************************************************)
(* The template variable environment (chameleon.utils.Scope): a local      *)
(* dictionary layered over a shared root dictionary.  econtext of a        *)
(* top-level render is a root scope; econtext.copy() (macro call, slot     *)
(* fill) creates a scope whose locals are a copy of the caller's locals    *)
(* and whose root is the caller's root.                                    *)
(*                                                                         *)
(* The state keeps only the *last* operation with its result (not the      *)
(* history), so the reachable set is  configurations x operations  and     *)
(* every transition is dumped and replayed on real Scope objects.          *)
(***************************************************************************)
EXTENDS Naturals, Sequences, FiniteSets, TLC

CONSTANTS Names,     \* variable names
          Vals,      \* values (small integers)
          MaxScopes  \* bound on the number of instances

Undef == 0           \* not a member of Vals

VARIABLES scopes,    \* sequence of [loc |-> [Names -> Vals \cup {Undef}], root |-> index (own index for a root)]
          last       \* [op, s, n, v, res, pre] -- the last operation, its result and the configuration before it

vars == <<scopes, last>>

NoLoc == [n \in Names |-> Undef]

\* results, uniformly typed
ROk       == [k |-> "ok"]
RErr(e)   == [k |-> "err", e |-> e]
RVal(v)   == IF v = Undef THEN [k |-> "default"] ELSE [k |-> "val", v |-> v]
RBool(b)  == [k |-> "bool", b |-> b]
RKeys(S)  == [k |-> "keys", ks |-> S]
RNew(i)   == [k |-> "new", i |-> i]

Init == /\ scopes = << [loc |-> NoLoc, root |-> 1] >>
        /\ last = [op |-> "init", s |-> 0, n |-> "", v |-> 0, res |-> ROk, pre |-> <<>>]

IsRoot(s) == scopes[s].root = s
RootOf(s) == scopes[scopes[s].root]

\* Scope.get(key, default): local first, then the root's own dictionary
Get(s, n) == IF scopes[s].loc[n] # Undef THEN scopes[s].loc[n]
             ELSE IF ~IsRoot(s) /\ RootOf(s).loc[n] # Undef THEN RootOf(s).loc[n]
             ELSE Undef

Keys(s) == { n \in Names : Get(s, n) # Undef }

Op(op, s, n, v, res, sc) ==
  /\ scopes' = sc
  /\ last' = [op |-> op, s |-> s, n |-> n, v |-> v, res |-> res, pre |-> scopes]

SetItem(s, n, v)   == Op("set", s, n, v, ROk, [scopes EXCEPT ![s].loc[n] = v])
DelItem(s, n)      == IF scopes[s].loc[n] # Undef
                      THEN Op("del", s, n, 0, ROk, [scopes EXCEPT ![s].loc[n] = Undef])
                      ELSE Op("del", s, n, 0, RErr("KeyError"), scopes)
GetDefault(s, n)   == Op("get", s, n, 0, RVal(Get(s, n)), scopes)           \* Undef stands for the default
GetItem(s, n)      == Op("getitem", s, n, 0, IF Get(s, n) = Undef THEN RErr("KeyError") ELSE RVal(Get(s, n)), scopes)
GetName(s, n)      == Op("getname", s, n, 0, IF Get(s, n) = Undef THEN RErr("NameError") ELSE RVal(Get(s, n)), scopes)
Contains(s, n)     == Op("contains", s, n, 0, RBool(Get(s, n) # Undef), scopes)
IterKeys(s)        == Op("iter", s, "", 0, RKeys(Keys(s)), scopes)
SetGlobal(s, n, v) == Op("setglobal", s, n, v, ROk, [scopes EXCEPT ![scopes[s].root].loc[n] = v])
Copy(s)            == /\ Len(scopes) < MaxScopes
                      /\ Op("copy", s, "", 0, RNew(Len(scopes) + 1),
                            Append(scopes, [loc |-> scopes[s].loc, root |-> scopes[s].root]))
\* econtext.update(rcontext): a plain dict update of the local layer
Update(s, n, v)    == Op("update", s, n, v, ROk, [scopes EXCEPT ![s].loc[n] = v])

Next ==
  \E s \in 1..Len(scopes) :
     \/ Copy(s) \/ IterKeys(s)
     \/ \E n \in Names :
          \/ DelItem(s, n) \/ GetDefault(s, n) \/ GetItem(s, n) \/ GetName(s, n) \/ Contains(s, n)
          \/ \E v \in Vals : SetItem(s, n, v) \/ SetGlobal(s, n, v) \/ Update(s, n, v)

Spec == Init /\ [][Next]_vars

-----------------------------------------------------------------------------
(* Properties (C05) *)

\* a copy never shares its locals with the scope it was copied from:
\* setting or deleting a local in one scope changes no other scope's locals
CopyIsolatesLocals ==
  [][ \A s \in 1..Len(scopes) :
        (last'.op \in {"set", "del", "update"} /\ last'.s # s) => scopes'[s].loc = scopes[s].loc ]_vars

\* a global is visible from every scope of the same root unless shadowed locally
GlobalsVisibleUnlessShadowed ==
  \A s \in 1..Len(scopes) : \A n \in Names :
     (RootOf(s).loc[n] # Undef /\ scopes[s].loc[n] = Undef) => Get(s, n) = RootOf(s).loc[n]

\* iteration yields each visible name exactly once (Keys is a set by construction;
\* the replay compares it with the *list* the real iterator yields)
IterIsUnion ==
  \A s \in 1..Len(scopes) : Keys(s) = { n \in Names : scopes[s].loc[n] # Undef }
                                        \cup (IF IsRoot(s) THEN {} ELSE { n \in Names : RootOf(s).loc[n] # Undef })

\* results of the four lookup operations agree
LookupsAgree ==
  /\ last.op = "contains" => (last.res.b <=> (Get(last.s, last.n) # Undef))
  /\ last.op = "getitem"  => ((last.res.k = "err") <=> (Get(last.s, last.n) = Undef))
  /\ last.op = "getname"  => ((last.res.k = "err") <=> (Get(last.s, last.n) = Undef))
  /\ last.op = "get"      => ((last.res.k = "default") <=> (Get(last.s, last.n) = Undef))

\* every instance's root is a root
RootsAreRoots == \A s \in 1..Len(scopes) : IsRoot(scopes[s].root)
=============================================================================
