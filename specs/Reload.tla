------------------------------- MODULE Reload -------------------------------
(***************************************************************************)
(* A file template with auto_reload whose file CHANGES while several       *)
(* threads render it, each thread several times (C14 + C16): the protocol  *)
(* of BaseTemplateFile.cook_check / BaseTemplate.cook at the grain of its  *)
(* single accesses to shared state, so that behaviours of free-running     *)
(* threads -- recorded at the env-guarded hook points, where the access    *)
(* precedes the hook -- can be validated against it (ReloadTrace.tla).     *)
(*                                                                         *)
(* CookThreads.tla is the same protocol at the grain of the hook points,   *)
(* for one call per thread and an unchanging file (forced schedules).      *)
(*                                                                         *)
(* Shared state: the file's version, _v_last_read, _cooked, the version    *)
(* whose render functions are published.  Per call:                        *)
(*                                                                         *)
(*   begin : stat the file (modification time)     -> check.mtime          *)
(*           stat the file again (nanoseconds, size): the stamp is the     *)
(*           pair of both readings                                         *)
(*   cmp   : read _v_last_read; stamp changed?                             *)
(*     changed:   write _cooked = False            -> check.uncooked       *)
(*                write _v_last_read               -> check.last_read_set  *)
(*                read the file                    -> check.read           *)
(*     unchanged: read _cooked                                             *)
(*                False: read the file             -> check.read           *)
(*                True : read the functions        -> use                  *)
(*   cook  : (compile)                             -> cook.begin, compiled *)
(*           write the functions                   -> cook.published       *)
(*           write _cooked = True                  -> cook.flagged         *)
(*           read the functions                    -> use                  *)
(***************************************************************************)
EXTENDS Naturals, Sequences, FiniteSets, TLC

CONSTANTS Threads,      \* rendering threads
          MaxVer,       \* the file goes through versions 1..MaxVer
          MaxCalls,     \* calls per thread
          QuietWrites   \* TRUE: the file changes only while no call is in progress

VARIABLES fver,         \* current version of the file (= its modification stamp)
          last,         \* _v_last_read: the stamp <<time, details>> last compiled (<<0, 0>> = None)
          cooked,       \* _cooked
          pub,          \* version of the published render functions (0 = none)
          pc, loc,      \* per thread: program counter, locals [mt, dt, body, start]
          ncalls,       \* per thread: calls begun
          lab,          \* the hook label the last step passed ("" for an internal step) and its thread
          done          \* history of completed calls: [t, start, res, endv]
vars == <<fver, last, cooked, pub, pc, loc, ncalls, lab, done>>

Init == /\ fver = 1
        /\ last = <<0, 0>> /\ cooked = FALSE /\ pub = 0
        /\ pc = [t \in Threads |-> "idle"]
        /\ loc = [t \in Threads |-> [mt |-> 0, dt |-> 0, body |-> 0, start |-> 0]]
        /\ ncalls = [t \in Threads |-> 0]
        /\ lab = [t |-> "", label |-> ""]
        /\ done = <<>>

Go(t, label, nxt) == /\ pc' = [pc EXCEPT ![t] = nxt]
                     /\ lab' = [t |-> t, label |-> label]

Idle == \A t \in Threads : pc[t] = "idle"

\* the application saves a new version of the file
Write == /\ fver < MaxVer
         /\ QuietWrites => Idle
         /\ fver' = fver + 1
         /\ lab' = [t |-> "w", label |-> "write"]
         /\ UNCHANGED <<last, cooked, pub, pc, loc, ncalls, done>>

Begin(t) == /\ pc[t] = "idle" /\ ncalls[t] < MaxCalls
            /\ ncalls' = [ncalls EXCEPT ![t] = @ + 1]
            /\ loc' = [loc EXCEPT ![t] = [mt |-> 0, dt |-> 0, body |-> 0, start |-> fver]]
            /\ Go(t, "check.begin", "stat")
            /\ UNCHANGED <<fver, last, cooked, pub, done>>
Stat(t) ==  /\ pc[t] = "stat"
            /\ loc' = [loc EXCEPT ![t].mt = fver]
            /\ Go(t, "check.mtime", "stat2")
            /\ UNCHANGED <<fver, last, cooked, pub, ncalls, done>>
\* `stamp = (mtime,) + self._stat_details()` : a second look at the file, which may have been replaced meanwhile
\* (the stamp then belongs to neither version: one more compilation later, never a wrong result)
Stat2(t) == /\ pc[t] = "stat2"
            /\ loc' = [loc EXCEPT ![t].dt = fver]
            /\ Go(t, "", "cmp")
            /\ UNCHANGED <<fver, last, cooked, pub, ncalls, done>>
\* `if stamp != self._v_last_read` : one read
Cmp(t) ==   /\ pc[t] = "cmp"
            /\ Go(t, "", IF <<loc[t].mt, loc[t].dt>> # last THEN "uncook" ELSE "test")
            /\ UNCHANGED <<fver, last, cooked, pub, loc, ncalls, done>>
Uncook(t) == /\ pc[t] = "uncook" /\ cooked' = FALSE
             /\ Go(t, "check.uncooked", "setlast")
             /\ UNCHANGED <<fver, last, pub, loc, ncalls, done>>
SetLast(t) == /\ pc[t] = "setlast" /\ last' = <<loc[t].mt, loc[t].dt>>
              /\ Go(t, "check.last_read_set", "read")
              /\ UNCHANGED <<fver, cooked, pub, loc, ncalls, done>>
\* `if stale or self._cooked is False` : one read (not needed when stale)
Test(t) ==  /\ pc[t] = "test"
            /\ Go(t, "", IF cooked THEN "use" ELSE "read")
            /\ UNCHANGED <<fver, last, cooked, pub, loc, ncalls, done>>
Read(t) ==  /\ pc[t] = "read"
            /\ loc' = [loc EXCEPT ![t].body = fver]
            /\ Go(t, "check.read", "cookbegin")
            /\ UNCHANGED <<fver, last, cooked, pub, ncalls, done>>
CookBegin(t) == pc[t] = "cookbegin" /\ Go(t, "cook.begin", "compiled")
                /\ UNCHANGED <<fver, last, cooked, pub, loc, ncalls, done>>
Compiled(t) ==  pc[t] = "compiled" /\ Go(t, "cook.compiled", "publish")
                /\ UNCHANGED <<fver, last, cooked, pub, loc, ncalls, done>>
Publish(t) ==   /\ pc[t] = "publish" /\ pub' = loc[t].body
                /\ Go(t, "cook.published", "flag")
                /\ UNCHANGED <<fver, last, cooked, loc, ncalls, done>>
Flag(t) ==      /\ pc[t] = "flag" /\ cooked' = TRUE
                /\ Go(t, "cook.flagged", "use")
                /\ UNCHANGED <<fver, last, pub, loc, ncalls, done>>
\* render() fetches the published function and runs it
Use(t) ==       /\ pc[t] = "use"
                /\ done' = Append(done, [t |-> t, start |-> loc[t].start, res |-> pub, endv |-> fver])
                /\ Go(t, "use", "idle")
                /\ UNCHANGED <<fver, last, cooked, pub, loc, ncalls>>

Step(t) == Begin(t) \/ Stat(t) \/ Stat2(t) \/ Cmp(t) \/ Uncook(t) \/ SetLast(t) \/ Test(t) \/ Read(t) \/ CookBegin(t)
           \/ Compiled(t) \/ Publish(t) \/ Flag(t) \/ Use(t)
Next == Write \/ \E t \in Threads : Step(t)
Spec == Init /\ [][Next]_vars

-----------------------------------------------------------------------------
\* nobody renders with functions that are not there
RenderSeesPublished == \A n \in 1..Len(done) : done[n].res # 0
\* nothing is rendered that the file never held, and nothing from the future
ResultIsAVersion == \A n \in 1..Len(done) : done[n].res \in 0..done[n].endv
\* C16 "on every call the content the file had at its latest modification" / C14 "what it would return when run alone":
\* a call returns a version that was current at some moment of the call.  Holds when the file changes only between
\* calls (QuietWrites); with writes during calls it does not (recorded finding: a thread that compiled an older
\* version publishes it after a newer one, and the template stays on the older version)
Fresh == \A n \in 1..Len(done) : done[n].res >= done[n].start /\ done[n].res <= done[n].endv
\* the file is not recompiled while it is unchanged: from a settled state (nobody active, the current version
\* cooked) a call goes straight to the published functions
Settled == Idle /\ cooked /\ last = <<fver, fver>> /\ pub = fver
NoRecompileWhenUnchanged ==
  [][\A t \in Threads : (pc[t] = "test" /\ pc'[t] = "read") =>
        ~(cooked /\ last = <<fver, fver>> /\ pub = fver /\ \A u \in Threads \ {t} : pc[u] = "idle")]_vars

\* bound for model checking
Bounded == Len(done) <= Cardinality(Threads) * MaxCalls
=============================================================================
