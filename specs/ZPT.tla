-------------------------------- MODULE ZPT --------------------------------
(***************************************************************************)
(* The page-template abstract machine (TAL core).                          *)
(*                                                                         *)
(* One action per emitter of chameleon/compiler.py resp. wrapper of        *)
(* chameleon/zpt/program.py (MacroProgram.visit_element).  The program is  *)
(* a flat pre-order sequence of items; an element activation is one frame  *)
(* of the control stack `ctl` that walks through the stages                *)
(*                                                                         *)
(*   oe def case cond rep iter sw repl omit stag attr stagend cont kids    *)
(*   etag loop repleave undef done            (fb = on-error fallback)     *)
(*                                                                         *)
(* in exactly the order in which wrap(...) nests the wrappers.  Generated  *)
(* code cells (backup cells, cache cells, the on-error stream mark) are    *)
(* explicit state in `cells`, keyed by the identifier the compiler would   *)
(* generate, because several properties are about those cells being        *)
(* per-node.  Values of scripted calls e(k) are chosen lazily, at the step *)
(* that evaluates them, and logged; the log doubles as the script for the  *)
(* replay on the real code.                                                *)
(*                                                                         *)
(* `Dev` is a set of named deviations: alternative behaviours that         *)
(* reproduce what the pinned code does where it departs from the language  *)
(* (see DESIGN.md 3.6).  With Dev = {} the machine is the language.        *)
(***************************************************************************)
EXTENDS Naturals, Sequences, FiniteSets, TLC

CONSTANTS Progs,   \* sequence of programs
          Names,   \* pool of variable names (strings)
          Dev      \* active deviations (set of strings)

VARIABLES pid,     \* which program: [id, p] (the program itself is carried in the
                   \* state because TLC re-evaluates a substituted constant on every access)
          ctl,     \* control stack (sequence of frames)
          envs,    \* stack of local variable layers; envs[1] is the root
          glob,    \* rcontext: names defined `global`
          rep,     \* repeat dictionary: name -> [len, pos] or NoRep
          cells,   \* generated-code cells: identifier -> value
          out,     \* output stream (sequence of atoms)
          log,     \* evaluation / snapshot / handler events
          tok,     \* last token reference (site) of the running function
          exc,     \* exception being unwound, or NoExc
          res,     \* result: "run" | "ok" | "fail"
          mx       \* METAL / I18N state: [heap, senv, acts, i18n]

vars == <<pid, ctl, envs, glob, rep, cells, out, log, tok, exc, res, mx>>

prog  == pid.p
items == prog.items

-----------------------------------------------------------------------------
(* Values *)
Undef    == [t |-> "undef"]
VNone    == [t |-> "none"]
VDefault == [t |-> "default"]
VCancel  == [t |-> "cancel"]
VBool(b) == [t |-> "bool", b |-> b]
VInt(n)  == [t |-> "int", n |-> n]
Exc(c)   == [t |-> "exc", c |-> c]
NoExc    == [t |-> "noexc"]
NoRep    == [t |-> "norep"]
NoSite   == [i |-> 0, s |-> "none", j |-> 0]
NoFill   == [i |-> 0, fn |-> 0]

IsExc(v) == v.t = "exc"

Truthy(v) ==
  CASE v.t = "none"    -> FALSE
    [] v.t = "bool"    -> v.b
    [] v.t = "int"     -> v.n # 0
    [] v.t = "str"     -> v.s # ""
    [] v.t = "bytes"   -> v.s # ""
    [] v.t = "byte"    -> TRUE
    [] v.t = "range"   -> v.n > 0
    [] v.t = "seq"     -> v.once \/ Len(v.vs) > 0
    [] v.t = "dict"    -> Len(v.kvs) > 0
    [] v.t = "obj"     -> v.kind # "falsy"
    [] OTHER           -> TRUE

\* Python ==, restricted to the value classes: False == 0, True == 1.
Num(v) == IF v.t = "bool" THEN (IF v.b THEN 1 ELSE 0) ELSE v.n
PyEq(a, b) ==
  IF a.t \in {"bool", "int"} /\ b.t \in {"bool", "int"} THEN Num(a) = Num(b)
  ELSE IF a.t = "obj" \/ b.t = "obj" THEN FALSE   \* distinct objects
  ELSE IF a.t = "seq" /\ b.t = "seq" THEN ~a.once /\ ~b.once /\ a.vs = b.vs
  ELSE a = b

\* names that resolve to Python builtins when the template does not define them
Builtins == {"len", "str", "id", "AttributeError", "LookupError"}

\* Exception classes the pipe operator and exists: recover from.
\* (subclasses are caught with their bases: SubLookup is an application-defined subclass of LookupError,
\* UnboundLocalError a builtin subclass of NameError)
PipeCaught   == {"AttributeError", "NameError", "LookupError", "KeyError",
                 "IndexError", "TypeError", "ValueError", "UnicodeError", "SubLookup", "UnboundLocalError"}
ExistsCaught == {"AttributeError", "NameError", "LookupError", "KeyError",
                 "IndexError", "TypeError", "SubLookup", "UnboundLocalError"}
\* Classes outside Exception (never caught by on-error)
BaseOnly     == {"KeyboardInterrupt", "SystemExit", "GeneratorExit"}

-----------------------------------------------------------------------------
(* Environment: Scope = local layer + shared root (utils.Scope) *)
Top == Len(envs)
Lookup(n) == IF envs[Top][n] # Undef THEN envs[Top][n] ELSE envs[1][n]
LookupAll == [n \in Names |-> Lookup(n)]
SetLocal(E, n, v) == [E EXCEPT ![Len(E)][n] = v]

------------------------------------------------------------------------\* what a name is restored to when its local definition ends: the saved outer
\* binding; if there was none the name is undefined again -- unless a global
\* of that name was defined meanwhile, which stays visible (C05).  The code
\* deletes the name (deviation GlobalLostUnderLocalShadow).  If the saved binding was the GLOBAL one (g0: the global
\* of that name when the local definition began) the global definition in force NOW becomes visible again: a
\* global definition made inside the element is not undone by the end of the local scope.  (The code tells "was the
\* global one" by object identity, the machine by value: recorded finding for values that are equal and not the same.)
Restored(n, backup, g0) ==
  IF backup = Undef
  THEN (IF glob[n] # Undef /\ "GlobalLostUnderLocalShadow" \notin Dev THEN glob[n] ELSE Undef)
  ELSE IF backup = g0 THEN glob[n] ELSE backup

-----
\* --- repeat variables: closed forms over (length, position), position 1-based,
\* written independently of tal.RepeatItem.  Letters: positional base 26 over
\* a..z (a..z, ba, bb, ...: the scheme inherited from Zope); Roman: subtractive
\* notation, M repeated beyond 3999.
RECURSIVE Digits26(_)
Digits26(n) == IF n < 26 THEN <<n>> ELSE Append(Digits26(n \div 26), n % 26)
RomanTable == << <<1000, "M">>, <<900, "CM">>, <<500, "D">>, <<400, "CD">>, <<100, "C">>, <<90, "XC">>,
                 <<50, "L">>, <<40, "XL">>, <<10, "X">>, <<9, "IX">>, <<5, "V">>, <<4, "IV">>, <<1, "I">> >>
RECURSIVE RomanSeq(_, _)
RomanSeq(n, k) == IF n = 0 THEN <<>>
                  ELSE IF n >= RomanTable[k][1] THEN <<RomanTable[k][2]>> \o RomanSeq(n - RomanTable[k][1], k)
                  ELSE RomanSeq(n, k + 1)
RepVal(f, len, pos) ==
  LET idx == pos - 1 IN
  CASE f = "index"  -> [t |-> "int", n |-> idx]
    [] f = "number" -> [t |-> "int", n |-> idx + 1]
    [] f = "length" -> [t |-> "int", n |-> len]
    [] f = "start"  -> [t |-> "int", n |-> IF idx = 0 THEN 1 ELSE 0]
    [] f = "end"    -> [t |-> "int", n |-> IF idx = len - 1 THEN 1 ELSE 0]
    [] f = "even"   -> [t |-> "str", s |-> IF idx % 2 = 0 THEN "even" ELSE ""]
    [] f = "odd"    -> [t |-> "str", s |-> IF idx % 2 = 1 THEN "odd" ELSE ""]
    [] f = "parity" -> [t |-> "str", s |-> IF idx % 2 = 0 THEN "even" ELSE "odd"]
    [] f = "letter" -> [t |-> "letters", up |-> FALSE, ds |-> Digits26(idx)]
    [] f = "Letter" -> [t |-> "letters", up |-> TRUE, ds |-> Digits26(idx)]
    [] f = "roman"  -> [t |-> "roman", up |-> FALSE, ss |-> RomanSeq(idx + 1, 1)]
    [] f = "Roman"  -> [t |-> "roman", up |-> TRUE, ss |-> RomanSeq(idx + 1, 1)]

\* attribute access falls back to item lookup (utils.lookup_attr): a KeyError of
\* the item lookup re-raises the original AttributeError, other errors propagate
HasKey(v, a) == \E n \in 1..Len(v.kvs) : v.kvs[n].k = a
AttrOf(v, a) ==
  CASE v.t = "obj" /\ v.kind = "attr" -> [t |-> "str", s |-> "p"]
    [] v.t = "dict" -> IF HasKey(v, a) THEN v.kvs[CHOOSE n \in 1..Len(v.kvs) : v.kvs[n].k = a].v
                       ELSE Exc("AttributeError")
    [] v.t \in {"seq", "str", "bytes"} -> IF v.t = "seq" /\ v.once THEN Exc("AttributeError") ELSE Exc("TypeError")
    [] OTHER -> Exc("AttributeError")

(* Expression evaluation: set-valued big-step semantics.  A result is      *)
(* [r |-> value or Exc, ev |-> sequence of call events].                   *)
\* `attrs` is bound -- by an alias in the generated code, established as the first of the element's
\* definitions, not by the scope -- to the static attributes of the innermost enclosing element
RECURSIVE AttrsFrame(_)
AttrsFrame(n) ==
  IF n < 1 THEN 0
  ELSE IF ctl[n].i > 0 /\ ctl[n].kind \in {"elem", "macro", "fill"}
          /\ (n < Len(ctl) \/ ctl[n].st \notin {"oe", "nbegin", "imacro", "ds", "fb"})
       THEN ctl[n].i ELSE AttrsFrame(n - 1)

RECURSIVE EvAll(_, _), EvPipe(_, _, _), EvStr(_, _, _)

EvAll(e, L) ==
  CASE e.x = "call"  -> { [r |-> o, ev |-> << [k |-> e.k, r |-> o] >>] : o \in prog.dom[e.k] }
    [] e.x = "const" -> { [r |-> e.v, ev |-> <<>>] }
    [] e.x = "var"   -> { [r |-> IF L[e.n] # Undef THEN L[e.n]
                                 ELSE IF e.n \in Builtins THEN [t |-> "builtin", n |-> e.n]
                                 ELSE Exc("NameError"), ev |-> <<>>] }
    [] e.x = "not"   -> { [r |-> IF IsExc(a.r) THEN a.r ELSE VBool(~Truthy(a.r)), ev |-> a.ev]
                           : a \in EvAll(e.e, L) }
    [] e.x = "exists" -> { [r |-> IF IsExc(a.r)
                                  THEN (IF a.r.c \in ExistsCaught THEN VInt(0) ELSE a.r)
                                  ELSE VInt(1), ev |-> a.ev] : a \in EvAll(e.e, L) }
    [] e.x = "pipe"  -> EvPipe(e.es, 1, L)
    [] e.x = "str"   -> EvStr(e.ps, 1, L)
    [] e.x = "rep"   -> { [r |-> IF rep[e.n] = NoRep THEN Exc("KeyError")
                                 ELSE RepVal(e.f, rep[e.n].len, rep[e.n].pos), ev |-> <<>>] }
    [] e.x = "bad"   -> { [r |-> Exc("ExpressionError"), ev |-> <<>>] }
    [] e.x = "err"   -> { [r |-> IF L["error"] = Undef THEN Exc("NameError")
                                 ELSE [t |-> "errfield", f |-> e.f, c |-> L["error"].c, site |-> L["error"].site],
                           ev |-> <<>>] }
    [] e.x = "dflt"  -> { [r |-> VDefault, ev |-> <<>>] }
    \* import: dotted.name -- the named object, or the import system's error (which neither `|` nor exists: absorbs:
    \* it is not a lookup-type exception); the expression takes no alternatives of its own
    [] e.x = "imp"   -> { [r |-> IF e.ok THEN e.v ELSE Exc("ModuleNotFoundError"), ev |-> <<>>] }
    \* attrs['name']: a static attribute of the innermost element whose definitions are in effect
    [] e.x = "attrs" -> { [r |-> LET i == AttrsFrame(Len(ctl)) IN
                                 IF i = 0 THEN Exc("NameError")
                                 ELSE IF \E n \in 1..Len(items[i].sattr) : items[i].sattr[n].n = e.n
                                 THEN items[i].sattr[CHOOSE n \in 1..Len(items[i].sattr) : items[i].sattr[n].n = e.n].val
                                 ELSE Exc("KeyError"), ev |-> <<>>] }
    \* len(attrs): the element's static attributes as written, and nothing else -- no statement, no declaration of a
    \* template-language namespace (whatever prefix it binds)
    [] e.x = "attrslen" -> { [r |-> LET i == AttrsFrame(Len(ctl)) IN
                                    IF i = 0 THEN Exc("NameError") ELSE VInt(Len(items[i].sattr)), ev |-> <<>>] }
    [] e.x = "wrap"  -> EvAll(e.e, L)      \* lambda / comprehension / conditional ...: identity
    \* (n := E): the value of E; written as a whole interpolation it also binds the template variable n (KText)
    [] e.x = "asg"   -> EvAll(e.e, L)
    \* sorted(E.keys()): attribute lookup comes first, so a key named like a
    \* method of the dictionary does not hide the method
    [] e.x = "skeys" -> { [r |-> IF IsExc(a.r) THEN a.r
                                 ELSE IF a.r.t = "dict"
                                 THEN [t |-> "seq", once |-> FALSE,
                                       vs |-> [n \in 1..Len(a.r.kvs) |-> [t |-> "str", s |-> a.r.kvs[n].k]]]
                                 ELSE AttrOf(a.r, "keys"), ev |-> a.ev] : a \in EvAll(e.e, L) }
    [] e.x = "attr"  -> { [r |-> IF IsExc(a.r) THEN a.r ELSE AttrOf(a.r, e.a), ev |-> a.ev] : a \in EvAll(e.e, L) }

\* deviation BadAlternativePoisonsPipe: an expression one of whose pipe
\* alternatives has invalid syntax fails as a whole, also when that alternative
\* is never reached (non-strict mode compiles the whole expression to a raise)
RECURSIVE HasBad(_)
HasBad(e) == CASE e.x = "bad" -> TRUE
               [] e.x \in {"not", "exists", "wrap", "attr", "skeys"} -> HasBad(e.e)
               [] e.x = "pipe" -> \E n \in 1..Len(e.es) : HasBad(e.es[n])
               [] e.x = "str" -> \E n \in 1..Len(e.ps) : HasBad(e.ps[n])
               [] OTHER -> FALSE

EvPipe(es, i, L) ==
  IF i = 1 /\ "BadAlternativePoisonsPipe" \in Dev /\ (\E n \in 1..Len(es) : HasBad(es[n]))
  THEN { [r |-> Exc("ExpressionError"), ev |-> <<>>] }
  ELSE
  UNION { IF IsExc(a.r) /\ a.r.c \in PipeCaught /\ i < Len(es)
          THEN { [r |-> b.r, ev |-> a.ev \o b.ev] : b \in EvPipe(es, i + 1, L) }
          ELSE { a }
          : a \in EvAll(es[i], L) }

\* string: expression -- parts are literals [x |-> "lit"] or expressions;
\* the result is a "cat" value whose text the printer assembles.
EvStr(ps, i, L) ==
  IF i > Len(ps) THEN { [r |-> [t |-> "cat", vs |-> <<>>], ev |-> <<>>] }
  ELSE IF ps[i].x = "lit"
       THEN { IF IsExc(b.r) THEN b
              ELSE [r |-> [t |-> "cat", vs |-> << [t |-> "lit", p |-> i] >> \o b.r.vs], ev |-> b.ev]
              : b \in EvStr(ps, i + 1, L) }
       ELSE UNION { IF IsExc(a.r) THEN { a }
                    ELSE { IF IsExc(b.r) THEN [r |-> b.r, ev |-> a.ev \o b.ev]
                           ELSE [r |-> [t |-> "cat", vs |-> <<a.r>> \o b.r.vs], ev |-> a.ev \o b.ev]
                           : b \in EvStr(ps, i + 1, L) }
                    : a \in EvAll(ps[i], L) }

-----------------------------------------------------------------------------
(* Static structure of the flat program *)
RECURSIVE MatchFrom(_, _)
MatchFrom(i, d) ==   \* index of the "close" item matching depth d, scanning from i
  IF items[i].k = "open" THEN MatchFrom(i + 1, d + 1)
  ELSE IF items[i].k = "close" THEN (IF d = 1 THEN i ELSE MatchFrom(i + 1, d - 1))
  ELSE MatchFrom(i + 1, d)
Match(i) == MatchFrom(i + 1, 1)

\* nearest ancestor-or-self frame (below the top) whose element has a switch
RECURSIVE SwFrame(_)
SwFrame(n) == IF n < 2 THEN 0
              ELSE IF items[ctl[n].i].sw.x # "none" THEN n ELSE SwFrame(n - 1)

Site(i, s, j) == [i |-> i, s |-> s, j |-> j]
\* the activation of the running step: the chain of elements (and iterations) it is nested in dynamically
Act == [n \in 1..Len(ctl) |-> <<ctl[n].i, ctl[n].it>>]

\* cell identifiers
CFb(i)      == IF "SharedFallbackCell" \in Dev THEN <<"fb", 0, 0>> ELSE <<"fb", i, 0>>
CBk(i, j)   == <<"bk", i, j>>
CBkRep(i)   == <<"bkrep", i, 0>>
CSw(i)      == <<"sw", i, 0>>
COmit(i)    == <<"omit", i, 0>>

-----------------------------------------------------------------------------
(* Attribute preparation (tal.prepare_attributes): static attributes keep  *)
(* their position; a named dynamic entry replaces the static one with the  *)
(* same lower-cased name in place; new names are appended in statement     *)
(* order.  Entry: [key, st (index into sattr or 0), dy (index into dattr   *)
(* or 0)].                                                                 *)
RECURSIVE PrepDyn(_, _, _)
IndexOfKey(P, key) == IF \E n \in 1..Len(P) : P[n].key = key
                      THEN CHOOSE n \in 1..Len(P) : P[n].key = key ELSE 0
PrepDyn(P, D, j) ==
  IF j > Len(D) THEN P
  ELSE LET n == IF D[j].d THEN 0 ELSE IndexOfKey(P, D[j].key) IN
       IF n > 0 THEN PrepDyn([P EXCEPT ![n].dy = j], D, j + 1)
       ELSE PrepDyn(Append(P, [key |-> IF D[j].d THEN "" ELSE D[j].key, st |-> 0, dy |-> j]), D, j + 1)
Prepared(it) ==
  PrepDyn([n \in 1..Len(it.sattr) |-> [key |-> it.sattr[n].key, st |-> n, dy |-> 0]], it.dattr, 1)

-----------------------------------------------------------------------------
(* Stage order *)
StageSeq == << "oe", "nbegin", "imacro", "ds", "def", "case", "cond", "rep", "sw", "dom", "use", "repl", "omit", "stag" >>

HasStage(it, st) ==
  CASE st = "oe"   -> it.oe.m # "no" /\ it.dm = "" /\ it.fs = ""   \* on a define-macro / fill-slot element the handler is part of
                                                              \* the macro / the filler (InnerStart)
    [] st = "nbegin" -> it.nm # ""          \* i18n:name: the element's output is a named block of the enclosing translation
    [] st = "imacro" -> it.dm # ""          \* metal:define-macro: the element is rendered by calling its macro
    [] st = "ds"   -> it.ds # ""            \* metal:define-slot
    [] st = "use"  -> it.um.m # "no"        \* metal:use-macro / extend-macro
    [] st = "dom"  -> it.i18n.m # "no"      \* i18n:domain / context / target
    [] st = "def"  -> Len(it.def) > 0
    [] st = "case" -> it.cs.x # "none"
    [] st = "cond" -> it.cond.x # "none"
    [] st = "rep"  -> it.rep.m # "no"
    [] st = "sw"   -> it.sw.x # "none"
    [] st = "repl" -> it.sub.m = "replace"
    [] st = "omit" -> it.omit.m = "expr" /\ it.tag = "el"   \* never evaluated on tal: elements
    [] st = "stag" -> TRUE

\* first stage of a macro body or of a filler: tal:on-error of the define-macro / fill-slot element guards it
RECURSIVE FirstFrom(_, _)
FirstFrom(it, n) == IF HasStage(it, StageSeq[n]) THEN StageSeq[n] ELSE FirstFrom(it, n + 1)
IdxOf(st) == CHOOSE n \in 1..Len(StageSeq) : StageSeq[n] = st
NextStage(it, st) == FirstFrom(it, IdxOf(st) + 1)
FirstStage(it) == FirstFrom(it, 1)
InnerFirst(it) == IF it.oe.m # "no" THEN "oe" ELSE NextStage(it, "imacro")

F  == ctl[Len(ctl)]
Frame(i, st) == [i |-> i, st |-> st, j |-> 1, c |-> i + 1, it |-> 0, its |-> <<>>, oe |-> FALSE,
                 l0 |-> LookupAll, g0 |-> glob, n0 |-> Len(out), rec |-> FALSE,
                 kind |-> "elem", fn |-> F.fn, ke |-> 0, nmark |-> 0, ib |-> mx.i18n, trd |-> Len(mx.tr)]
It == items[F.i]
SetF(f) == [ctl EXCEPT ![Len(ctl)] = f]
Goto(st) == SetF([F EXCEPT !.st = st, !.j = 1])
GotoKids == SetF([F EXCEPT !.st = "kids", !.j = 1, !.c = F.i + 1])
GotoUndef == SetF([F EXCEPT !.st = "undef", !.j = Len(It.def)])

\* i18n:translate applies to static content only (not with tal:content / tal:replace)
\* (with tal:content the children are the text only when the expression gives `default`: they are translated then;
\* any other value is itself offered as the message id -- CTrans)
\* (tal:replace: the element is rendered -- and its content translated -- only for `default`)
Translating(it) == it.tr.m = "yes"

TagShown == It.tag = "el" /\ (It.omit.m = "no" \/ (It.omit.m = "expr" /\ ~cells[COmit(F.i)].b))

Running == res = "run" /\ exc = NoExc /\ Len(ctl) > 0

-----------------------------------------------------------------------------
Init ==
  /\ pid \in { [id |-> n, p |-> Progs[n]] : n \in 1..Len(Progs) }
  /\ ctl = << [i |-> 0, st |-> "kids", j |-> 1, c |-> 1, it |-> 0, its |-> <<>>, oe |-> FALSE,
                l0 |-> pid.p.init, g0 |-> [n \in Names |-> Undef], n0 |-> 0, rec |-> FALSE,
                kind |-> "root", fn |-> 1, ke |-> pid.p.main + 1, nmark |-> 0,
                ib |-> [d |-> "", c |-> "", t |-> ""], trd |-> 0] >>
  /\ envs = << pid.p.init >>
  /\ glob = [n \in Names |-> Undef]
  /\ rep = [n \in Names |-> NoRep]
  /\ cells = [c \in {} |-> Undef]
  /\ out = <<>>
  /\ log = <<>>
  /\ tok = NoSite
  /\ exc = NoExc
  /\ res = "run"
  /\ mx = [heap |-> <<>>, senv |-> << [s \in pid.p.slots |-> 0] >>,
           acts |-> << [sv |-> [s \in pid.p.slots |-> NoFill], tok |-> NoSite] >>,
           i18n |-> [d |-> "", c |-> "", t |-> ""], tstk |-> <<>>, tr |-> <<>>]

SetCell(c, v) == [x \in DOMAIN cells \cup {c} |-> IF x = c THEN v ELSE cells[x]]

\* a message object that is inserted (content / replace / attribute / interpolation / on-error fallback) is offered
\* to the translation function with the translation settings in force at that place
IsMsg(v) == v.t = "obj" /\ v.kind = "msg"
\* i18n:attributes: an attribute named by a clause of the statement is offered to the translation function --
\* message id: the clause's id, or the attribute's text; default: the text; with the translation settings in force on
\* the element -- every time its start tag is written.  A dropped attribute (None) stays dropped; `default` means the
\* static text, which is translated like a static attribute.  (Whether the call is made for an EMPTY text without an
\* explicit id is decided where the text is known: harness.)  Entry 0: not translated.
IaIndex(it, key) == IndexOfKey(it.ia, key)
ATrans(i, st, dy, v) ==
  [ev |-> "atrans", i |-> i, st |-> st, dy |-> dy, id |-> items[i].ia[IaIndex(items[i], IF dy > 0 THEN items[i].dattr[dy].key ELSE items[i].sattr[st].key)].id,
   v |-> v, d |-> mx.i18n.d, c |-> mx.i18n.c, t |-> mx.i18n.t, act |-> Act]
StaticOf(it, key) == IndexOfKey(it.sattr, key)
\* n: which call of this evaluation of the site's expression (the same call may be written several times in one expression)
EvLog(site, a) == [n \in 1..Len(a.ev) |-> [ev |-> "call", k |-> a.ev[n].k, r |-> a.ev[n].r, site |-> site, act |-> Act, n |-> n]]
                  \* a value inserted by tal:content / tal:replace / tal:on-error on an element marked i18n:translate is offered
                  \* itself: as the message id (id ""), or as the default of the explicit id (not when it is None)
                  \o (IF site.s \in {"sub", "oe"} /\ items[site.i].tr.m = "yes" /\ ~IsExc(a.r) /\ a.r # VDefault
                         /\ (items[site.i].tr.id # "" => a.r # VNone)
                      THEN << [ev |-> "ctrans", v |-> a.r, id |-> items[site.i].tr.id, d |-> mx.i18n.d, c |-> mx.i18n.c, t |-> mx.i18n.t,
                               site |-> site, act |-> Act] >>
                      ELSE <<>>)
                  \o (IF site.s \in {"sub", "attr", "text", "oe"} /\ IsMsg(a.r)
                      THEN << [ev |-> "offer", d |-> mx.i18n.d, c |-> mx.i18n.c, t |-> mx.i18n.t, site |-> site, act |-> Act] >>
                      ELSE <<>>)
                  \o (IF site.s = "attr" /\ ~IsExc(a.r) /\ a.r # VNone
                         /\ ~items[site.i].dattr[site.j].d /\ ~items[site.i].dattr[site.j].b
                         /\ IaIndex(items[site.i], items[site.i].dattr[site.j].key) > 0
                         /\ (a.r = VDefault => StaticOf(items[site.i], items[site.i].dattr[site.j].key) > 0)
                      THEN << ATrans(site.i, StaticOf(items[site.i], items[site.i].dattr[site.j].key), site.j, a.r) >>
                      ELSE <<>>)

\* Raise exception class c at site (the running function's token is the site)
RaiseAt(site, c) == exc' = [c |-> c, site |-> site, sites |-> <<>>]

-----------------------------------------------------------------------------
(* kids: walk the children of the current element (or the top level) *)
KidsEnd == IF F.i = 0 THEN F.ke ELSE Match(F.i)

KEnter ==   \* MacroProgram.visit_element -> wrap(...)
  /\ Running /\ F.st = "kids" /\ F.c < KidsEnd /\ items[F.c].k = "open"
  /\ ctl' = Append(ctl, Frame(F.c, FirstStage(items[F.c])))
  /\ UNCHANGED <<pid, mx, envs, glob, rep, cells, out, log, tok, exc, res>>

KText ==    \* visit_Text / visit_Interpolation, one part per step
  /\ Running /\ F.st = "kids" /\ F.c < KidsEnd /\ items[F.c].k = "text"
  /\ LET parts == items[F.c].parts
         p == parts[F.j]
         adv == IF F.j = Len(parts) THEN SetF([F EXCEPT !.c = F.c + 1, !.j = 1])
                ELSE SetF([F EXCEPT !.j = F.j + 1])
     IN CASE p.x = "lit" ->
               /\ out' = Append(out, [a |-> "text", i |-> F.c, p |-> F.j])
               /\ ctl' = adv
               /\ UNCHANGED <<envs, glob, rep, cells, log, tok, exc, res>>
          [] p.x = "snap" ->
               /\ log' = Append(log, [ev |-> "snap", k |-> p.k, env |-> LookupAll, act |-> Act])
               /\ ctl' = adv
               /\ UNCHANGED <<envs, glob, rep, cells, out, tok, exc, res>>
          [] OTHER ->
               \E a \in EvAll(p, LookupAll) :
                 /\ log' = log \o EvLog(Site(F.c, "text", F.j), a)
                 /\ tok' = Site(F.c, "text", F.j)
                 /\ IF IsExc(a.r)
                    THEN /\ RaiseAt(Site(F.c, "text", F.j), a.r.c)
                         /\ UNCHANGED <<ctl, out>>
                    ELSE /\ ctl' = adv
                         /\ out' = IF a.r.t = "none" THEN out
                                   ELSE Append(out, [a |-> "val", v |-> a.r, esc |-> "text", i |-> F.c, p |-> F.j])
                         /\ UNCHANGED exc
                 \* an assignment expression binds its target in the variable scope, like a code block: nothing is
                 \* restored, except by the element (if any) that defines the same name locally
                 /\ envs' = IF p.x = "asg" /\ ~IsExc(a.r) THEN SetLocal(envs, p.n, a.r) ELSE envs
                 /\ UNCHANGED <<glob, rep, cells, res>>
  /\ UNCHANGED <<pid, mx>>

KCode ==    \* visit_CodeBlock: <?python n = expr ?> assigns in the variable scope; nothing is restored
  /\ Running /\ F.st = "kids" /\ F.c < KidsEnd /\ items[F.c].k = "code"
  /\ LET cb == items[F.c]
         site == Site(F.c, "code", 0)
     IN \E a \in EvAll(cb.e, LookupAll) :
          /\ log' = log \o EvLog(site, a)
          /\ tok' = site
          /\ IF IsExc(a.r)
             THEN /\ RaiseAt(site, a.r.c) /\ UNCHANGED <<ctl, envs>>
             ELSE /\ envs' = SetLocal(envs, cb.n, a.r)
                  /\ ctl' = SetF([F EXCEPT !.c = F.c + 1, !.j = 1])
                  /\ UNCHANGED exc
  /\ UNCHANGED <<pid, mx, glob, rep, cells, out, res>>

KDone ==    \* children exhausted
  /\ Running /\ F.st = "kids" /\ F.c = KidsEnd
  /\ (F.i = 0 => Len(ctl) = 1)        \* a whole template used as macro returns through MReturn
  /\ IF F.i = 0
     THEN /\ res' = "ok" /\ ctl' = <<>>
     ELSE /\ ctl' = Goto(IF Translating(It) THEN "tend" ELSE "etag") /\ UNCHANGED res
  /\ UNCHANGED <<pid, mx, envs, glob, rep, cells, out, log, tok, exc>>

-----------------------------------------------------------------------------
(* Statement stages *)

SOe ==      \* visit_OnError: remember the stream length
  /\ Running /\ F.st = "oe"
  /\ cells' = SetCell(CFb(F.i), VInt(Len(out)))
  /\ ctl' = SetF([F EXCEPT !.st = IF F.kind \in {"macro", "fill"} THEN NextStage(It, "imacro") ELSE NextStage(It, "oe"),
                           !.j = 1, !.oe = TRUE])
  /\ UNCHANGED <<pid, mx, envs, glob, rep, out, log, tok, exc, res>>

\* generic evaluation step for stage st with expression e; K(a) is the
\* continuation for a successful result a.r
EvalAt(site, e, OnVal(_)) ==
  \E a \in EvAll(e, LookupAll) :
    /\ log' = log \o EvLog(site, a)
    /\ tok' = site
    /\ IF IsExc(a.r)
       THEN /\ RaiseAt(site, a.r.c)
            /\ UNCHANGED <<ctl, envs, glob, rep, cells, out, mx>>
       ELSE /\ OnVal(a.r) /\ UNCHANGED exc

\* binding one item to the loop names (tuple unpacking for several names)
Unpackable(v, k) == k = 1 \/ (v.t = "seq" /\ Len(v.vs) = k)
UnpackError(v) == IF v.t \in {"seq", "str", "dict", "bytes"} THEN "ValueError" ELSE "TypeError"
RECURSIVE BindAll(_, _, _, _)
BindAll(E, ns, v, m) == IF m > Len(ns) THEN E
                        ELSE BindAll(SetLocal(E, ns[m], IF Len(ns) = 1 THEN v ELSE v.vs[m]), ns, v, m + 1)
RECURSIVE BindGlob(_, _, _, _)
BindGlob(G, ns, v, m) == IF m > Len(ns) THEN G
                         ELSE BindGlob([G EXCEPT ![ns[m]] = IF Len(ns) = 1 THEN v ELSE v.vs[m]], ns, v, m + 1)
RECURSIVE SetAll(_, _, _, _)
SetAll(E, ns, vs, m) == IF m > Len(ns) THEN E ELSE SetAll(SetLocal(E, ns[m], vs[m]), ns, vs, m + 1)

SDef ==     \* visit_Define / _enter_assignment / visit_Assignment
  /\ Running /\ F.st = "def"
  /\ LET d == It.def[F.j]
         nxt == IF F.j = Len(It.def) THEN Goto(NextStage(It, "def"))
                ELSE SetF([F EXCEPT !.j = F.j + 1])
         \* one name, or several: "(a, b) expr" unpacks the value; every name is bound to ITS item -- locally and,
         \* for a global definition, in the globals too
         site == Site(F.i, "def", F.j)
     IN \E a \in EvAll(d.e, LookupAll) :
          /\ log' = log \o EvLog(site, a)
          /\ tok' = site
          /\ IF IsExc(a.r)
             THEN /\ RaiseAt(site, a.r.c)
                  /\ UNCHANGED <<ctl, envs, glob, rep, cells, out>>
             ELSE IF ~Unpackable(a.r, Len(d.ns))
             THEN /\ RaiseAt(site, UnpackError(a.r))
                  /\ UNCHANGED <<ctl, envs, glob, rep, cells, out>>
             ELSE /\ envs' = BindAll(envs, d.ns, a.r, 1)
                  /\ glob' = IF d.g THEN BindGlob(glob, d.ns, a.r, 1) ELSE glob
                  /\ cells' = IF d.g THEN cells
                              ELSE SetCell(CBk(F.i, F.j), [t |-> "bk", vs |-> [m \in 1..Len(d.ns) |-> Lookup(d.ns[m])],
                                                                      gs |-> [m \in 1..Len(d.ns) |-> glob[d.ns[m]]]])
                  /\ ctl' = nxt
                  /\ UNCHANGED <<rep, out, exc>>
  /\ UNCHANGED <<pid, mx, res>>

SCase ==    \* CASE closure + visit_Cancel
  /\ Running /\ F.st = "case"
  /\ LET sf == SwFrame(Len(ctl) - 1)
         sw == CSw(ctl[sf].i)
         site == Site(F.i, "case", 0)
         skip == GotoUndef
         take == Goto(NextStage(It, "case"))
     IN IF cells[sw] = VCancel
        THEN /\ ctl' = skip
             /\ UNCHANGED <<envs, glob, rep, cells, out, log, tok, exc>>
        ELSE \E a \in EvAll(It.cs, LookupAll) :
               /\ tok' = site
               /\ IF IsExc(a.r)
                  THEN /\ log' = log \o EvLog(site, a)
                       /\ RaiseAt(site, a.r.c)
                       /\ UNCHANGED <<ctl, cells>>
                  ELSE IF PyEq(a.r, cells[sw])
                  THEN /\ log' = log \o EvLog(site, a)
                       /\ ctl' = take /\ cells' = SetCell(sw, VCancel) /\ UNCHANGED exc
                  ELSE IF "CaseEvalTwice" \in Dev
                  THEN \* the code evaluates the case expression a second time
                       \* for the comparison with the default marker
                       \E b \in EvAll(It.cs, LookupAll) :
                         /\ log' = log \o EvLog(site, a) \o EvLog(site, b)
                         /\ IF IsExc(b.r)
                            THEN /\ RaiseAt(site, b.r.c) /\ UNCHANGED <<ctl, cells>>
                            ELSE IF b.r = VDefault
                            THEN /\ ctl' = take /\ cells' = SetCell(sw, VCancel) /\ UNCHANGED exc
                            ELSE /\ ctl' = skip /\ UNCHANGED <<cells, exc>>
                  ELSE /\ log' = log \o EvLog(site, a)
                       /\ IF a.r = VDefault
                          THEN /\ ctl' = take /\ cells' = SetCell(sw, VCancel) /\ UNCHANGED exc
                          ELSE /\ ctl' = skip /\ UNCHANGED <<cells, exc>>
               /\ UNCHANGED <<envs, glob, rep, out>>
  /\ UNCHANGED <<pid, mx, res>>

SCond ==    \* visit_Condition
  /\ Running /\ F.st = "cond"
  /\ LET K(v) == /\ ctl' = IF Truthy(v) THEN Goto(NextStage(It, "cond")) ELSE GotoUndef
                 /\ UNCHANGED <<envs, glob, rep, cells, out>>
     IN EvalAt(Site(F.i, "cond", 0), It.cond, K)
  /\ UNCHANGED <<pid, mx, res>>

\* what tal:repeat iterates over (RepeatDict.__call__: list(iterable), None -> ())
\* strings are iterables of their characters; string values are tags, their
\* lengths are given here (the concretiser's STR_TAGS)
StrLen(s) == CASE s = "" -> 0 [] s = "h" -> 6 [] s = "h2" -> 12 [] s = "q" -> 4 [] s = "pp" -> 3 [] s = "dg" -> 10 [] OTHER -> 1
Iterable(v) == v.t \in {"none", "seq", "dict", "str", "bytes", "range"}
ItemsOf(v) == CASE v.t = "none" -> <<>>
                [] v.t = "seq"  -> v.vs
                [] v.t = "range" -> [n \in 1..v.n |-> [t |-> "int", n |-> n - 1]]
                [] v.t = "dict" -> [n \in 1..Len(v.kvs) |-> [t |-> "str", s |-> v.kvs[n].k]]
                [] v.t = "str"  -> [n \in 1..StrLen(v.s) |-> IF StrLen(v.s) = 1 THEN v ELSE [t |-> "char", s |-> v.s, n |-> n]]
                [] v.t = "bytes" -> [n \in 1..StrLen(v.s) |-> [t |-> "byte", s |-> v.s, n |-> n]]

CRepPrev(i) == <<"repprev", i, 0>>

SRep ==     \* visit_Repeat, up to the loop head
  /\ Running /\ F.st = "rep"
  /\ LET r == It.rep
         site == Site(F.i, "rep", 0)
         bk == [m \in 1..Len(r.ns) |-> Lookup(r.ns[m])]
         c1 == IF r.g THEN cells ELSE SetCell(CBkRep(F.i), [t |-> "bk", vs |-> bk, gs |-> [m \in 1..Len(r.ns) |-> glob[r.ns[m]]]])
     IN \E a \in EvAll(r.e, LookupAll) :
          /\ log' = log \o EvLog(site, a)
          /\ tok' = site
          /\ IF IsExc(a.r) \/ ~Iterable(a.r)
             THEN /\ RaiseAt(site, IF IsExc(a.r) THEN a.r.c ELSE "TypeError")
                  /\ cells' = c1
                  /\ UNCHANGED <<ctl, envs, rep>>
             ELSE /\ cells' = [x \in DOMAIN c1 \cup {CRepPrev(F.i)} |->
                                 IF x = CRepPrev(F.i) THEN rep[r.ns[1]] ELSE c1[x]]
                  /\ rep' = IF Len(r.ns) = 1
                            THEN [rep EXCEPT ![r.ns[1]] = [len |-> Len(ItemsOf(a.r)), pos |-> 0]] ELSE rep
                  /\ envs' = SetAll(envs, r.ns, [m \in 1..Len(r.ns) |-> VNone], 1)
                  /\ ctl' = SetF([F EXCEPT !.st = "iter", !.its = ItemsOf(a.r), !.it = 0])
                  /\ UNCHANGED exc
  /\ UNCHANGED <<pid, mx, glob, out, res>>

SIter ==    \* for __item in __iterator: assign; after the loop _leave_assignment
  /\ Running /\ F.st = "iter"
  /\ LET r == It.rep
         k == Len(r.ns)
     IN
     IF F.it < Len(F.its)
     THEN LET v == F.its[F.it + 1] IN
          IF Unpackable(v, k)
          THEN /\ envs' = BindAll(envs, r.ns, v, 1)
               /\ glob' = IF r.g THEN BindGlob(glob, r.ns, v, 1) ELSE glob
               /\ rep' = IF k = 1 THEN [rep EXCEPT ![r.ns[1]] = [len |-> Len(F.its), pos |-> F.it + 1]] ELSE rep
               /\ ctl' = SetF([F EXCEPT !.it = F.it + 1, !.st = NextStage(It, "rep"), !.j = 1])
               /\ UNCHANGED exc
          ELSE /\ RaiseAt(Site(F.i, "rep", 0), UnpackError(v))    \* reported with the repeat expression
               /\ UNCHANGED <<envs, glob, rep, ctl>>
     ELSE /\ envs' = IF r.g THEN envs
                     ELSE SetAll(envs, r.ns, [m \in 1..k |-> Restored(r.ns[m], cells[CBkRep(F.i)].vs[m], cells[CBkRep(F.i)].gs[m])], 1)
          \* the repeat item of an enclosing loop with the same name is put back
          \* (the pinned code left the finished inner item: deviation RepeatItemNotRestored)
          /\ rep' = IF k = 1 /\ cells[CRepPrev(F.i)] # NoRep /\ "RepeatItemNotRestored" \notin Dev
                    THEN [rep EXCEPT ![r.ns[1]] = cells[CRepPrev(F.i)]] ELSE rep
          /\ ctl' = SetF([F EXCEPT !.st = "undef", !.j = Len(It.def), !.it = 0])
          /\ UNCHANGED <<glob, exc>>
  /\ UNCHANGED <<pid, mx, cells, out, log, tok, res>>

SSw ==      \* visit_Cache for the switch expression
  /\ Running /\ F.st = "sw"
  /\ LET K(v) == /\ cells' = SetCell(CSw(F.i), v)
                 /\ ctl' = Goto(NextStage(It, "sw"))
                 /\ UNCHANGED <<envs, glob, rep, out>>
     IN EvalAt(Site(F.i, "sw", 0), It.sw, K)
  /\ UNCHANGED <<pid, mx, res>>

ValAtom(v, esc, i) == [a |-> "val", v |-> v, esc |-> esc, i |-> i, p |-> 0]
TrVal(v, esc, i) == IF items[i].tr.m = "yes" THEN [tr |-> TRUE] @@ ValAtom(v, esc, i) ELSE ValAtom(v, esc, i)

SRepl ==    \* tal:replace via _make_content_node (default -> the element)
  /\ Running /\ F.st = "repl"
  /\ LET K(v) == /\ ctl' = IF v = VDefault THEN Goto(NextStage(It, "repl")) ELSE Goto("loop")
                 /\ out' = IF v = VDefault \/ v = VNone THEN out
                           ELSE Append(out, TrVal(v, IF It.sub.s THEN "struct" ELSE "text", F.i))
                 /\ UNCHANGED <<envs, glob, rep, cells>>
     IN EvalAt(Site(F.i, "sub", 0), It.sub.e, K)
  /\ UNCHANGED <<pid, mx, res>>

SOmit ==    \* Cache([omit]) -- the negated omit-tag expression
  /\ Running /\ F.st = "omit"
  /\ LET K(v) == /\ cells' = SetCell(COmit(F.i), VBool(Truthy(v)))
                 /\ ctl' = Goto("stag")
                 /\ UNCHANGED <<envs, glob, rep, out>>
     IN EvalAt(Site(F.i, "omit", 0), It.omit.e, K)
  /\ UNCHANGED <<pid, mx, res>>

\* --- attribute dictionaries ------------------------------------------------
CDict(i, j) == <<"dict", i, j>>
DictIdx(it) == { j \in 1..Len(it.dattr) : it.dattr[j].d }
\* the name under which a prepared entry is emitted (statement spelling wins)
PName(it, a) == IF a.dy > 0 THEN it.dattr[a.dy].n ELSE it.sattr[a.st].n
KeysOf(v) == { v.kvs[n].k : n \in 1..Len(v.kvs) }
\* attribute names are matched irrespective of case (lk: the key in lower case)
LKeysOf(v) == { v.kvs[n].lk : n \in 1..Len(v.kvs) }
\* Is the named entry at position pj overridden by an attribute dictionary?
\* Language (C07): a *later source in statement order* wins.  The code lets
\* every dictionary that stands later in the prepared list win, i.e. a
\* dictionary also overrides a later named entry that replaces a static
\* attribute in place (deviation DictOverridesByPosition).
Suppressed(it, P, pj, i) ==
  \E dj \in 1..Len(P) :
     /\ P[dj].dy > 0 /\ it.dattr[P[dj].dy].d
     /\ IF "DictOverridesByPosition" \in Dev THEN dj > pj
        ELSE P[dj].dy > P[pj].dy          \* statics have dy = 0: any dictionary is later
     /\ P[pj].key \in LKeysOf(cells[CDict(i, P[dj].dy)])
\* names a dictionary at position dj must leave to later entries
Excluded(it, P, dj) ==
  { P[n].key : n \in { n \in 1..Len(P) :
        ~(P[n].dy > 0 /\ it.dattr[P[n].dy].d) /\
        (IF "DictOverridesByPosition" \in Dev THEN n > dj ELSE P[n].dy > P[dj].dy) } }

\* keys that later dictionaries of the same statement supply: the later source
\* wins (C07).  The code emits such a name once per dictionary (deviation
\* DictDuplicatesAcrossDicts).
LaterDictKeys(it, P, dj, i) ==
  IF "DictDuplicatesAcrossDicts" \in Dev THEN {}
  ELSE UNION { LKeysOf(cells[CDict(i, P[n].dy)]) :
               n \in { n \in 1..Len(P) : n > dj /\ P[n].dy > 0 /\ it.dattr[P[n].dy].d } }

SStag ==    \* visit_Start; Cache(filtering): attribute dictionaries are evaluated first
  /\ Running /\ F.st = "stag"
  /\ IF TagShown
     THEN /\ out' = Append(out, [a |-> "stag", i |-> F.i])
          /\ ctl' = IF DictIdx(It) # {} THEN Goto("dicts")
                    ELSE IF Len(Prepared(It)) > 0 THEN Goto("attr") ELSE Goto("stagend")
     ELSE /\ ctl' = Goto("cont") /\ UNCHANGED out
  /\ UNCHANGED <<pid, mx, envs, glob, rep, cells, log, tok, exc, res>>

SDicts ==   \* evaluate the attribute dictionaries (in statement order) into their cells
  /\ Running /\ F.st = "dicts"
  /\ LET todo == { j \in DictIdx(It) : j >= F.j }
         j == CHOOSE j \in todo : \A k \in todo : j <= k
         rest == { k \in todo : k > j }
         K(v) == IF v.t # "dict"
                 THEN /\ RaiseAt(Site(F.i, "attr", j), IF v.t = "none" THEN "TypeError" ELSE "AttributeError")
                      /\ UNCHANGED <<ctl, envs, glob, rep, cells, out>>
                 ELSE /\ cells' = SetCell(CDict(F.i, j), v)
                      /\ ctl' = IF rest = {} THEN Goto("attr") ELSE SetF([F EXCEPT !.j = j + 1])
                      /\ UNCHANGED <<envs, glob, rep, out, exc>>
     IN \E a \in EvAll(It.dattr[j].e, LookupAll) :
          /\ log' = log \o EvLog(Site(F.i, "attr", j), a)
          /\ tok' = Site(F.i, "attr", j)
          /\ IF IsExc(a.r)
             THEN /\ RaiseAt(Site(F.i, "attr", j), a.r.c)
                  /\ UNCHANGED <<ctl, envs, glob, rep, cells, out>>
             ELSE K(a.r)
  /\ UNCHANGED <<pid, mx, res>>

\* atoms emitted by an attribute dictionary
RECURSIVE DictAtoms(_, _, _, _, _)
DictAtoms(i, v, n, excl, bools) ==
  IF n > Len(v.kvs) THEN <<>>
  ELSE LET kv == v.kvs[n]
           skip == kv.lk \in excl \/ kv.v = VNone \/ (kv.lk \in bools /\ ~Truthy(kv.v))
       IN (IF skip THEN <<>>
           ELSE << [a |-> "kattr", i |-> i, k |-> kv.k,
                    v |-> IF kv.lk \in bools THEN [t |-> "str", s |-> kv.k] ELSE kv.v] >>)
          \o DictAtoms(i, v, n + 1, excl, bools)

SAttr ==    \* visit_Attribute / visit_DictAttributes
  /\ Running /\ F.st = "attr"
  /\ LET P == Prepared(It)
         a == P[F.j]
         nxt == IF F.j = Len(P) THEN Goto("stagend") ELSE SetF([F EXCEPT !.j = F.j + 1])
         sup == Suppressed(It, P, F.j, F.i)
     IN IF a.dy = 0
        THEN \* static: emitted as written unless a dictionary supplies the name; translated if i18n:attributes names it
             LET tr == IaIndex(It, It.sattr[a.st].key) > 0 IN
             /\ out' = IF sup THEN out ELSE Append(out, [a |-> IF tr THEN "tattr" ELSE "sattr", i |-> F.i, n |-> a.st])
             /\ log' = IF sup \/ ~tr THEN log ELSE Append(log, ATrans(F.i, a.st, 0, VDefault))
             /\ ctl' = nxt
             /\ UNCHANGED <<envs, glob, rep, cells, tok, exc>>
        ELSE IF It.dattr[a.dy].d
        THEN \* dictionary: already evaluated
             /\ out' = out \o DictAtoms(F.i, cells[CDict(F.i, a.dy)], 1,
                                        Excluded(It, P, F.j) \cup LaterDictKeys(It, P, F.j, F.i), prog.bools)
             /\ ctl' = nxt
             /\ UNCHANGED <<envs, glob, rep, cells, log, tok, exc>>
        ELSE IF sup
        THEN \* a later dictionary supplies the name: the expression is not evaluated
             /\ ctl' = nxt
             /\ UNCHANGED <<envs, glob, rep, cells, out, log, tok, exc>>
        ELSE LET d == It.dattr[a.dy]
                 K(v) ==
                   /\ ctl' = nxt
                   /\ out' = IF sup THEN out
                             ELSE IF v = VDefault
                             THEN (IF a.st > 0 THEN Append(out, [a |-> "sdflt", i |-> F.i, n |-> a.dy, st |-> a.st, tr |-> IaIndex(It, d.key) > 0 /\ ~d.b]) ELSE out)
                             ELSE IF d.b
                             THEN (IF Truthy(v) THEN Append(out, [a |-> "battr", i |-> F.i, n |-> a.dy, st |-> a.st]) ELSE out)
                             ELSE IF v = VNone THEN out
                             ELSE Append(out, [a |-> "dattr", i |-> F.i, n |-> a.dy, st |-> a.st, v |-> v, tr |-> IaIndex(It, d.key) > 0])
                   /\ UNCHANGED <<envs, glob, rep, cells>>
             IN EvalAt(Site(F.i, "attr", a.dy), d.e, K)
  /\ UNCHANGED <<pid, mx, res>>

SStagEnd ==
  /\ Running /\ F.st = "stagend"
  /\ out' = Append(out, [a |-> "stagend", i |-> F.i])
  /\ ctl' = Goto("cont")
  /\ UNCHANGED <<pid, mx, envs, glob, rep, cells, log, tok, exc, res>>

SCont ==    \* tal:content via _make_content_node (default -> the children)
  /\ Running /\ F.st = "cont"
  /\ IF It.sub.m # "content"
     THEN /\ ctl' = GotoKids
          /\ UNCHANGED <<envs, glob, rep, cells, out, log, tok, exc>>
          \* visit_Translate: the content is rendered into a stream of its own
          /\ mx' = IF Translating(It) THEN [mx EXCEPT !.tr = Append(mx.tr, [mark |-> Len(out), names |-> <<>>])] ELSE mx
     ELSE LET K(v) == /\ ctl' = IF v = VDefault THEN GotoKids ELSE Goto("etag")
                      /\ out' = IF v = VDefault \/ v = VNone THEN out
                                ELSE Append(out, TrVal(v, IF It.sub.s THEN "struct" ELSE "text", F.i))
                      /\ mx' = IF v = VDefault /\ It.tr.m = "yes"
                               THEN [mx EXCEPT !.tr = Append(mx.tr, [mark |-> Len(out), names |-> <<>>])] ELSE mx
                      /\ UNCHANGED <<envs, glob, rep, cells>>
          IN EvalAt(Site(F.i, "sub", 0), It.sub.e, K)
  /\ UNCHANGED <<pid, res>>

SEtag ==    \* visit_End
  /\ Running /\ F.st = "etag"
  /\ out' = IF TagShown THEN Append(out, [a |-> "etag", i |-> F.i]) ELSE out
  /\ ctl' = Goto("loop")
  /\ UNCHANGED <<pid, mx, envs, glob, rep, cells, log, tok, exc, res>>

SLoop ==    \* end of the loop body: index -= 1; separator unless last
  /\ Running /\ F.st = "loop"
  /\ IF It.rep.m = "no"
     THEN /\ ctl' = SetF([F EXCEPT !.st = "undef", !.j = Len(It.def)])
          /\ UNCHANGED out
     ELSE /\ ctl' = Goto("iter")
          /\ out' = IF F.it < Len(F.its) THEN Append(out, [a |-> "sep", i |-> F.i]) ELSE out
  \* visit_Domain / visit_TxContext / visit_Target restore the previous settings
  /\ mx' = IF It.i18n.m = "yes" THEN [mx EXCEPT !.i18n = F.ib] ELSE mx
  /\ UNCHANGED <<pid, envs, glob, rep, cells, log, tok, exc, res>>

SUndef ==   \* _leave_assignment in reverse order
  /\ Running /\ F.st = "undef"
  /\ IF F.j = 0 \/ Len(It.def) = 0
     THEN /\ ctl' = Goto(IF It.nm # "" THEN "nend" ELSE "done") /\ UNCHANGED envs
     ELSE LET d == It.def[F.j] IN
          /\ envs' = IF d.g THEN envs
                     ELSE SetAll(envs, d.ns, [m \in 1..Len(d.ns) |-> Restored(d.ns[m], cells[CBk(F.i, F.j)].vs[m], cells[CBk(F.i, F.j)].gs[m])], 1)
          /\ ctl' = SetF([F EXCEPT !.j = F.j - 1])
  /\ UNCHANGED <<pid, mx, glob, rep, cells, out, log, tok, exc, res>>

SDone ==    \* element finished: back to the parent's children walk
  /\ Running /\ F.st = "done" /\ F.kind = "elem"
  /\ LET n == Len(ctl) IN
     ctl' = [SubSeq(ctl, 1, n - 1) EXCEPT ![n - 1].c = Match(F.i) + 1, ![n - 1].j = 1]
  /\ UNCHANGED <<pid, mx, envs, glob, rep, cells, out, log, tok, exc, res>>

-----------------------------------------------------------------------------
(* Exceptions: unwinding (no restores run -- the generated code has no     *)
(* finally), on-error handling, failure of the render call.                *)
\* names a frame binds locally
LocalNames(f) == IF f.i = 0 THEN {} ELSE
  UNION { { items[f.i].def[j].ns[m] : m \in 1..Len(items[f.i].def[j].ns) } : j \in { j \in 1..Len(items[f.i].def) : ~items[f.i].def[j].g } }
  \cup (IF items[f.i].rep.m # "no" /\ ~items[f.i].rep.g
        THEN { items[f.i].rep.ns[m] : m \in 1..Len(items[f.i].rep.ns) } ELSE {})
\* the local layer after leaving frame f abnormally: as if the restores had run
\* (the generated code has no finally: deviation NoRestoreOnUnwind)
LayerAfterUnwind(f) ==
  IF "NoRestoreOnUnwind" \in Dev THEN envs[Top]
  ELSE [n \in Names |-> IF n \in LocalNames(f)
                          THEN (IF glob[n] # f.g0[n] THEN glob[n] ELSE f.l0[n])
                          ELSE envs[Top][n]]

\* the global definitions at the moment of a macro call / a slot call: what was defined DURING the call is published
\* to the caller afterwards (a caller's local that merely shares its name with an earlier global is left alone)
CGlob(i) == <<"glob", i, 0>>
\* after a macro call (and after a slot filler) the globals defined during the call are published to the caller
WithGlobals(layer, g0) == [n \in Names |-> IF glob[n] # Undef /\ glob[n] # g0[n] THEN glob[n] ELSE layer[n]]

Unwind ==
  /\ res = "run" /\ exc # NoExc /\ Len(ctl) > 0
  /\ IF F.oe /\ exc.c \notin BaseOnly
     THEN \* visit_OnError handler: bind error, call handler, truncate
          /\ envs' = SetLocal([envs EXCEPT ![Top] = LayerAfterUnwind(F)], "error",
                              [t |-> "errinfo", c |-> exc.c, site |-> exc.site])
          /\ log' = Append(log, [ev |-> "handler", c |-> exc.c, act |-> Act])
          /\ out' = SubSeq(out, 1, cells[CFb(F.i)].n)
          /\ ctl' = SetF([F EXCEPT !.st = "fb", !.j = 1, !.oe = FALSE, !.rec = TRUE])
          /\ exc' = NoExc
          \* abandoned translation streams; the translation settings of the failed subtree end with it
          /\ mx' = [mx EXCEPT !.tr = SubSeq(mx.tr, 1, F.trd), !.i18n = F.ib]
          /\ UNCHANGED res
     ELSE IF Len(ctl) = 1
     THEN /\ res' = "fail" /\ ctl' = <<>>
          /\ UNCHANGED <<envs, log, out, exc, mx>>
     ELSE /\ ctl' = SubSeq(ctl, 1, Len(ctl) - 1)
          /\ IF F.kind \in {"macro", "fill", "tmpl"}
             THEN \* the function returns abnormally: its copy of the scope is gone;
                  \* every macro function records its call site (C12)
                  \* (what it defined globally so far is published to the caller all the same)
                  /\ envs' = [SubSeq(envs, 1, Top - 1) EXCEPT ![Top - 1] =
                                  IF CGlob(ctl[Len(ctl) - 1].i) \in DOMAIN cells
                                  THEN WithGlobals(envs[Top - 1], cells[CGlob(ctl[Len(ctl) - 1].i)].g) ELSE envs[Top - 1]]
                  /\ mx' = [mx EXCEPT !.senv = SubSeq(mx.senv, 1, Len(mx.senv) - 1)]
                  \* (a macro rendered in place -- its define-macro element stands in the flow -- has no call site)
                  /\ exc' = IF F.kind = "fill" \/ ctl[Len(ctl) - 1].st # "use" THEN exc
                            ELSE [exc EXCEPT !.sites = Append(exc.sites, Site(ctl[Len(ctl) - 1].i, "use", 0))]
             ELSE /\ envs' = [envs EXCEPT ![Top] = LayerAfterUnwind(F)]
                  /\ UNCHANGED <<mx, exc>>
          /\ UNCHANGED <<log, out, res>>
  /\ UNCHANGED <<pid, glob, rep, cells, tok>>

\* the fallback start tag carries the static attributes that no dynamic
\* statement targets (program.py builds it from the constant Attribute nodes)
\* (a static attribute that i18n:attributes names is translated there as well: C13 "the fallback's start tag")
RECURSIVE StaticOnly(_, _, _)
StaticOnly(i, P, n) ==
  IF n > Len(P) THEN <<>>
  ELSE (IF P[n].dy = 0
        THEN << [a |-> IF IaIndex(items[i], items[i].sattr[P[n].st].key) > 0 THEN "tattr" ELSE "sattr", i |-> i, n |-> P[n].st] >>
        ELSE <<>>) \o StaticOnly(i, P, n + 1)
RECURSIVE StaticOnlyEv(_, _, _)
StaticOnlyEv(i, P, n) ==
  IF n > Len(P) THEN <<>>
  ELSE (IF P[n].dy = 0 /\ IaIndex(items[i], items[i].sattr[P[n].st].key) > 0
        THEN << ATrans(i, P[n].st, 0, VDefault) >> ELSE <<>>) \o StaticOnlyEv(i, P, n + 1)

SFb ==      \* fallback: start tag with static attributes, value, end tag
  /\ Running /\ F.st = "fb"
  /\ LET tags == It.tag = "el" /\ It.omit.m = "no"
         site == Site(F.i, "oe", 0)
         pre == IF tags
                THEN << [a |-> "stag", i |-> F.i] >>
                     \o StaticOnly(F.i, Prepared(It), 1)
                     \o << [a |-> "stagend", i |-> F.i] >>
                ELSE <<>>
         post == IF tags THEN << [a |-> "etag", i |-> F.i] >> ELSE <<>>
     IN \E a \in EvAll(It.oe.e, LookupAll) :
          /\ log' = log \o (IF tags THEN StaticOnlyEv(F.i, Prepared(It), 1) ELSE <<>>) \o EvLog(site, a)
          /\ tok' = site
          /\ IF IsExc(a.r)
             THEN /\ RaiseAt(site, a.r.c)
                  /\ out' = out \o pre
                  /\ UNCHANGED ctl
             ELSE /\ out' = out \o pre
                           \o (IF a.r = VNone THEN <<>>
                               ELSE << TrVal(a.r, IF It.oe.s THEN "struct" ELSE "text", F.i) >>)
                           \o post
                  /\ ctl' = Goto("done")
                  /\ UNCHANGED exc
  /\ UNCHANGED <<pid, mx, envs, glob, rep, cells, res>>

-----------------------------------------------------------------------------
(* METAL.  A macro is the defining element rendered by a function of its    *)
(* own: called with a COPY of the caller's scope (locals of the macro do not *)
(* escape) after which the caller's scope is updated with the globals.       *)
(* Slot fillers are closures stored in deques that live in the variable      *)
(* scope (visit_UseExternalMacro); a macro function pops one filler per slot *)
(* name it defines when it starts (visit_Macro).                             *)

STop == Len(mx.senv)
SLookup(s) == IF mx.senv[STop][s] # 0 THEN mx.senv[STop][s] ELSE mx.senv[1][s]
MacroDef(name) == CHOOSE i \in 1..Len(items) : items[i].k = "open" /\ items[i].dm = name

\* register the fillers of a use-macro element (in document order)
RECURSIVE AddFills(_, _, _, _)
AddFills(H, SE, fills, n) ==      \* H: heap, SE: senv; returns [h, se]
  IF n > Len(fills) THEN [h |-> H, se |-> SE]
  ELSE LET f == fills[n]
           rec == [i |-> f.i, fn |-> F.fn, i18n |-> mx.i18n]
           cur == IF SE[Len(SE)][f.s] # 0 THEN SE[Len(SE)][f.s] ELSE SE[1][f.s]
       IN IF It.um.ext /\ cur # 0
          THEN AddFills([H EXCEPT ![cur] = <<rec>> \o H[cur]], SE, fills, n + 1)       \* appendleft
          ELSE AddFills(Append(H, <<rec>>), [SE EXCEPT ![Len(SE)][f.s] = Len(H) + 1], fills, n + 1)

\* a macro function starts by popping one filler per slot name it defines
\* (from the right end of the deque bound in its copy of the scope)
RECURSIVE PopSlots(_, _, _, _)
PopSlots(H, SE, todo, sv) ==
  IF todo = {} THEN [h |-> H, sv |-> sv]
  ELSE LET s == CHOOSE s \in todo : TRUE
           id == IF SE[Len(SE)][s] # 0 THEN SE[Len(SE)][s] ELSE SE[1][s]
       IN IF id # 0 /\ Len(H[id]) > 0
          THEN PopSlots([H EXCEPT ![id] = SubSeq(H[id], 1, Len(H[id]) - 1)], SE, todo \ {s},
                        [sv EXCEPT ![s] = H[id][Len(H[id])]])
          ELSE PopSlots(H, SE, todo \ {s}, sv)

NoSv == [s \in prog.slots |-> NoFill]

\* call macro element E (or a whole template) from the current frame
CallMacro(E, H, SE, whole, lib) ==
  LET SE2 == Append(SE, SE[Len(SE)])                 \* econtext.copy()
      todo == IF whole THEN prog.tslots[lib] ELSE items[E].mslots
      p == PopSlots(H, SE2, todo, NoSv)
      a == Len(mx.acts) + 1
      fr == IF whole
            THEN [Frame(0, "kids") EXCEPT !.kind = "tmpl", !.fn = a, !.c = prog.libs[lib].from, !.ke = prog.libs[lib].to + 1]
            ELSE [Frame(E, InnerFirst(items[E])) EXCEPT !.kind = "macro", !.fn = a]
  IN /\ ctl' = Append(ctl, fr)
     /\ mx' = [mx EXCEPT !.heap = p.h, !.senv = SE2, !.acts = Append(mx.acts, [sv |-> p.sv, tok |-> NoSite])]


SIMacro ==  \* visit_UseInternalMacro: the define-macro element in the normal flow
  /\ Running /\ F.st = "imacro" /\ F.kind # "macro"
  /\ CallMacro(F.i, mx.heap, mx.senv, FALSE, 0)
  /\ envs' = Append(envs, envs[Top])
  /\ cells' = SetCell(CGlob(F.i), [t |-> "glob", g |-> glob])
  /\ UNCHANGED <<pid, glob, rep, out, log, tok, exc, res>>

CMacroName(i) == <<"macroname", i, 0>>

\* Language (C09): a filler belongs to its use-macro: it is offered to the macro
\* that use names (and, through extend-macro, to the macros that one extends) and
\* to nobody else, and it is gone when the use is finished.  The code keeps the
\* deques in the dynamically scoped variable environment, so a filler for a slot
\* the used macro lacks reaches macros used *inside* it, and outlives the use in
\* the caller's scope (deviation FillerOutlivesUse).
CSenv(i) == <<"senv", i, 0>>
RECURSIVE BlockAll(_, _, _)
BlockAll(H, SE, todo) ==   \* bind every slot name to a fresh empty deque of its own
  IF todo = {} THEN [h |-> H, se |-> SE]
  ELSE LET s == CHOOSE s \in todo : TRUE IN
       BlockAll(Append(H, <<>>), [SE EXCEPT ![Len(SE)][s] = Len(H) + 1], todo \ {s})
Blocked(H, SE) ==      \* a scope layer in which no inherited filler is visible
  IF "FillerOutlivesUse" \in Dev \/ It.um.ext THEN [h |-> H, se |-> SE]
  ELSE BlockAll(H, SE, prog.slots)

SUse ==     \* visit_UseExternalMacro (+ the Define of `macroname` around it)
  /\ Running /\ F.st = "use"
  /\ LET u == It.um
         b == Blocked(mx.heap, mx.senv)
         r == AddFills(b.h, b.se, u.fills, 1)
         \* the use-macro expression is evaluated at every use: it may name the macro through a variable (mvar)
         E == IF u.whole THEN 0 ELSE IF u.mvar # "" THEN MacroDef(Lookup(u.mvar).s) ELSE MacroDef(u.mname)
         \* `macroname`: the text after the last '/' of the use-macro expression
         env1 == SetLocal(envs, "macroname", [t |-> "macroexpr", i |-> F.i])
     IN /\ cells' = [x \in DOMAIN cells \cup {CMacroName(F.i), CSenv(F.i), CGlob(F.i)} |->
                          IF x = CMacroName(F.i) THEN Lookup("macroname")
                          ELSE IF x = CSenv(F.i) THEN [t |-> "senv", l |-> mx.senv[STop]]
                          ELSE IF x = CGlob(F.i) THEN [t |-> "glob", g |-> glob] ELSE cells[x]]
        /\ tok' = Site(F.i, "use", 0)
        /\ CallMacro(E, r.h, r.se, u.whole, u.lib)
        /\ envs' = Append(env1, env1[Len(env1)])
  /\ UNCHANGED <<pid, glob, rep, out, log, exc, res>>


MReturn ==  \* the macro function returns
  /\ Running /\ F.kind \in {"macro", "tmpl"}
  /\ IF F.kind = "macro" THEN F.st = "done" ELSE (F.st = "kids" /\ F.c = KidsEnd)
  /\ LET n == Len(ctl)
         caller == ctl[n - 1]
         lay == WithGlobals(envs[Top - 1], cells[CGlob(caller.i)].g)
     IN IF caller.st = "use"
        THEN /\ envs' = [SubSeq(envs, 1, Top - 2) \o <<lay>> EXCEPT ![Top - 1]["macroname"] =
                            Restored("macroname", cells[CMacroName(caller.i)], Undef)]
             /\ ctl' = [SubSeq(ctl, 1, n - 1) EXCEPT ![n - 1].st = "loop", ![n - 1].j = 1]
        ELSE /\ envs' = SubSeq(envs, 1, Top - 2) \o <<lay>>
             /\ ctl' = [SubSeq(ctl, 1, n - 1) EXCEPT ![n - 1].st = IF items[caller.i].nm # "" THEN "nend" ELSE "done", ![n - 1].j = 1]
  /\ LET se == SubSeq(mx.senv, 1, Len(mx.senv) - 1)
         caller == ctl[Len(ctl) - 1]
     IN mx' = [mx EXCEPT !.senv = IF caller.st = "use" /\ "FillerOutlivesUse" \notin Dev /\ ~items[caller.i].um.ext
                                  THEN [se EXCEPT ![Len(se)] = cells[CSenv(caller.i)].l] ELSE se]
  /\ UNCHANGED <<pid, glob, rep, cells, out, log, tok, exc, res>>

SDs ==      \* visit_DefineSlot: the slot's default content, or the filler
  /\ Running /\ F.st = "ds"
  /\ LET fl == mx.acts[F.fn].sv[It.ds] IN
     IF fl = NoFill
     THEN /\ ctl' = Goto(NextStage(It, "ds"))
          /\ UNCHANGED <<envs, mx>>
     ELSE \* SLOT(__stream, econtext.copy(), rcontext) -- with the i18n settings
          \* of the place where the filler was written
          /\ ctl' = Append(ctl, [Frame(fl.i, InnerFirst(items[fl.i])) EXCEPT !.kind = "fill", !.fn = fl.fn,
                                                                                     !.ke = 0])
          /\ envs' = Append(envs, envs[Top])
          /\ mx' = [mx EXCEPT !.senv = Append(mx.senv, mx.senv[STop]),
                              !.tstk = Append(mx.tstk, mx.i18n), !.i18n = fl.i18n]
  /\ cells' = IF mx.acts[F.fn].sv[It.ds] = NoFill THEN cells ELSE SetCell(CGlob(F.i), [t |-> "glob", g |-> glob])
  /\ UNCHANGED <<pid, glob, rep, out, log, tok, exc, res>>

FReturn ==  \* the filler returns: the define-slot element is done
  /\ Running /\ F.kind = "fill" /\ F.st = "done"
  /\ LET n == Len(ctl) IN
     ctl' = [SubSeq(ctl, 1, n - 1) EXCEPT ![n - 1].st = "done", ![n - 1].j = 1]
  /\ envs' = [SubSeq(envs, 1, Top - 1) EXCEPT ![Top - 1] = WithGlobals(envs[Top - 1], cells[CGlob(ctl[Len(ctl) - 1].i)].g)]
  /\ mx' = [mx EXCEPT !.senv = SubSeq(mx.senv, 1, Len(mx.senv) - 1),
                      !.i18n = mx.tstk[Len(mx.tstk)], !.tstk = SubSeq(mx.tstk, 1, Len(mx.tstk) - 1)]
  /\ UNCHANGED <<pid, glob, rep, cells, out, log, tok, exc, res>>

-----------------------------------------------------------------------------
(* I18N.  Domain / context / target are lexically scoped settings (saved   *)
(* and restored around the element); i18n:translate renders the content    *)
(* into a stream of its own, from which the message id is computed; each   *)
(* i18n:name child renders into its own stream, leaves ${name} in the       *)
(* translation stream and its markup in the mapping.                       *)

SDom ==     \* visit_Domain / visit_TxContext / visit_Target
  /\ Running /\ F.st = "dom"
  /\ mx' = [mx EXCEPT !.i18n = [d |-> IF It.i18n.d # "" THEN It.i18n.d ELSE mx.i18n.d,
                                 c |-> IF It.i18n.c # "" THEN It.i18n.c ELSE mx.i18n.c,
                                 \* the target language is an expression: a constant, or (tv) a variable that
                                 \* is read here -- inside the element's own tal:define / tal:repeat
                                 t |-> IF It.i18n.t # "" THEN It.i18n.t
                                       ELSE IF It.i18n.tv # "" THEN Lookup(It.i18n.tv).s ELSE mx.i18n.t]]
  /\ ctl' = SetF([F EXCEPT !.st = NextStage(It, "dom"), !.j = 1, !.ib = mx.i18n])
  /\ UNCHANGED <<pid, envs, glob, rep, cells, out, log, tok, exc, res>>

SNameBegin ==   \* visit_Name: a stream of its own for the named block
  /\ Running /\ F.st = "nbegin"
  /\ ctl' = SetF([F EXCEPT !.st = NextStage(It, "nbegin"), !.j = 1, !.nmark = Len(out)])
  /\ UNCHANGED <<pid, mx, envs, glob, rep, cells, out, log, tok, exc, res>>

SNameEnd ==     \* the block's markup goes into the mapping, ${name} into the translation stream
  /\ Running /\ F.st = "nend"
  /\ LET cap == SubSeq(out, F.nmark + 1, Len(out))
         n == Len(mx.tr)
     IN /\ out' = Append(SubSeq(out, 1, F.nmark), [a |-> "nameph", n |-> It.nm])
        /\ mx' = IF n = 0 THEN mx
                 ELSE [mx EXCEPT !.tr[n].names = Append(mx.tr[n].names, [n |-> It.nm, cap |-> cap])]
  /\ ctl' = Goto("done")
  /\ UNCHANGED <<pid, envs, glob, rep, cells, log, tok, exc, res>>

STransEnd ==    \* visit_Translate: compute the message id, call the translation function
  /\ Running /\ F.st = "tend"
  /\ LET n == Len(mx.tr)
         t == mx.tr[n]
         cap == SubSeq(out, t.mark + 1, Len(out))
         \* every name written inside the element is in the mapping: empty unless its block was rendered
         init == [k \in 1..Len(It.tnames) |-> [n |-> It.tnames[k], cap |-> <<>>]]
         ev == [ev |-> "translate", id |-> It.tr.id, cap |-> cap, names |-> init \o t.names,
                d |-> mx.i18n.d, c |-> mx.i18n.c, t |-> mx.i18n.t, act |-> Act, i |-> F.i]
     IN /\ log' = Append(log, ev)
        /\ out' = Append(SubSeq(out, 1, t.mark), [a |-> "trans", e |-> Len(log) + 1])
        /\ mx' = [mx EXCEPT !.tr = SubSeq(mx.tr, 1, n - 1)]
  /\ ctl' = Goto("etag")
  /\ UNCHANGED <<pid, envs, glob, rep, cells, tok, exc, res>>

-----------------------------------------------------------------------------
Next ==
  \/ KEnter \/ KText \/ KCode \/ KDone
  \/ SOe \/ SDef \/ SCase \/ SCond \/ SRep \/ SIter \/ SSw \/ SRepl \/ SOmit
  \/ SStag \/ SDicts \/ SAttr \/ SStagEnd \/ SCont \/ SEtag \/ SLoop \/ SUndef \/ SDone
  \/ Unwind \/ SFb
  \/ SIMacro \/ SUse \/ MReturn \/ SDs \/ FReturn
  \/ SDom \/ SNameBegin \/ SNameEnd \/ STransEnd

Spec == Init /\ [][Next]_vars

Done == res # "run"

-----------------------------------------------------------------------------
(* Properties checked by TLC on the machine *)

\* C01: start and end tags of one element are both present or both absent and
\* properly nested in every completed rendering.
RECURSIVE Balanced(_, _, _)
Balanced(o, n, stk) ==
  IF n > Len(o) THEN stk = <<>>
  ELSE IF o[n].a = "stag" THEN Balanced(o, n + 1, Append(stk, o[n].i))
  ELSE IF o[n].a = "etag"
       THEN Len(stk) > 0 /\ stk[Len(stk)] = o[n].i /\ Balanced(o, n + 1, SubSeq(stk, 1, Len(stk) - 1))
  ELSE Balanced(o, n + 1, stk)
WellBracketed == res = "ok" => Balanced(out, 1, <<>>)

\* C08: between the repetitions of one loop activation there is exactly one
\* separator per completed iteration but the last, and none after the last
SeparatorCount ==
  (Running /\ F.st = "iter" /\ F.it >= Len(F.its) /\ Len(F.its) > 0 /\ exc = NoExc) =>
     Cardinality({ n \in F.n0 + 1..Len(out) : out[n].a = "sep" /\ out[n].i = F.i }) = Len(F.its) - 1

\* C10: the translation function is called exactly once per activation of an
\* element marked i18n:translate (static content)
TransEvents == { n \in 1..Len(log) : log[n].ev = "translate" }
OncePerTranslateElement ==
  \A m, n \in TransEvents : (m # n /\ log[m].i = log[n].i) => log[m].act # log[n].act

\* C07: every attribute name occurs at most once in an emitted start tag
\* (names compared as emitted; a dictionary key equal to a later named entry is
\* left to that entry, an earlier named entry is suppressed)
AttrName(a) ==
  CASE a.a \in {"sattr", "tattr"} -> pid.p.items[a.i].sattr[a.n].n
    [] a.a \in {"dattr", "battr", "sdflt"} -> pid.p.items[a.i].dattr[a.n].n
    [] a.a = "kattr" -> a.k
    [] OTHER -> ""
RECURSIVE LastStag(_, _)
LastStag(o, n) == IF n = 0 THEN 0 ELSE IF o[n].a = "stag" THEN n ELSE LastStag(o, n - 1)
AttrAtMostOncePerName ==
  LET s == LastStag(out, Len(out)) IN
  ("DictDuplicatesAcrossDicts" \notin Dev /\ s > 0 /\ \A n \in s + 1..Len(out) : out[n].a \in {"sattr", "tattr", "dattr", "battr", "kattr", "sdflt"}) =>
     \A m, n \in s + 1..Len(out) : m # n => AttrName(out[m]) # AttrName(out[n])

\* C04: an expression occurrence is evaluated at most once per activation.
CallEvents == { n \in 1..Len(log) : log[n].ev = "call" }
AtMostOncePerReach ==
  \A m, n \in CallEvents :
     (m # n /\ log[m].k = log[n].k /\ log[m].site = log[n].site /\ log[m].n = log[n].n) => log[m].act # log[n].act

\* C05: when an element is finished, the names it bound locally have the
\* value they had when it was entered (or are undefined again), unless a
\* global of that name was defined inside.
LeaveRestores ==
  (Running /\ F.st = "done" /\ ~(F.rec /\ "NoRestoreOnUnwind" \in Dev)) =>
     \A n \in LocalNames(F) : glob[n] = F.g0[n] => Lookup(n) = F.l0[n]

\* C05: a global definition stays visible unless a live local binding shadows
\* it: the name is defined, with the global's value or with an outer binding
\* that was restored when an inner local ended.
LiveLocal(n) == \E m \in 1..Len(ctl) : n \in LocalNames(ctl[m]) /\ ctl[m].st \notin {"done"}
GlobalsPersist ==
  res = "run" => \A n \in Names : (glob[n] # Undef /\ ~LiveLocal(n)) => Lookup(n) # Undef

\* C13: catching restores the stream to what it was when the element was entered.
OnErrorReplacesExactly ==
  (Running /\ F.st = "fb") => Len(out) = F.n0

\* C01: under one activation of a switch at most one case body is taken
\* (action property: a case is only taken while the switch cell is not cancelled)
CaseStep == Running /\ F.st = "case" /\ ctl'[Len(ctl)].st \notin {"case", "undef"} /\ exc' = NoExc
CaseAtMostOne == [][CaseStep => cells[CSw(ctl[SwFrame(Len(ctl) - 1)].i)] # VCancel]_vars

=============================================================================
