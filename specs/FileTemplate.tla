---------------------------- MODULE FileTemplate ----------------------------
(***************************************************************************)
(* File templates that follow their files, and the template loader (C16).  *)
(*                                                                         *)
(* files: (dir, name) -> [ver, mt] or Absent.  Every write gives the file   *)
(* a new modification time.  A file template remembers the modification     *)
(* time it last saw; with auto_reload every use re-reads the file iff the   *)
(* time differs; cooking replaces body, macro set and content type by the   *)
(* file's current version.  The loader resolves a name along its search     *)
(* path once and then returns the same instance for the same name.          *)
(***************************************************************************)
EXTENDS Naturals, Sequences, FiniteSets, TLC

CONSTANTS Dirs,        \* search path, in order (sequence of directory ids)
          FNames,      \* file names
          Vers,        \* content versions
          MaxOps,
          Dev

Absent == [ver |-> 0, mt |-> 0]
\* macros defined by each content version; version 3 is an XML document
MacrosOf(v) == CASE v = 1 -> {"m1", "m2"} [] v = 2 -> {"m2", "m3"} [] OTHER -> {}
CTypeOf(v) == IF v = 3 THEN "text/xml" ELSE "text/html"
\* version 4 does not compile (a language error): every use of the template raises until the file is repaired --
\* it never falls back to an earlier version
Broken(v) == v = 4

VARIABLES files, clock, tpls, reg, hist, files0
vars == <<files, clock, tpls, reg, hist, files0>>

DirSet == { Dirs[i] : i \in 1..Len(Dirs) }

Init == /\ files \in [DirSet \X FNames -> {Absent} \cup { [ver |-> v, mt |-> 1] : v \in {1} }]
        /\ \E k \in DirSet \X FNames : files[k] # Absent
        /\ clock = 1
        /\ tpls = <<>>
        /\ reg = [n \in {} |-> 0]
        /\ hist = <<>>
        /\ files0 = files

Op(o) == hist' = Append(hist, o)

Write(d, n, v) ==
  /\ files' = [files EXCEPT ![<<d, n>>] = [ver |-> v, mt |-> clock + 1]]
  /\ clock' = clock + 1
  /\ Op([op |-> "write", d |-> d, n |-> n, v |-> v, mt |-> clock + 1])
  /\ UNCHANGED <<tpls, reg>>

Touch(d, n) ==       \* same content, new modification time
  /\ files[<<d, n>>] # Absent
  /\ files' = [files EXCEPT ![<<d, n>>].mt = clock + 1]
  /\ clock' = clock + 1
  /\ Op([op |-> "touch", d |-> d, n |-> n, mt |-> clock + 1])
  /\ UNCHANGED <<tpls, reg>>

\* cook_check + cook: the template after being used once more
Checked(t) ==
  LET f == files[<<t.d, t.n>>]
      stale == t.auto /\ f.mt # t.last
      t1 == IF stale THEN [t EXCEPT !.last = f.mt, !.cooked = FALSE] ELSE t
  IN IF ~t1.cooked /\ Broken(f.ver)
     THEN [t1 EXCEPT !.cooks = t.cooks + 1]          \* the attempt fails; the template stays uncooked
     ELSE IF ~t1.cooked
     THEN [t1 EXCEPT !.cooked = TRUE, !.ver = f.ver, !.cooks = t.cooks + 1,
                     !.macros = IF "StaleMacros" \in Dev THEN t.macros \cup MacrosOf(f.ver) ELSE MacrosOf(f.ver),
                     \* which version each known macro renders
                     !.mver = [m \in {"m1", "m2", "m3"} |-> IF m \in MacrosOf(f.ver) THEN f.ver ELSE t.mver[m]]]
     ELSE t1

NewTpl(d, n, auto) == [d |-> d, n |-> n, auto |-> auto, last |-> 0, cooked |-> FALSE, ver |-> 0, cooks |-> 0,
                       macros |-> {}, mver |-> [m \in {"m1", "m2", "m3"} |-> 0]]

Open(d, n, auto) ==   \* PageTemplateFile(path, auto_reload=auto)
  /\ files[<<d, n>>] # Absent /\ Len(tpls) < 2
  /\ tpls' = Append(tpls, NewTpl(d, n, auto))
  /\ Op([op |-> "open", d |-> d, n |-> n, auto |-> auto, t |-> Len(tpls) + 1])
  /\ UNCHANGED <<files, clock, reg>>

Usable(t) == files[<<tpls[t].d, tpls[t].n>>] # Absent

Render(t) ==
  /\ Usable(t)
  /\ LET c == Checked(tpls[t]) IN
     /\ tpls' = [tpls EXCEPT ![t] = c]
     /\ Op([op |-> "render", t |-> t, ver |-> c.ver, ctype |-> CTypeOf(c.ver), cooks |-> c.cooks, err |-> ~c.cooked])
  /\ UNCHANGED <<files, clock, reg>>

Macros(t) ==
  /\ Usable(t)
  /\ LET c == Checked(tpls[t]) IN
     /\ tpls' = [tpls EXCEPT ![t] = c]
     /\ Op([op |-> "macros", t |-> t, names |-> c.macros, cooks |-> c.cooks, err |-> ~c.cooked])
  /\ UNCHANGED <<files, clock, reg>>

UseMacro(t, m) ==
  /\ Usable(t)
  /\ LET c == Checked(tpls[t]) IN
     /\ tpls' = [tpls EXCEPT ![t] = c]
     /\ Op([op |-> "usemacro", t |-> t, m |-> m, found |-> m \in c.macros,
            ver |-> IF m \in c.macros THEN c.mver[m] ELSE 0, err |-> ~c.cooked])
  /\ UNCHANGED <<files, clock, reg>>

\* the loader: first match along the search path, same instance for the same name
RECURSIVE FirstDir(_, _)
FirstDir(n, i) == IF i > Len(Dirs) THEN 0
                  ELSE IF files[<<Dirs[i], n>>] # Absent THEN Dirs[i] ELSE FirstDir(n, i + 1)

Load(n) ==
  /\ Len(tpls) < 3
  /\ IF n \in DOMAIN reg
     THEN /\ Op([op |-> "load", n |-> n, t |-> reg[n], found |-> TRUE, d |-> tpls[reg[n]].d])
          /\ UNCHANGED <<tpls, reg>>
     ELSE LET d == FirstDir(n, 1) IN
          IF d = 0
          THEN /\ Op([op |-> "load", n |-> n, t |-> 0, found |-> FALSE, d |-> 0])
               /\ UNCHANGED <<tpls, reg>>
          ELSE /\ tpls' = Append(tpls, NewTpl(d, n, TRUE))
               /\ reg' = [x \in DOMAIN reg \cup {n} |-> IF x = n THEN Len(tpls) + 1 ELSE reg[x]]
               /\ Op([op |-> "load", n |-> n, t |-> Len(tpls) + 1, found |-> TRUE, d |-> d])
  /\ UNCHANGED <<files, clock>>

Next ==
  /\ Len(hist) < MaxOps /\ UNCHANGED files0
  /\ \/ \E d \in DirSet, n \in FNames, v \in Vers : Write(d, n, v)
     \/ \E d \in DirSet, n \in FNames : Touch(d, n)
     \/ \E d \in DirSet, n \in FNames, a \in BOOLEAN : Open(d, n, a)
     \/ \E t \in 1..Len(tpls) : Render(t) \/ Macros(t) \/ \E m \in {"m1", "m3"} : UseMacro(t, m)
     \/ \E n \in FNames : Load(n)

Spec == Init /\ [][Next]_vars

-----------------------------------------------------------------------------
\* an auto-reloading template that has just been used serves the file's current version
ServesLatest ==
  \A t \in 1..Len(tpls) :
     (tpls[t].auto /\ tpls[t].cooked /\ tpls[t].last = files[<<tpls[t].d, tpls[t].n>>].mt)
        => tpls[t].ver = files[<<tpls[t].d, tpls[t].n>>].ver
\* nothing of an earlier version: the macro set is that of the served version
NothingFromEarlierVersions ==
  \A t \in 1..Len(tpls) : tpls[t].cooked => tpls[t].macros = MacrosOf(tpls[t].ver)
\* a template is not recompiled while its file is unchanged
NoRecompileWhenUnchanged ==
  [][ \A t \in 1..Len(tpls) :
        (t <= Len(tpls') /\ tpls'[t].cooks > tpls[t].cooks) =>
           (~tpls[t].cooked \/ tpls[t].last # files[<<tpls[t].d, tpls[t].n>>].mt) ]_vars
\* the loader returns the same instance for the same name
SameInstance ==
  [][ \A n \in DOMAIN reg : n \in DOMAIN reg' /\ reg'[n] = reg[n] ]_vars
=============================================================================
