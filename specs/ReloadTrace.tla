----------------------------- MODULE ReloadTrace -----------------------------
(***************************************************************************)
(* Validation of behaviours of FREE-RUNNING threads against Reload (C->S). *)
(*                                                                         *)
(* A trace is the totally ordered log (one lock, one sequence number) of   *)
(* the hook events of several threads rendering one auto_reload file       *)
(* template while a writer thread (t = 0) saves new versions of the file,  *)
(* plus one "use" event per finished render() carrying the version that    *)
(* was rendered.  The shared state is not protected by a lock, and a hook  *)
(* fires AFTER the access it reports: the access happened somewhere        *)
(* between the thread's previous event and this one.  So the trace spec    *)
(* lets every thread run AHEAD of the log by the steps up to its next      *)
(* event (`ahead`): Fire(t) takes specification steps of thread t --       *)
(* internal ones, then the one that passes the hook of t's next event --   *)
(* and Consume matches the head of the log with a thread that is ahead.    *)
(* TLC searches all placements; a trace is accepted iff some placement     *)
(* consumes the whole log with every logged datum (modification time seen, *)
(* version read, version rendered, version written) equal to the           *)
(* specification's and -- for traces whose file changed only between       *)
(* calls -- every call Fresh.                                              *)
(***************************************************************************)
EXTENDS Reload, Json, IOUtils, TLCExt

Traces == JsonDeserialize(IOEnv.TRACE_FILE)

VARIABLES tid, l, ahead
tvars == <<vars, tid, l, ahead>>

Tr == Traces[tid].events
Who == Threads \cup {0}
HasNext(t) == \E i \in l..Len(Tr) : Tr[i].t = t
NextEv(t) == Tr[CHOOSE i \in l..Len(Tr) : Tr[i].t = t /\ \A j \in l..(i - 1) : Tr[j].t # t]

TInit == /\ Init
         /\ tid \in 1..Len(Traces)
         /\ l = 1
         /\ ahead = [t \in Who |-> FALSE]

Datum(t, ev) ==
  CASE ev.label = "check.mtime" -> loc'[t].mt = ev.v
    [] ev.label = "check.read"  -> loc'[t].body = ev.v
    [] ev.label = "use"         -> done'[Len(done')].res = ev.v
    [] ev.label = "write"       -> fver' = ev.v
    [] OTHER -> TRUE

Fire(t) ==
  /\ ~ahead[t] /\ HasNext(t)
  /\ IF t = 0 THEN Write ELSE Step(t)
  /\ IF lab'.label = "" THEN ahead' = ahead
     ELSE LET ev == NextEv(t) IN
          /\ lab'.label = ev.label
          /\ Datum(t, ev)
          /\ ahead' = [ahead EXCEPT ![t] = TRUE]
  /\ Traces[tid].quiet => Fresh'
  /\ UNCHANGED <<tid, l>>

Consume ==
  /\ l <= Len(Tr)
  /\ ahead[Tr[l].t]
  /\ l' = l + 1
  /\ ahead' = [ahead EXCEPT ![Tr[l].t] = FALSE]
  /\ UNCHANGED <<vars, tid>>

\* what the future of a search state depends on: not the label of the last step, and of the history of completed
\* calls only its length (each entry was checked when it was appended)
TView == <<fver, last, cooked, pub, pc, loc, ncalls, Len(done), tid, l, ahead>>

TNext == Consume \/ \E t \in Who : Fire(t)
TSpec == TInit /\ [][TNext]_tvars

\* register tid: the longest prefix of the log that some placement explains
Progress == TLCSet(tid, IF l - 1 > TLCGet(tid) THEN l - 1 ELSE TLCGet(tid))
ASSUME \A t \in 1..Len(Traces) : TLCSet(t, 0)
AllAccepted == LET bad == { t \in 1..Len(Traces) : TLCGet(t) # Len(Traces[t].events) } IN
               IF bad = {} THEN TRUE
               ELSE PrintT(<<"REJECTED", [t \in bad |-> TLCGet(t)]>>) /\ FALSE
=============================================================================
