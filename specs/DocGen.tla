------------------------------- MODULE DocGen -------------------------------
(***************************************************************************)
(* Grammar of statement-free documents (C03, also C17/C18 reuse it): a     *)
(* document is a sequence of lexical items with detail parameters.  The    *)
(* generation actions append one item; BFS enumerates every document up    *)
(* to MaxItems, the harness concretises each with several seeded lexical   *)
(* fillings.  The rendering of a statement-free document is the document   *)
(* itself (CR and CRLF become LF outside XML mode): Render below is the    *)
(* specification of `verbatim`.                                            *)
(***************************************************************************)
EXTENDS Naturals, Sequences, TLC

CONSTANTS MaxItems, MaxDepth

TextKinds  == {"plain", "entity", "nument", "nonascii", "crlf", "cr", "dollar", "gt", "amp", "quotes", "ws"}
AttrStyles == {"none", "dq", "sq", "unquoted", "valueless", "mixedcase", "spaced", "multi", "entval", "gtval", "nsprefix"}
TagNames   == {"div", "p"}
\* tag soup: start tags that are never closed (any spelling; an end tag closes the element of exactly its own spelling)
SoupNames  == {"p", "P", "li", "LI"}

VARIABLES doc,    \* sequence of items
          stack,  \* open element names
          xml,    \* XML mode (document starts with an XML declaration)
          fin

vars == <<doc, stack, xml, fin>>

Init == /\ doc = <<>> /\ stack = <<>> /\ fin = FALSE
        /\ xml \in BOOLEAN

Room == ~fin /\ Len(doc) < MaxItems

AddText    == Room /\ \E k \in TextKinds :
                 /\ (IF Len(doc) = 0 THEN TRUE ELSE doc[Len(doc)].k # "text")   \* adjacent text items are one text
                 /\ doc' = Append(doc, [k |-> "text", d |-> k]) /\ UNCHANGED <<stack, xml, fin>>
AddComment == Room /\ \E k \in {"plain", "dashes", "markup", "bang"} :
                 doc' = Append(doc, [k |-> "comment", d |-> k]) /\ UNCHANGED <<stack, xml, fin>>
AddCData   == Room /\ doc' = Append(doc, [k |-> "cdata", d |-> "markup"]) /\ UNCHANGED <<stack, xml, fin>>
AddPI      == Room /\ doc' = Append(doc, [k |-> "pi", d |-> "php"]) /\ UNCHANGED <<stack, xml, fin>>
AddDoctype == Room /\ Len(doc) = 0 /\ \E k \in {"html5", "public"} :
                 doc' = Append(doc, [k |-> "doctype", d |-> k]) /\ UNCHANGED <<stack, xml, fin>>
AddOpen    == Room /\ Len(stack) < MaxDepth /\ \E n \in TagNames, a \in AttrStyles :
                 /\ doc' = Append(doc, [k |-> "open", d |-> a, n |-> n])
                 /\ stack' = Append(stack, n) /\ UNCHANGED <<xml, fin>>
AddClose   == ~fin /\ Len(stack) > 0 /\ \E sp \in {"tight", "space"} :
                 /\ doc' = Append(doc, [k |-> "close", d |-> sp, n |-> stack[Len(stack)]])
                 /\ stack' = SubSeq(stack, 1, Len(stack) - 1) /\ UNCHANGED <<xml, fin>>
AddVoid    == Room /\ \E s \in {"selfclose", "selfclose-tight", "unclosed"}, a \in {"none", "dq", "valueless"} :
                 doc' = Append(doc, [k |-> "void", d |-> s, a |-> a]) /\ UNCHANGED <<stack, xml, fin>>
AddUnclosed == Room /\ \E n \in SoupNames :
                 doc' = Append(doc, [k |-> "uopen", d |-> "none", n |-> n]) /\ UNCHANGED <<stack, xml, fin>>
Finish     == ~fin /\ stack = <<>> /\ Len(doc) > 0 /\ fin' = TRUE /\ UNCHANGED <<doc, stack, xml>>

Next == AddText \/ AddComment \/ AddCData \/ AddPI \/ AddDoctype \/ AddOpen \/ AddClose \/ AddVoid \/ AddUnclosed \/ Finish

Spec == Init /\ [][Next]_vars

\* the specification of "verbatim": each item renders as itself; in HTML
\* mode the line-ending detail kinds are normalised to LF
Render(item) == IF ~xml /\ item.k = "text" /\ item.d \in {"crlf", "cr"}
                THEN [item EXCEPT !.d = "lf"] ELSE item
Rendered == [n \in 1..Len(doc) |-> Render(doc[n])]

\* well-nestedness of every finished document (the generator never closes what is not open)
RECURSIVE Nested(_, _, _)
Nested(d, n, st) == IF n > Len(d) THEN st = <<>>
                    ELSE IF d[n].k = "open" THEN Nested(d, n + 1, Append(st, d[n].n))
                    ELSE IF d[n].k = "close" THEN Len(st) > 0 /\ st[Len(st)] = d[n].n /\ Nested(d, n + 1, SubSeq(st, 1, Len(st) - 1))
                    ELSE Nested(d, n + 1, st)
WellNested == fin => Nested(doc, 1, <<>>)
=============================================================================
