------------------------------ MODULE ZPTTrace ------------------------------
(***************************************************************************)
(* Trace validation for the render machine (C->S).                         *)
(*                                                                         *)
(* Traces[n] is the sequence of scripted-call events [k, r] that a REAL     *)
(* execution of program n produced (the harness let every call e(k) pick    *)
(* a random outcome from its domain and recorded it).  The machine is       *)
(* restricted to the behaviours whose call events follow the recorded       *)
(* trace; since the outcomes of the calls are the machine's only source of  *)
(* non-determinism, validation is linear in the length of the trace.  A     *)
(* trace is accepted iff the restricted machine reaches a terminal state    *)
(* having consumed all of it; the terminal state (stream, log, result) is   *)
(* dumped and compared with what the real execution returned.               *)
(***************************************************************************)
EXTENDS ZPT

CONSTANT Traces

IsCall(ev) == ev.ev = "call"
CallsOf(l) == LET c == SelectSeq(l, IsCall) IN [n \in 1..Len(c) |-> [k |-> c[n].k, r |-> c[n].r]]

FollowsTrace(l) == LET c == CallsOf(l)
                       t == Traces[pid.id]
                   IN Len(c) <= Len(t) /\ c = SubSeq(t, 1, Len(c))

TNext == Next /\ FollowsTrace(log')
TSpec == Init /\ [][TNext]_vars

\* a terminal state has consumed the whole trace
Consumed == Done => Len(CallsOf(log)) = Len(Traces[pid.id])
=============================================================================
