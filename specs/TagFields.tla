----------------------------- MODULE TagFields ------------------------------
(***************************************************************************)
(* Dissection of a tag token into fields (C03: "tokenising and parsing     *)
(* lose nothing").  A tag token  <name attr* suffix  is cut by the parser  *)
(* (chameleon.parser.match_tag) into                                       *)
(*     prefix  name  ( space aname eq quote value quote )*  suffix         *)
(* and the start tag is re-emitted from these fields.  The machine below   *)
(* consumes the token left to right, one field per step; a dissection is   *)
(* loss-free iff the fields are contiguous and exhaust the token.          *)
(*                                                                         *)
(* Characters are classes (as in Lexer.tla): lt gt sl ex hy qm lb rb eq dq *)
(* sq sp a.  The trace specification at the end validates dissections      *)
(* recorded from the real parser (C->S), batched over many tokens.         *)
(***************************************************************************)
EXTENDS Naturals, Sequences, FiniteSets, TLC, Json, IOUtils, TLCExt

Traces == JsonDeserialize(IOEnv.TRACE_FILE)

VARIABLES tid, tok, cur, fields, phase, l
vars == <<tid, tok, cur, fields, phase, l>>

Sub(a, b) == SubSeq(tok, a, b)
Has(s, c) == \E i \in 1..Len(s) : s[i] = c
NoneOf(s, C) == \A i \in 1..Len(s) : s[i] \notin C

\* lexical classes of the fields
IsPrefix(s)  == s = <<"lt">> \/ s = <<"lt", "sl">>
IsTagName(s) == Len(s) > 0 /\ NoneOf(s, {"sp", "gt", "sl"})
\* the whitespace before an attribute; text that belongs to no attribute is kept with it
IsSpace(s)   == Len(s) > 0 /\ s[Len(s)] = "sp"
IsAName(s)   == Len(s) > 0 /\ NoneOf(s, {"sp", "eq", "sl", "gt"})
IsEq(s)      == s = <<>> \/ (Has(s, "eq") /\ NoneOf(s, {"lt", "gt", "sl", "ex", "hy", "qm", "lb", "rb", "dq", "sq", "a"})
                             /\ Cardinality({i \in 1..Len(s) : s[i] = "eq"}) = 1)
IsQuote(s)   == s = <<>> \/ s = <<"dq">> \/ s = <<"sq">>
IsSuffix(s)  == Len(s) > 0 /\ s[Len(s)] = "gt"

\* one step: the next field of kind k has length n
Take(k, n) ==
  /\ cur + n <= Len(tok)
  /\ fields' = Append(fields, [k |-> k, text |-> Sub(cur + 1, cur + n)])
  /\ cur' = cur + n

\* phase: what may come next
\*   "prefix" -> "name" -> ("space" -> "aname" -> "eq" -> "q1" -> "value" -> "q2")* -> "suffix" -> "done"
Step(k, n) ==
  LET s == Sub(cur + 1, cur + n) IN
  CASE k = "prefix" -> phase = "prefix" /\ IsPrefix(s) /\ phase' = "name"
    [] k = "name"   -> phase = "name" /\ IsTagName(s) /\ phase' = "attrs"
    [] k = "space"  -> phase = "attrs" /\ IsSpace(s) /\ phase' = "aname"
    [] k = "aname"  -> phase = "aname" /\ IsAName(s) /\ phase' = "eq"
    [] k = "eq"     -> phase = "eq" /\ IsEq(s) /\ phase' = "q1"
    [] k = "q1"     -> phase = "q1" /\ IsQuote(s) /\ phase' = "value"
    [] k = "value"  -> /\ phase = "value"
                       /\ LET q == fields[Len(fields)].text
                              e == fields[Len(fields) - 1].text IN
                          IF q # <<>> THEN ~Has(s, q[1])                       \* a quoted value ends at its quote
                          ELSE IF e # <<>> THEN Len(s) > 0 /\ s[1] \notin {"dq", "sq"} /\ NoneOf(s, {"sp", "gt"})
                                                        \* unquoted value: a quote after its first character belongs to it
                          ELSE s = <<>>                                        \* valueless attribute
                       /\ phase' = "q2"
    [] k = "q2"     -> phase = "q2" /\ s = fields[Len(fields) - 1].text /\ phase' = "attrs"
    [] k = "suffix" -> phase = "attrs" /\ IsSuffix(s) /\ cur + n = Len(tok) /\ phase' = "done"
    [] OTHER -> FALSE

TInit == /\ tid \in 1..Len(Traces)
         /\ tok = Traces[tid].tok
         /\ cur = 0 /\ fields = <<>> /\ phase = "prefix" /\ l = 1

TNext == /\ l <= Len(Traces[tid].fields)
         /\ LET f == Traces[tid].fields[l] IN
            /\ Step(f.k, Len(f.text))
            /\ Take(f.k, Len(f.text))
            /\ f.text = Sub(cur + 1, cur + Len(f.text))        \* the logged text is what stands there
         /\ l' = l + 1 /\ UNCHANGED <<tid, tok>>

TSpec == TInit /\ [][TNext]_vars

\* step invariant: nothing lost so far
RECURSIVE Cat(_, _)
Cat(fs, n) == IF n = 0 THEN <<>> ELSE Cat(fs, n - 1) \o fs[n].text
RoundTrip == Cat(fields, Len(fields)) = Sub(1, cur)

Progress == TLCSet(tid, IF l - 1 = Len(Traces[tid].fields) /\ cur = Len(tok) /\ phase = "done" THEN 1
                        ELSE IF TLCGet(tid) = 1 THEN 1 ELSE 0)
ASSUME \A t \in 1..Len(Traces) : TLCSet(t, 0)
AllAccepted == LET bad == { t \in 1..Len(Traces) : TLCGet(t) # 1 } IN
               IF bad = {} THEN TRUE ELSE PrintT(<<"REJECTED", bad>>) /\ FALSE
=============================================================================
