--------------------------- MODULE ZPTScopeTrace ---------------------------
(* Validation of recorded Scope operation traces of the real code (C->S).   *)
(* Traces: sequence of traces; a trace is a sequence of events              *)
(*   [op, s, n, v, res]   with res typed as in ZPTScope.                    *)
(* Every event is fully logged, so validation is linear.  The register tid  *)
(* records the longest matched prefix; the postcondition is total.          *)
EXTENDS ZPTScope, Json, IOUtils, TLCExt

Traces == JsonDeserialize(IOEnv.TRACE_FILE)

VARIABLES tid, l
tvars == <<scopes, last, tid, l>>

TInit == /\ Init
         /\ tid \in 1..Len(Traces)
         /\ l = 1

Ev == Traces[tid][l]

\* JSON gives sets as arrays: compare keys as sets
SameRes(model, logged) ==
  IF model.k # logged.k THEN FALSE
  ELSE CASE model.k = "keys" -> model.ks = { logged.ks[i] : i \in 1..Len(logged.ks) } /\ Len(logged.ks) = Cardinality(model.ks)
         [] model.k = "val"  -> model.v = logged.v
         [] model.k = "err"  -> model.e = logged.e
         [] model.k = "bool" -> model.b = logged.b
         [] model.k = "new"  -> model.i = logged.i
         [] OTHER -> TRUE

Step(A) == /\ l <= Len(Traces[tid]) /\ A /\ SameRes(last'.res, Ev.res) /\ l' = l + 1 /\ UNCHANGED tid

TNext ==
  \/ (Ev.op = "set"       /\ Step(SetItem(Ev.s, Ev.n, Ev.v)))
  \/ (Ev.op = "del"       /\ Step(DelItem(Ev.s, Ev.n)))
  \/ (Ev.op = "get"       /\ Step(GetDefault(Ev.s, Ev.n)))
  \/ (Ev.op = "getitem"   /\ Step(GetItem(Ev.s, Ev.n)))
  \/ (Ev.op = "getname"   /\ Step(GetName(Ev.s, Ev.n)))
  \/ (Ev.op = "contains"  /\ Step(Contains(Ev.s, Ev.n)))
  \/ (Ev.op = "iter"      /\ Step(IterKeys(Ev.s)))
  \/ (Ev.op = "setglobal" /\ Step(SetGlobal(Ev.s, Ev.n, Ev.v)))
  \/ (Ev.op = "copy"      /\ Step(Copy(Ev.s)))
  \/ (Ev.op = "update"    /\ Step(Update(Ev.s, Ev.n, Ev.v)))

TSpec == TInit /\ [][l <= Len(Traces[tid]) /\ TNext]_tvars

\* record progress: register tid holds the longest matched prefix
Progress == TLCSet(tid, IF TLCGet(tid) < l - 1 THEN l - 1 ELSE TLCGet(tid))
InitRegs == \A t \in 1..Len(Traces) : TLCSet(t, 0)
ASSUME InitRegs

Accepted ==
  \A t \in 1..Len(Traces) :
     IF TLCGet(t) = Len(Traces[t]) THEN TRUE
     ELSE PrintT(<<"REJECTED", t, TLCGet(t), Len(Traces[t])>>) /\ FALSE
AllAccepted == LET bad == { t \in 1..Len(Traces) : TLCGet(t) # Len(Traces[t]) } IN
               IF bad = {} THEN TRUE ELSE PrintT(<<"REJECTED", bad, [t \in bad |-> TLCGet(t)]>>) /\ FALSE
=============================================================================
