---------------------------- MODULE CookThreads ----------------------------
(***************************************************************************)
(* Concurrent render() calls on one shared file template (C14): the lazy   *)
(* compilation / reload protocol of BaseTemplateFile.cook_check and        *)
(* BaseTemplate.cook.  One step per env-guarded hook point of the code:    *)
(*                                                                         *)
(*  begin -> mtime -> [uncooked -> last_read_set] -> [read -> cook.begin -> *)
(*  compiled -> published -> flagged] -> use                                *)
(*                                                                         *)
(* Shared state: the template's remembered modification time, its cooked   *)
(* flag, the version whose render functions are published.  The file does  *)
(* not change while the threads run; each thread must return what it would *)
(* return alone: the file's current version.                               *)
(***************************************************************************)
EXTENDS Naturals, Sequences, FiniteSets, TLC

CONSTANTS Threads, Dev

VARIABLES fver,      \* version (= modification time) of the file, constant during a behaviour
          auto,      \* auto_reload
          last,      \* _v_last_read (0 = None)
          cooked,    \* _cooked
          pub,       \* version of the published render functions (0 = none)
          pc, loc,   \* per thread: program counter, locals [mt, body]
          result,    \* per thread: version rendered (0 = not yet)
          sched,     \* history: sequence of [t, label]
          fresh0     \* history: was the template never used before (initial situation)
vars == <<fver, auto, last, cooked, pub, pc, loc, result, sched, fresh0>>

Init == /\ fver \in {1, 2} /\ auto \in BOOLEAN
        \* either never used, or cooked earlier from version 1
        /\ fresh0 \in BOOLEAN
        /\ IF fresh0 THEN last = 0 /\ cooked = FALSE /\ pub = 0
           ELSE last = 1 /\ cooked = TRUE /\ pub = 1
        /\ pc = [t \in Threads |-> "begin"]
        /\ loc = [t \in Threads |-> [mt |-> 0, body |-> 0]]
        /\ result = [t \in Threads |-> 0]
        /\ sched = <<>>

Go(t, label, nxt) == /\ pc' = [pc EXCEPT ![t] = nxt]
                     /\ sched' = Append(sched, [t |-> t, label |-> label])

\* the order of the two assignments after a changed modification time:
\* language-level requirement is only ResultIsSolo; the pinned code remembered
\* the time BEFORE clearing the flag (deviation LastReadBeforeUncooked)
FlagFirst == "LastReadBeforeUncooked" \notin Dev

Begin(t) == pc[t] = "begin" /\ Go(t, "check.begin", IF auto THEN "mtime" ELSE "test")
            /\ UNCHANGED <<fver, auto, last, cooked, pub, loc, result>>
Mtime(t) == /\ pc[t] = "mtime"
            /\ loc' = [loc EXCEPT ![t].mt = fver]
            /\ Go(t, "check.mtime", "cmp")
            /\ UNCHANGED <<fver, auto, last, cooked, pub, result>>
\* `if self._cooked is False` -- not a hook point: evaluated together with the step that follows it
TestBody(t) ==
            /\ IF cooked
               THEN /\ result' = [result EXCEPT ![t] = pub]          \* use the published functions
                    /\ Go(t, "use", "done") /\ UNCHANGED loc
               ELSE /\ loc' = [loc EXCEPT ![t].body = fver]           \* read the file
                    /\ Go(t, "check.read", "cookbegin") /\ UNCHANGED result
            /\ UNCHANGED <<fver, auto, last, cooked, pub>>
\* `if mtime != self._v_last_read` is evaluated when the thread moves on from the mtime hook
Cmp(t) ==   /\ pc[t] = "cmp"
            /\ IF loc[t].mt # last
               THEN /\ IF FlagFirst THEN cooked' = FALSE /\ UNCHANGED last
                       ELSE last' = loc[t].mt /\ UNCHANGED cooked
                    /\ Go(t, IF FlagFirst THEN "check.uncooked" ELSE "check.last_read_set", "chg2")
                    /\ UNCHANGED <<fver, auto, pub, loc, result>>
               ELSE TestBody(t)
Chg2(t) ==  /\ pc[t] = "chg2"
            /\ IF FlagFirst THEN last' = loc[t].mt /\ UNCHANGED cooked
               ELSE cooked' = FALSE /\ UNCHANGED last
            /\ Go(t, IF FlagFirst THEN "check.last_read_set" ELSE "check.uncooked", "stale")
            /\ UNCHANGED <<fver, auto, pub, loc, result>>
\* a caller that has seen the new modification stamp cooks the file itself, whatever the shared flag says by now
\* (a concurrent cook of an earlier version may have set it again)
Stale(t) == /\ pc[t] = "stale"
            /\ loc' = [loc EXCEPT ![t].body = fver]
            /\ Go(t, "check.read", "cookbegin")
            /\ UNCHANGED <<fver, auto, last, cooked, pub, result>>
Test(t) ==  pc[t] = "test" /\ TestBody(t)
CookBegin(t) == pc[t] = "cookbegin" /\ Go(t, "cook.begin", "compiled")
                /\ UNCHANGED <<fver, auto, last, cooked, pub, loc, result>>
Compiled(t) ==  pc[t] = "compiled" /\ Go(t, "cook.compiled", "publish")
                /\ UNCHANGED <<fver, auto, last, cooked, pub, loc, result>>
Publish(t) ==   /\ pc[t] = "publish" /\ pub' = loc[t].body
                /\ Go(t, "cook.published", "flag")
                /\ UNCHANGED <<fver, auto, last, cooked, loc, result>>
Flag(t) ==      /\ pc[t] = "flag" /\ cooked' = TRUE
                /\ Go(t, "cook.flagged", "use")
                /\ UNCHANGED <<fver, auto, last, pub, loc, result>>
Use(t) ==       /\ pc[t] = "use" /\ result' = [result EXCEPT ![t] = pub]
                /\ Go(t, "use", "done")
                /\ UNCHANGED <<fver, auto, last, cooked, pub, loc>>

Next == UNCHANGED fresh0 /\ \E t \in Threads : Begin(t) \/ Mtime(t) \/ Cmp(t) \/ Chg2(t) \/ Stale(t) \/ Test(t) \/ CookBegin(t) \/ Compiled(t)
                              \/ Publish(t) \/ Flag(t) \/ Use(t)
Spec == Init /\ [][Next]_vars

AllDone == \A t \in Threads : pc[t] = "done"

\* what a thread would return alone: with auto_reload the file's current version;
\* without it the version cooked earlier (or the current one on first use)
Solo == IF auto \/ (last = 0 /\ ~cooked /\ pub = 0) THEN fver ELSE 1
SoloAtStart == IF auto THEN fver ELSE (IF \E t \in Threads : FALSE THEN 0 ELSE 0)

\* nobody uses render functions that are not there
RenderSeesPublished == \A t \in Threads : pc[t] = "done" => result[t] # 0
\* every thread returns what it would return alone
ResultIsSolo == \A t \in Threads : (pc[t] = "done" /\ auto) => result[t] = fver
=============================================================================
