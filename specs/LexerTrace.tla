----------------------------- MODULE LexerTrace -----------------------------
(* Validation of token streams recorded from chameleon.tokenize.iter_xml      *)
(* against Lexer (C->S).  Traces: sequence of [input, toks] with toks a        *)
(* sequence of [pos, text]; the kind of each token is inferred by TLC.         *)
EXTENDS Lexer, Json, IOUtils, TLCExt

Traces == JsonDeserialize(IOEnv.TRACE_FILE)

VARIABLES tid, l
tvars == <<input, cur, toks, tid, l>>

TInit == /\ tid \in 1..Len(Traces)
         /\ input = Traces[tid].input
         /\ cur = 0 /\ toks = <<>> /\ l = 1

TNext == /\ l <= Len(Traces[tid].toks)
         /\ LET t == Traces[tid].toks[l] IN
            /\ t.pos = cur                                   \* logged field bound
            /\ \E kind \in {"text", "markup"} : Emit(Len(t.text), kind)
            /\ toks'[Len(toks')].text = t.text
         /\ l' = l + 1 /\ UNCHANGED tid

TSpec == TInit /\ [][TNext]_tvars

\* a trace is accepted when all its tokens were consumed AND the input is exhausted
Progress == TLCSet(tid, IF l - 1 = Len(Traces[tid].toks) /\ cur = Len(input) THEN 1
                        ELSE IF TLCGet(tid) = 1 THEN 1 ELSE 0)
ASSUME \A t \in 1..Len(Traces) : TLCSet(t, IF Len(Traces[t].toks) = 0 /\ Len(Traces[t].input) = 0 THEN 1 ELSE 0)
AllAccepted == LET bad == { t \in 1..Len(Traces) : TLCGet(t) # 1 } IN
               IF bad = {} THEN TRUE ELSE PrintT(<<"REJECTED", bad>>) /\ FALSE
=============================================================================
