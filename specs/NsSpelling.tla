----------------------------- MODULE NsSpelling -----------------------------
(***************************************************************************)
(* Namespace resolution of attributes and element tags (C18).              *)
(*                                                                         *)
(* A document is a sequence of open / close items.  An open item carries   *)
(* namespace declarations (prefix -> URI) and attributes, each written in  *)
(* one of the forms                                                        *)
(*    [f |-> "pre",  p |-> prefix, n |-> name]     p:n="..."               *)
(*    [f |-> "bare", n |-> name]                   n="..."                 *)
(*    [f |-> "data", p |-> prefix, n |-> name]     data-p-n="..."          *)
(* and an element name [p |-> prefix or "", n |-> "block"].                *)
(* The namespace map in force at an element is its parent's map updated by *)
(* the element's own declarations -- irrespective of where among the       *)
(* attributes the declarations are written.  An attribute or declaration   *)
(* is dropped iff it belongs to one of the template-language namespaces;   *)
(* an element's tag is dropped iff the element is in such a namespace.     *)
(* Everything else is preserved, in place.                                 *)
(***************************************************************************)
EXTENDS Naturals, Sequences, FiniteSets, TLC

CONSTANTS MaxItems, MaxDepth, DataOption

Lang     == {"TAL", "METAL", "I18N", "META"}
Uris     == Lang \cup {"FOO", "XHTML"}
Prefixes == {"tal", "t", "foo", "i18n"}
\* prefixes known without declaration (MacroProgram.DEFAULT_NAMESPACES)
Default  == [p \in Prefixes \cup {"metal", "meta", ""} |->
               CASE p = "tal" -> "TAL" [] p = "metal" -> "METAL" [] p = "i18n" -> "I18N" [] p = "meta" -> "META"
                 [] OTHER -> "NONE"]
\* a harmless statement name per language namespace
StmtName(u) == CASE u = "TAL" -> "define" [] u = "METAL" -> "define-macro" [] u = "I18N" -> "domain" [] u = "META" -> "interpolation"
                 [] OTHER -> "bar"

VARIABLES doc, depth, fin
vars == <<doc, depth, fin>>

\* p = "": a default-namespace declaration xmlns="..."
Decl  == [p : {"", "t", "foo", "i18n"}, u : Uris]
Attr  == [f : {"pre"}, p : Prefixes] \cup [f : {"bare"}] \cup [f : {"data"}, p : {"tal", "t", "foo", "x"}]
ElemP == {"", "tal", "t", "foo"}

Init == doc = <<>> /\ depth = 0 /\ fin = FALSE

AddOpen ==
  /\ ~fin /\ Len(doc) < MaxItems /\ depth < MaxDepth
  /\ \E ds \in {{}} \cup { {d} : d \in Decl }, a1 \in Attr \cup {[f |-> "none"]}, a2 \in Attr \cup {[f |-> "none"]}, ep \in ElemP, dfirst \in BOOLEAN,
        sc \in BOOLEAN,         \* sc: a self-closing element (its declarations end with it)
        un \in BOOLEAN :        \* un: a start tag that is never closed (tag soup): its scope ends with its parent
       /\ (a1.f = "none" => a2.f = "none")
       /\ ~(sc /\ un) /\ (un => depth > 0)
       /\ doc' = Append(doc, [k |-> "open", ds |-> ds, as |-> SelectSeq(<<a1, a2>>, LAMBDA a : a.f # "none"),
                               ep |-> ep, dfirst |-> dfirst, sc |-> sc, un |-> un])
       /\ depth' = IF sc \/ un THEN depth ELSE depth + 1
  /\ UNCHANGED fin
AddClose ==
  /\ ~fin /\ depth > 0
  /\ doc' = Append(doc, [k |-> "close"]) /\ depth' = depth - 1 /\ UNCHANGED fin
Finish == ~fin /\ depth = 0 /\ Len(doc) > 0 /\ fin' = TRUE /\ UNCHANGED <<doc, depth>>
Next == AddOpen \/ AddClose \/ Finish
Spec == Init /\ [][Next]_vars

-----------------------------------------------------------------------------
\* namespace map after applying an element's declarations to its parent's map
Apply(m, ds) == [p \in DOMAIN m |-> IF \E d \in ds : d.p = p THEN (CHOOSE d \in ds : d.p = p).u ELSE m[p]]

\* maps in force at every item (stack discipline)
\* the stack holds [m: map, un: pushed by an unclosed start tag]; an end tag closes the innermost real element
\* together with every unclosed start tag inside it
RECURSIVE PopToOpen(_)
PopToOpen(stk) == IF stk[Len(stk)].un THEN PopToOpen(SubSeq(stk, 1, Len(stk) - 1)) ELSE SubSeq(stk, 1, Len(stk) - 1)
RECURSIVE MapsFrom(_, _, _)
MapsFrom(n, stk, acc) ==
  IF n > Len(doc) THEN acc
  ELSE IF doc[n].k = "open"
       THEN LET m == Apply(stk[Len(stk)].m, doc[n].ds) IN
            MapsFrom(n + 1, IF doc[n].sc THEN stk ELSE Append(stk, [m |-> m, un |-> doc[n].un]), Append(acc, m))
       ELSE MapsFrom(n + 1, PopToOpen(stk), Append(acc, stk[Len(stk)].m))
Maps == MapsFrom(1, <<[m |-> Default, un |-> FALSE]>>, <<>>)

\* an unprefixed element is in the default namespace in force
ElemNs(n) == Maps[n][doc[n].ep]
\* an attribute's namespace: its prefix's URI; bare attributes belong to the element's namespace
\* a data-p-n attribute is a statement iff the option is on and p is bound to a
\* template-language namespace; otherwise it is an ordinary (bare) attribute
Converted(n, a) == a.f = "data" /\ DataOption /\ a.p \in DOMAIN Maps[n] /\ Maps[n][a.p] \in Lang
AttrNs(n, a) == CASE a.f = "pre"  -> Maps[n][a.p]
                  [] a.f = "bare" -> ElemNs(n)
                  [] a.f = "data" -> IF Converted(n, a) THEN Maps[n][a.p] ELSE ElemNs(n)
Resolvable(n, a) == a.f # "pre" \/ Maps[n][a.p] # "NONE"
AttrDropped(n, a) == AttrNs(n, a) \in Lang
DeclDropped(d) == d.u \in Lang
TagDropped(n) == ElemNs(n) \in Lang

\* documents whose every prefix is bound where it is used (others are rejected by the parser)
WellBound == \A n \in 1..Len(doc) : doc[n].k = "open" =>
                /\ (doc[n].ep # "" => Maps[n][doc[n].ep] # "NONE")
                /\ \A j \in 1..Len(doc[n].as) : Resolvable(n, doc[n].as[j])
                \* an ordinary data-* attribute on an element of a language namespace
                \* would be an unknown statement of that language
                /\ \A j \in 1..Len(doc[n].as) :
                      (doc[n].as[j].f = "data" /\ ~Converted(n, doc[n].as[j])) => ElemNs(n) \notin Lang
                \* no attribute twice (same expanded name)
                /\ \A i, j \in 1..Len(doc[n].as) : i # j =>
                      /\ doc[n].as[i] # doc[n].as[j]
                      /\ ~(AttrNs(n, doc[n].as[i]) = AttrNs(n, doc[n].as[j]) /\ AttrNs(n, doc[n].as[i]) \in Lang)

\* what is emitted for the open item n
Kept(n) == [tag |-> ~TagDropped(n),
            ds |-> { d \in doc[n].ds : ~DeclDropped(d) },
            as |-> SelectSeq(doc[n].as, LAMBDA a : ~AttrDropped(n, a))]

NoLeak == fin => \A n \in 1..Len(doc) : doc[n].k = "open" =>
             /\ \A j \in 1..Len(Kept(n).as) : AttrNs(n, Kept(n).as[j]) \notin Lang
             /\ \A d \in Kept(n).ds : d.u \notin Lang
ForeignPreserved == fin => \A n \in 1..Len(doc) : doc[n].k = "open" =>
             /\ \A j \in 1..Len(doc[n].as) : (AttrNs(n, doc[n].as[j]) \notin Lang) =>
                    \E i \in 1..Len(Kept(n).as) : Kept(n).as[i] = doc[n].as[j]
             /\ \A d \in doc[n].ds : d.u \notin Lang => d \in Kept(n).ds
=============================================================================
